#!/usr/bin/env python3
"""usage: keep_seed.py <src-dir> <id> <property> <needs> <caught-by> <ran>
copies patch.diff / demo_test.go / notes.md into /verif/seeded/<id>/ and writes meta.json"""
import sys, os, shutil, json
src, sid, prop, needs, caught, ran = sys.argv[1:7]
dst = f'/verif/seeded/{sid}'
os.makedirs(dst, exist_ok=True)
for f in ('patch.diff', 'demo_test.go', 'notes.md'):
    if os.path.exists(os.path.join(src, f)):
        shutil.copy(os.path.join(src, f), os.path.join(dst, f))
json.dump({"id": sid, "breaks_property": prop, "needs_to_manifest": needs, "detected_by": caught, "what_was_run": ran,
           "origin": "independent sub-agent given only the property text and a scratch worktree; confirmed by tools/confirm_seed.sh (suite passes with the change, demo fails with it and passes without it)"},
          open(os.path.join(dst, 'meta.json'), 'w'), indent=1)
print("kept", dst)
