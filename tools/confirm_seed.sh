#!/bin/bash
# usage: tools/confirm_seed.sh <dir-with-patch.diff-and-demo_test.go> [extra go test flags]
# Confirms a seeded change in a scratch worktree of /repo: suite passes with the change, the demonstration fails with
# the change and passes without it. Prints a summary line per step; removes the worktree afterwards.
d=$(realpath "$1"); shift
export GOFLAGS=-mod=mod GOPROXY=off GOSUMDB=off GOTOOLCHAIN=local; unset GOWORK
w=/tmp/confirm_$$
git -C /repo worktree add -q --detach $w HEAD || exit 2
trap 'git -C /repo worktree remove --force $w' EXIT
cd $w
tests=$(grep -ho '^func Test[A-Za-z0-9_]*' $d/demo_test.go | sed 's/func //' | paste -sd'|')
git apply $d/patch.diff || { echo "PATCH-DOES-NOT-APPLY"; exit 2; }
go build ./... || { echo "DOES-NOT-COMPILE"; exit 2; }
s1=$(go test -vet=off -count=1 . 2>&1 | tail -1)
echo "suite with change: $s1"
cp $d/demo_test.go ./zz_demo_test.go
o1=$(go test -vet=off -count=1 "$@" -run "^($tests)\$" . 2>&1 | tail -1)
echo "demo with change:  $o1"
git checkout -q -- . 
o2=$(go test -vet=off -count=1 "$@" -run "^($tests)\$" . 2>&1 | tail -1)
echo "demo without:      $o2"
rm -rf testdata/rapid/TestDemo* 2>/dev/null
case "$s1" in ok*) ;; *) echo "NOT-CONFIRMED: suite fails with the change"; exit 1;; esac
case "$o1" in ok*) echo "NOT-CONFIRMED: demo passes with the change"; exit 1;; esac
case "$o2" in ok*) echo "CONFIRMED";; *) echo "NOT-CONFIRMED: demo fails without the change"; exit 1;; esac
