#!/bin/bash
# Applies every kept seeded change to /repo in turn, runs the check of the property it breaks and expects a VIOLATION;
# undoes the change straight afterwards. Exit 1 if a seeded change is no longer detected (or no longer applies).
cd /verif || exit 2
git -C /repo diff --quiet || { echo "/repo is dirty"; exit 2; }
rc=0
for d in seeded/*/; do
  id=$(basename $d)
  prop=$(python3 -c "import json;print(json.load(open('$d/meta.json'))['breaks_property'])")
  if ! git -C /repo apply --check $(realpath $d/patch.diff) 2>/dev/null; then echo "$id: PATCH-NO-LONGER-APPLIES"; rc=1; continue; fi
  git -C /repo apply $(realpath $d/patch.diff)
  out=$(bin/rapidlint -repo /repo -property $prop -known known_findings.json -evidence /tmp/seedall.$prop.json 2>&1)
  git -C /repo checkout -- .
  if echo "$out" | grep -q "^VIOLATION property=$prop"; then
    echo "$id: detected by $prop: $(echo "$out" | grep -m1 -o 'VIOLATED [^ ]*\|UNDECIDED [^ ]*')"
  else
    echo "$id: MISSED by $prop"; rc=1
  fi
done
rm -f /tmp/seedall.*.json
exit $rc
