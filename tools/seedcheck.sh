#!/bin/sh
# usage: tools/seedcheck.sh <dir-with-patch.diff> <property>...
# applies the seeded change to /repo, runs the quick checks of the given properties, and undoes it straight afterwards
d=$(realpath "$1"); shift
cd /verif || exit 2
git -C /repo diff --quiet || { echo "/repo is dirty"; exit 2; }
git -C /repo apply "$d/patch.diff" || { echo "patch does not apply"; exit 2; }
for p in "$@"; do
  bin/rapidlint -repo /repo -property $p -known known_findings.json -evidence /tmp/seedcheck.$p.json | grep -v '^$'
done
git -C /repo checkout -- .
rm -f /tmp/seedcheck.*.json
