#!/bin/bash
# usage: tools/refactor_check_copy.sh <diff>...   like refactor_check.sh, but on private scratch copies of /repo's
# HEAD (in parallel, /repo itself is not touched): for triage while /repo is in use. Not a registered check.
cd /verif || exit 2
one() {
  d=$(realpath $1)
  w=$(mktemp -d /tmp/refcopy.XXXXXX)
  git -C /repo archive HEAD | tar -x -C $w
  if ! (cd $w && git apply $d 2>/dev/null); then echo "## $d: does not apply"; rm -rf $w; return; fi
  out=$(${RL:-bin/rapidlint} -repo $w -property all -known known_findings.json -evidence $w/ev 2>&1 | grep -E "^  (VIOLATED|UNDECIDED)" | cut -c1-260)
  n=$(echo -n "$out" | grep -c . )
  echo "## $d: $n alarms"
  [ -n "$out" ] && echo "$out"
  rm -rf $w
}
export -f one
printf '%s\n' "$@" | xargs -P 8 -I{} bash -c 'one {}'
