#!/bin/bash
# full regression of the checker: unchanged tree silent, self-test catalogue, seeded changes, refactoring corpus silent
cd /verif || exit 2
rc=0
for p in C01 C02 C03 C04 C05 C06 C07 C08 C09 C10 C11 C12 C13 C14 C15 C16 C17 C18; do
  out=$(bin/rapidlint -property $p -known known_findings.json -evidence /tmp/regress.$p.json 2>&1) || { echo "UNCHANGED TREE: $p alarms"; echo "$out" | grep -E "VIOLATED|UNDECIDED" | cut -c1-200; rc=1; }
  out=$(bin/rapidlint -property $p -tier thorough -known known_findings.json -evidence /tmp/regress.$p.json 2>&1) || { echo "UNCHANGED TREE (thorough tier, all build configurations): $p alarms"; echo "$out" | grep -E "VIOLATED|UNDECIDED" | cut -c1-200; rc=1; }
  st=$(bin/rapidlint -property $p -selftest selftest -selftest-only -known known_findings.json 2>&1)
  echo "$st" | grep -v "failures=0$" | grep -q . && { echo "$st" | cut -c1-260; rc=1; } || echo "$st" | head -1
done
rm -f /tmp/regress.*.json
git -C /repo diff --quiet || { echo "/repo is dirty: the copy-based steps use HEAD"; rc=1; }
tools/check_all_seeds_copy.sh | grep -v "detected by" && rc=1
ref=$(tools/refactor_check_copy.sh refactorings/*.diff | grep '^## ' | grep -v ': 0 alarms$' | grep -v 'does not apply$')
[ -n "$ref" ] && { echo "REFACTORING CORPUS: alarms"; echo "$ref"; rc=1; }
exit $rc
