#!/bin/bash
# usage: tools/seedcheck2.sh <Cxxd>   checks both changes (A, B) of a two-mechanism seed directory under /tmp/seed_out
sid=$1; prop=${sid:0:3}
for ab in A B; do
  d=/tmp/seed_out/$sid/$ab
  [ -f $d/patch.diff ] || { echo "== $sid/$ab: no patch"; continue; }
  echo "== $sid/$ab"
  tools/seedcheck.sh $d $prop 2>&1 | grep -E "VIOLATED|UNDECIDED|violated/|does not apply|dirty" | head -3 | cut -c1-230
done
