#!/bin/bash
# Like check_all_seeds.sh, but every seeded change is applied to a private scratch copy of /repo's HEAD (in parallel);
# /repo itself is not touched. Regression tool, not a registered check.
cd /verif || exit 2
one() {
  d=$(realpath $1); id=$(basename $d)
  prop=$(python3 -c "import json;print(json.load(open('$d/meta.json'))['breaks_property'])")
  w=$(mktemp -d /tmp/seedcopy.XXXXXX)
  git -C /repo archive HEAD | tar -x -C $w
  if ! (cd $w && git apply $d/patch.diff 2>/dev/null); then echo "$id: PATCH-NO-LONGER-APPLIES"; rm -rf $w; return; fi
  out=$(${RL:-bin/rapidlint} -repo $w -property $prop -known known_findings.json -evidence $w/.ev.json 2>&1)
  rm -rf $w
  if echo "$out" | grep -q "^VIOLATION property=$prop"; then
    echo "$id: detected by $prop: $(echo "$out" | grep -m1 -o 'VIOLATED [^ ]*\|UNDECIDED [^ ]*')"
  else
    echo "$id: MISSED by $prop"
  fi
}
export -f one
ls -d seeded/*/ | xargs -P 8 -I{} bash -c 'one {}' | sort
