#!/usr/bin/env python3
"""Regenerates the seed table of DESIGN.md (between SEEDROWS-BEGIN/END) from seeded/*/meta.json."""
import json, glob, re, os
rows = []
for f in sorted(glob.glob('/verif/seeded/*/meta.json')):
    d = json.load(open(f))
    mech = re.sub(r'\s+', ' ', d.get('needs_to_manifest', '')).replace('|', '/')[:170]
    rows.append('| %s | %s | %s | `%s` | %s |' % (d['id'], d['breaks_property'], mech, d.get('detected_by', '').replace('|', '/'), d.get('first_missed', '').replace('|', '/')))
p = '/verif/DESIGN.md'
s = open(p).read()
b = s.index('<!--SEEDROWS-BEGIN-->') + len('<!--SEEDROWS-BEGIN-->')
e = s.index('<!--SEEDROWS-END-->')
s = s[:b] + '\n' + '\n'.join(rows) + '\n' + s[e:]
open(p, 'w').write(s)
print(len(rows), 'rows')
