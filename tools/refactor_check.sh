#!/bin/bash
# usage: tools/refactor_check.sh <diff>...   applies each behaviour-preserving refactoring to /repo, runs ALL property checks
# (one load, -property all) and prints every alarm (= false alarm); undoes the change afterwards.
cd /verif || exit 2
git -C /repo diff --quiet || { echo "/repo is dirty"; exit 2; }
for d in "$@"; do
  d=$(realpath $d)
  if ! git -C /repo apply --check $d 2>/dev/null; then echo "## $d: does not apply"; continue; fi
  git -C /repo apply $d
  out=$(bin/rapidlint -repo /repo -property all -known known_findings.json -evidence /tmp/refchk 2>&1 | grep -E "^  (VIOLATED|UNDECIDED)" | cut -c1-260)
  git -C /repo checkout -- .
  n=$(echo -n "$out" | grep -c . )
  echo "## $d: $n alarms"
  [ -n "$out" ] && echo "$out"
done
rm -rf /tmp/refchk
