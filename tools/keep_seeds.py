#!/usr/bin/env python3
# usage: tools/keep_seeds.py <first-missed ids comma separated or -> <Cxxh>...   copies confirmed two-mechanism seeds
# from /tmp/seed_out/<id>/{A,B} into seeded/<id>{A,B}/ with a meta.json (detected_by from a fresh tools/seedcheck.sh run)
import sys, os, json, re, shutil, subprocess
missed = set(sys.argv[1].split(",")) if sys.argv[1] != "-" else set()
for sid in sys.argv[2:]:
    for ab in "AB":
        src = f"/tmp/seed_out/{sid}/{ab}"
        if not os.path.exists(src + "/patch.diff"):
            print("skip", src); continue
        out = subprocess.run(["tools/seedcheck.sh", src, sid[:3]], capture_output=True, text=True).stdout
        m = re.search(r"^\s+(VIOLATED|UNDECIDED) (\S+)", out, re.M)
        if not m:
            print("NOT DETECTED", sid, ab); continue
        dst = f"seeded/{sid}{ab}"
        os.makedirs(dst, exist_ok=True)
        for f in ("patch.diff", "demo_test.go", "notes.md"):
            if os.path.exists(f"{src}/{f}"):
                shutil.copy(f"{src}/{f}", f"{dst}/{f}")
        notes = open(f"{src}/notes.md").read() if os.path.exists(f"{src}/notes.md") else ""
        body = " ".join(l.strip() for l in notes.splitlines() if l.strip() and not l.startswith("#"))
        meta = {"id": sid + ab, "breaks_property": sid[:3], "needs_to_manifest": body[:600], "detected_by": m.group(2),
                "first_missed": "yes" if sid + ab in missed else "no", "what_was_run": "tools/confirm_seed.sh; tools/seedcheck.sh",
                "origin": "independent sub-agent given only the property text and a scratch worktree (earlier rounds' outputs moved out of reach), asked for two different mechanisms (A, B); confirmed by tools/confirm_seed.sh"}
        json.dump(meta, open(f"{dst}/meta.json", "w"), indent=1)
        print("kept", dst, m.group(2))
