// mutate: a small mutation engine used to map blind spots of the checks (tools/mutation_survey.sh).
// It enumerates single-token mutants of the non-test sources of a Go package, keeps those that still compile and
// pass the package's own test suite ("survivors"), and runs rapidlint on every survivor. Output: one JSON line per
// mutant with its verdicts. Nothing is written to the analysed repository: every mutant lives in its own scratch copy.
package main

import (
	"context"
	"encoding/json"
	"flag"
	"fmt"
	"go/ast"
	"go/parser"
	"go/token"
	"os"
	"os/exec"
	"path/filepath"
	"sort"
	"strings"
	"sync"
	"time"
)

type mutant struct {
	ID      int    `json:"id"`
	File    string `json:"file"`
	Line    int    `json:"line"`
	Func    string `json:"func"`
	Kind    string `json:"kind"`
	Old     string `json:"old"`
	New     string `json:"new"`
	off, n  int
	Builds  bool     `json:"builds"`
	Suite   string   `json:"suite"` // ok | fail | timeout
	Alarms  []string `json:"alarms,omitempty"`
	Checked bool     `json:"checked"`
}

var boundary = map[token.Token]string{token.LSS: "<=", token.LEQ: "<", token.GTR: ">=", token.GEQ: ">", token.EQL: "!=", token.NEQ: "=="}

func main() {
	repo := flag.String("repo", "/repo", "package directory")
	scratch := flag.String("scratch", "/tmp/mut", "scratch directory")
	lint := flag.String("lint", "/verif/bin/rapidlint", "rapidlint binary")
	known := flag.String("known", "/verif/known_findings.json", "known findings")
	out := flag.String("out", "/tmp/mut/results.jsonl", "output")
	workers := flag.Int("workers", 12, "parallel workers")
	only := flag.String("files", "", "comma-separated file names (default: all non-test, non-vis files)")
	limit := flag.Int("limit", 0, "max mutants (0 = all)")
	stride := flag.Int("stride", 1, "take every n-th mutant")
	ops2 := flag.Bool("ops2", false, "also: swap adjacent call arguments, delete if statements without else, delete else branches")
	ops2only := flag.Bool("ops2only", false, "only the ops2 operators")
	ops3only := flag.Bool("ops3only", false, "only the sibling-identifier operator: one occurrence of min/lo/begin/left/valid/first/prev/i/…1 replaced by its sibling max/hi/end/right/invalid/last/next/j/…2 (and back) where the sibling name exists in the same function (or, for fields, file)")
	recheck := flag.String("recheck", "", "results file of an earlier run: only re-run the checks on its survivors")
	flag.Parse()
	// private copy of the checker: the survey must not be disturbed by rebuilds of the binary
	os.MkdirAll(*scratch, 0o755)
	if b, err := os.ReadFile(*lint); err == nil {
		priv := filepath.Join(*scratch, "rapidlint.private")
		if os.WriteFile(priv, b, 0o755) == nil {
			*lint = priv
		}
	}
	// snapshot of the repository: the survey must not see edits made to it while it runs
	base := filepath.Join(*scratch, "base")
	os.RemoveAll(base)
	copyDir(*repo, base)
	*repo = base
	prior := map[int]*mutant{}
	if *recheck != "" {
		b, _ := os.ReadFile(*recheck)
		for _, l := range strings.Split(string(b), "\n") {
			if strings.TrimSpace(l) == "" {
				continue
			}
			var m mutant
			if json.Unmarshal([]byte(l), &m) == nil {
				mm := m
				prior[m.ID] = &mm
			}
		}
	}

	fset := token.NewFileSet()
	files, _ := filepath.Glob(filepath.Join(*repo, "*.go"))
	sort.Strings(files)
	want := map[string]bool{}
	for _, f := range strings.Split(*only, ",") {
		if f != "" {
			want[f] = true
		}
	}
	var muts []*mutant
	for _, f := range files {
		base := filepath.Base(f)
		if strings.HasSuffix(base, "_test.go") || base == "vis.go" || base == "doc.go" {
			continue
		}
		if len(want) > 0 && !want[base] {
			continue
		}
		src, _ := os.ReadFile(f)
		af, err := parser.ParseFile(fset, f, src, 0)
		if err != nil {
			panic(err)
		}
		cur := ""
		add := func(kind string, pos, end token.Pos, repl string) {
			if *ops2only && kind != "swap-args" && kind != "del-if" && kind != "del-else" {
				return
			}
			if *ops3only && kind != "sibling" {
				return
			}
			p, e := fset.Position(pos), fset.Position(end)
			muts = append(muts, &mutant{File: base, Line: p.Line, Func: cur, Kind: kind, Old: string(src[p.Offset:e.Offset]), New: repl, off: p.Offset, n: e.Offset - p.Offset})
		}
		// names per function (identifiers) and per file (selected fields/methods), for the sibling operator
		sels := map[string]bool{}
		ast.Inspect(af, func(n ast.Node) bool {
			if se, ok := n.(*ast.SelectorExpr); ok {
				sels[se.Sel.Name] = true
			}
			return true
		})
		var curNames map[string]bool
		isSel := map[*ast.Ident]bool{}
		ast.Inspect(af, func(n ast.Node) bool {
			if se, ok := n.(*ast.SelectorExpr); ok {
				isSel[se.Sel] = true
			}
			return true
		})
		ast.Inspect(af, func(n ast.Node) bool {
			switch x := n.(type) {
			case *ast.FuncDecl:
				curNames = map[string]bool{}
				if *ops3only && x.Body != nil {
					ast.Inspect(x, func(m ast.Node) bool {
						if id, ok := m.(*ast.Ident); ok && !isSel[id] {
							curNames[id.Name] = true
						}
						return true
					})
				}
				cur = x.Name.Name
				if x.Recv != nil && len(x.Recv.List) > 0 {
					cur = exprStr(src, fset, x.Recv.List[0].Type) + "." + x.Name.Name
				}
			case *ast.BinaryExpr:
				if r, ok := boundary[x.Op]; ok {
					add("relop", x.OpPos, x.OpPos+token.Pos(len(x.Op.String())), r)
				}
				if x.Op == token.LAND {
					add("logic", x.OpPos, x.OpPos+2, "||")
				}
				if x.Op == token.LOR {
					add("logic", x.OpPos, x.OpPos+2, "&&")
				}
				if x.Op == token.ADD || x.Op == token.SUB {
					if bl, ok := x.Y.(*ast.BasicLit); ok && bl.Kind == token.INT && bl.Value == "1" {
						r := "-"
						if x.Op == token.SUB {
							r = "+"
						}
						add("arith", x.OpPos, x.OpPos+1, r)
					}
				}
			case *ast.CallExpr:
				if *ops2 {
					for i := 0; i+1 < len(x.Args); i++ {
						a, b := x.Args[i], x.Args[i+1]
						as := string(src[fset.Position(a.Pos()).Offset:fset.Position(a.End()).Offset])
						bs := string(src[fset.Position(b.Pos()).Offset:fset.Position(b.End()).Offset])
						if as != bs {
							add("swap-args", a.Pos(), b.End(), bs+", "+as)
						}
					}
				}
			case *ast.IfStmt:
				if *ops2 && x.Else == nil && x.Init == nil {
					add("del-if", x.Pos(), x.End(), "{}")
				}
				if *ops2 && x.Else != nil {
					add("del-else", x.Body.End(), x.Else.End(), "")
				}
							add("negate-if", x.Cond.Pos(), x.Cond.End(), "!("+string(src[fset.Position(x.Cond.Pos()).Offset:fset.Position(x.Cond.End()).Offset])+")")
			case *ast.ExprStmt:
				if _, ok := x.X.(*ast.CallExpr); ok {
					add("del-call", x.Pos(), x.End(), "{}")
				}
			case *ast.DeferStmt:
				add("del-defer", x.Pos(), x.End(), "{}")
			case *ast.IncDecStmt:
				add("del-incdec", x.Pos(), x.End(), "{}")
			case *ast.AssignStmt:
				if x.Tok != token.DEFINE && len(x.Lhs) == 1 {
					if _, isIdent := x.Lhs[0].(*ast.Ident); !isIdent {
						add("del-assign", x.Pos(), x.End(), "{}") // field / element store
					}
				}
			case *ast.Ident:
				if *ops3only && cur != "" {
					for _, sib := range siblings(x.Name) {
						if (isSel[x] && sels[sib]) || (!isSel[x] && curNames[sib]) {
							add("sibling", x.Pos(), x.End(), sib)
						}
					}
				}
				if x.Name == "true" && x.Obj == nil {
					add("bool", x.Pos(), x.End(), "false")
				}
				if x.Name == "false" && x.Obj == nil {
					add("bool", x.Pos(), x.End(), "true")
				}
			case *ast.BasicLit:
				if x.Kind == token.INT && (x.Value == "0" || x.Value == "1") {
					r := "1"
					if x.Value == "1" {
						r = "0"
					}
					add("const", x.Pos(), x.End(), r)
				}
			}
			return true
		})
	}
	var sel []*mutant
	for i, m := range muts {
		if i%*stride == 0 {
			sel = append(sel, m)
		}
	}
	if *limit > 0 && len(sel) > *limit {
		sel = sel[:*limit]
	}
	for i, m := range sel {
		m.ID = i
	}
	fmt.Fprintf(os.Stderr, "%d mutants\n", len(sel))
	os.MkdirAll(*scratch, 0o755)
	of, err := os.Create(*out)
	if err != nil {
		panic(err)
	}
	defer of.Close()
	var mu sync.Mutex
	jobs := make(chan *mutant)
	var wg sync.WaitGroup
	env := append(os.Environ(), "GOFLAGS=-mod=mod", "GOPROXY=off", "GOSUMDB=off", "GOTOOLCHAIN=local", "GOWORK=off")
	for w := 0; w < *workers; w++ {
		wg.Add(1)
		go func(w int) {
			defer wg.Done()
			for m := range jobs {
				dir := filepath.Join(*scratch, fmt.Sprintf("w%d", w))
				os.RemoveAll(dir)
				copyDir(*repo, dir)
				path := filepath.Join(dir, m.File)
				src, _ := os.ReadFile(path)
				ns := string(src[:m.off]) + m.New + string(src[m.off+m.n:])
				os.WriteFile(path, []byte(ns), 0o644)
				run := func(timeout time.Duration, name string, args ...string) (string, error) {
					ctx, cancel := context.WithTimeout(context.Background(), timeout)
					defer cancel()
					c := exec.CommandContext(ctx, name, args...)
					c.Dir = dir
					c.Env = env
					b, err := c.CombinedOutput()
					if ctx.Err() != nil {
						return string(b), ctx.Err()
					}
					return string(b), err
				}
				if pm := prior[m.ID]; *recheck != "" {
					if pm == nil || pm.File != m.File || pm.Line != m.Line || pm.Kind != m.Kind {
						os.RemoveAll(dir)
						continue
					}
					m.Builds, m.Suite = pm.Builds, pm.Suite
				}
				if _, err := run(2*time.Minute, "go", "build", "./..."); err == nil || *recheck != "" {
					if *recheck == "" {
						m.Builds = true
						outp, err := run(90*time.Second, "go", "test", "-vet=off", "-count=1", "-timeout", "60s", ".")
						switch {
						case err == nil:
							m.Suite = "ok"
						case strings.Contains(fmt.Sprint(err), "deadline"):
							m.Suite = "timeout"
						default:
							m.Suite = "fail"
							_ = outp
						}
					}
					if m.Suite == "ok" {
						lo, _ := run(3*time.Minute, *lint, "-repo", dir, "-property", "all", "-known", *known, "-evidence", filepath.Join(dir, ".ev"))
						m.Checked = strings.Contains(lo, "tier=")
						for _, l := range strings.Split(lo, "\n") {
							l = strings.TrimSpace(l)
							if strings.HasPrefix(l, "VIOLATED") || strings.HasPrefix(l, "UNDECIDED") {
								f := strings.Fields(l)
								if len(f) > 1 {
									m.Alarms = append(m.Alarms, f[1])
								}
							}
						}
					}
				}
				mu.Lock()
				b, _ := json.Marshal(m)
				of.Write(append(b, '\n'))
				mu.Unlock()
				os.RemoveAll(dir)
			}
		}(w)
	}
	for _, m := range sel {
		jobs <- m
	}
	close(jobs)
	wg.Wait()
}

var sibPairs = [][2]string{{"min", "max"}, {"Min", "Max"}, {"lo", "hi"}, {"Lo", "Hi"}, {"begin", "end"}, {"Begin", "End"}, {"left", "right"}, {"valid", "invalid"}, {"first", "last"}, {"prev", "next"}, {"1", "2"}, {"2", "3"}, {"lOverflow", "rOverflow"}, {"pos", "neg"}, {"Pos", "Neg"}, {"src", "dst"}, {"old", "new"}}

// siblings lists the names obtained from name by exchanging one sibling token (min↔max, …; i↔j, l↔r, a↔b, x↔y, u↔v
// for one-letter names).
func siblings(name string) []string {
	var out []string
	seen := map[string]bool{name: true}
	addS := func(s string) {
		if !seen[s] {
			seen[s] = true
			out = append(out, s)
		}
	}
	for _, p := range sibPairs {
		for _, d := range [][2]string{{p[0], p[1]}, {p[1], p[0]}} {
			if i := strings.Index(name, d[0]); i >= 0 {
				// "invalid" contains "valid": only whole-token exchanges at the start or after a lower→upper boundary
				if d[0] == "valid" && i >= 2 && name[i-2:i] == "in" {
					continue
				}
				addS(name[:i] + d[1] + name[i+len(d[0]):])
			}
		}
	}
	for _, p := range [][2]string{{"i", "j"}, {"l", "r"}, {"a", "b"}, {"x", "y"}, {"u", "v"}, {"n", "m"}, {"s", "t"}} {
		if name == p[0] {
			addS(p[1])
		}
		if name == p[1] {
			addS(p[0])
		}
	}
	return out
}

func exprStr(src []byte, fset *token.FileSet, e ast.Expr) string {
	return string(src[fset.Position(e.Pos()).Offset:fset.Position(e.End()).Offset])
}

func copyDir(src, dst string) {
	os.MkdirAll(dst, 0o755)
	ents, _ := os.ReadDir(src)
	for _, e := range ents {
		if e.Name() == ".git" || strings.HasSuffix(e.Name(), ".html") {
			continue
		}
		s, d := filepath.Join(src, e.Name()), filepath.Join(dst, e.Name())
		if e.IsDir() {
			if e.Name() == "testdata" {
				copyDir(s, d)
			}
			continue
		}
		b, err := os.ReadFile(s)
		if err == nil {
			os.WriteFile(d, b, 0o644)
		}
	}
}
