package main

import (
	_ "embed"
	"go/ast"
	"strings"

	"golang.org/x/tools/go/ssa"
)

// Transparent helpers.
//
// The rules are anchored on the functions of the analysed package that exist today
// (known_funcs.txt). A behaviour-preserving "extract function" refactoring moves part of an
// anchored function into a new, unexported function with exactly one call site. Such a helper
// is analysed as if it were still inlined at that call site:
//   - values: a parameter of the helper resolves to the argument at the call site, a call of the
//     helper resolves to the value it returns (single return);
//   - enumeration: the call sites / field accesses inside the helper belong to the host function;
//   - control flow: walks, dominance, guard facts, loops and lock sets continue through the call.
// A function is transparent only if it is not one of the known anchors, is not exported, is never
// used as a value, is not recursive and has exactly one static call site in the package.

//go:embed known_funcs.txt
var knownFuncsTxt string

var knownFuncs = func() map[string]bool {
	m := map[string]bool{}
	for _, l := range strings.Split(knownFuncsTxt, "\n") {
		l = strings.TrimSpace(l)
		if l != "" {
			m[l] = true
		}
	}
	return m
}()

//go:embed known_params.txt
var knownParamsTxt string

// knownParams: function name -> parameter names (receiver first) on the pinned tree.
var knownParams = func() map[string][]string {
	m := map[string][]string{}
	for _, l := range strings.Split(knownParamsTxt, "\n") {
		f := strings.Split(strings.TrimSpace(l), "\t")
		if len(f) < 1 || f[0] == "" {
			continue
		}
		m[f[0]] = f[1:]
	}
	return m
}()

// activeProg is the program the rules are currently evaluated on (rules run sequentially).
var activeProg *Program

type callerInfo struct {
	sites    []ssa.CallInstruction
	valueUse bool
}

func (p *Program) callerIndex() map[*ssa.Function]*callerInfo {
	if p.callers != nil {
		return p.callers
	}
	p.callers = map[*ssa.Function]*callerInfo{}
	get := func(f *ssa.Function) *callerInfo {
		if o := f.Origin(); o != nil {
			f = o
		}
		ci := p.callers[f]
		if ci == nil {
			ci = &callerInfo{}
			p.callers[f] = ci
		}
		return ci
	}
	for _, fn := range p.AllFuncs {
		for _, b := range fn.Blocks {
			for _, in := range b.Instrs {
				var callee *ssa.Function
				if c, ok := in.(ssa.CallInstruction); ok {
					if sc := c.Common().StaticCallee(); sc != nil {
						callee = sc
						get(sc).sites = append(get(sc).sites, c)
					}
				}
				for _, op := range in.Operands(nil) {
					if f, ok := (*op).(*ssa.Function); ok && f != callee {
						if mc, isMC := in.(*ssa.MakeClosure); isMC && immediatelyInvoked(mc) {
							continue // func() { … }(): the literal is called where it is written and nowhere else
						}
						get(f).valueUse = true
					}
					if mc, ok := (*op).(*ssa.MakeClosure); ok {
						_ = mc
					}
				}
				if mc, ok := in.(*ssa.MakeClosure); ok {
					if f, ok := mc.Fn.(*ssa.Function); ok && strings.HasSuffix(f.Name(), "$bound") {
						// bound method value: the method is used as a value
						for _, cs := range f.Blocks {
							for _, i2 := range cs.Instrs {
								if c, ok := i2.(ssa.CallInstruction); ok {
									if sc := c.Common().StaticCallee(); sc != nil {
										get(sc).valueUse = true
									}
								}
							}
						}
					}
				}
			}
		}
	}
	return p.callers
}

// transparent reports whether fn is an extracted helper that is analysed as inlined at its call site.
func (p *Program) transparent(fn *ssa.Function) bool {
	if fn == nil {
		return false
	}
	if o := fn.Origin(); o != nil {
		fn = o
	}
	if v, ok := p.transp[fn]; ok {
		return v
	}
	res := false
	defer func() { p.transp[fn] = res }()
	if p.AllFuncs == nil || fn.Blocks == nil || fn.Synthetic != "" || !p.inRapid(fn) {
		return false
	}
	if fn.Parent() != nil {
		// a function literal is a helper only when it is invoked on the spot (its free variables resolve to the bindings)
		ci := p.callerIndex()[fn]
		if ci == nil || ci.valueUse || len(ci.sites) != 1 {
			return false
		}
		c, isCall := ci.sites[0].(*ssa.Call)
		if !isCall {
			return false
		}
		mc, isMC := c.Common().Value.(*ssa.MakeClosure)
		if !isMC || !immediatelyInvoked(mc) || c.Parent() != fn.Parent() {
			return false
		}
		res = true
		return true
	}
	if o := fn.Origin(); o != nil {
		res = p.transparent(o)
		return res
	}
	name := normName(fn.RelString(p.SPkg.Pkg))
	if knownFuncs[name] || ast.IsExported(fn.Name()) || isPackageInit(fn) {
		return false
	}
	ci := p.callerIndex()[fn]
	if ci == nil || ci.valueUse || len(ci.sites) != 1 {
		return false
	}
	site := ci.sites[0]
	if _, isCall := site.(*ssa.Call); !isCall {
		return false // deferred / go'd functions keep their own frame (they run at another time)
	}
	host := site.Parent()
	if host == fn {
		return false
	}
	// interface methods of known interfaces are never transparent (value, String, drawBits …)
	switch fn.Name() {
	case "value", "String", "drawBits", "beginGroup", "endGroup", "Error":
		return false
	}
	// no recursion through the host chain
	for h, i := host, 0; h != nil && i < 8; i++ {
		if h == fn {
			return false
		}
		if !p.transparent(h) {
			break
		}
		h = p.callerIndex()[h].sites[0].Parent()
	}
	res = true
	return true
}

// helperSite returns the unique call site of a transparent helper.
func (p *Program) helperSite(fn *ssa.Function) ssa.CallInstruction {
	if fn == nil {
		return nil
	}
	if o := fn.Origin(); o != nil {
		fn = o
	}
	if !p.transparent(fn) {
		return nil
	}
	return p.callerIndex()[fn].sites[0]
}

// host returns the nearest enclosing non-transparent function an instruction's function is inlined into.
func (p *Program) host(fn *ssa.Function) *ssa.Function {
	for i := 0; i < 8 && p.transparent(fn); i++ {
		fn = p.helperSite(fn).Parent()
	}
	return fn
}

func (p *Program) hostName(fn *ssa.Function) string { return p.fnName(p.host(fn)) }

// within reports whether code of function a executes as part of function b (a == b, or a is a helper inlined into b).
func (p *Program) within(a, b *ssa.Function) bool {
	for i := 0; i < 8; i++ {
		if a == b {
			return true
		}
		if !p.transparent(a) {
			return false
		}
		a = p.helperSite(a).Parent()
	}
	return false
}

// liftTo maps an instruction to the instruction of function target that executes it
// (itself, or the call of the helper containing it); nil if in does not execute within target.
func (p *Program) liftTo(in ssa.Instruction, target *ssa.Function) ssa.Instruction {
	for i := 0; i < 8; i++ {
		if in.Parent() == target {
			return in
		}
		site := p.helperSite(in.Parent())
		if site == nil {
			return nil
		}
		in = site
	}
	return nil
}

// commonFrame lifts a and b into one function.
func commonFrame(a, b ssa.Instruction) (ssa.Instruction, ssa.Instruction, bool) {
	if a.Parent() == b.Parent() {
		return a, b, true
	}
	p := activeProg
	if p == nil {
		return a, b, false
	}
	if la := p.liftTo(a, b.Parent()); la != nil {
		return la, b, true
	}
	if lb := p.liftTo(b, a.Parent()); lb != nil {
		return a, lb, true
	}
	// both in different helpers of a common host
	h := p.host(a.Parent())
	if h == p.host(b.Parent()) {
		la, lb := p.liftTo(a, h), p.liftTo(b, h)
		if la != nil && lb != nil {
			return la, lb, true
		}
	}
	return a, b, false
}

// transparentCallee returns the helper a call instruction invokes (Call only: deferred helpers run at exit).
func transparentCallee(in ssa.Instruction) *ssa.Function {
	p := activeProg
	if p == nil {
		return nil
	}
	c, ok := in.(*ssa.Call)
	if !ok {
		return nil
	}
	sc := c.Common().StaticCallee()
	if sc == nil || !p.transparent(sc) {
		return nil
	}
	if o := sc.Origin(); o != nil {
		sc = o
	}
	return sc
}

// body returns the blocks executed as part of fn: its own and those of the transparent helpers it calls.
func (p *Program) body(fn *ssa.Function) []*ssa.BasicBlock {
	if fn == nil {
		return nil
	}
	out := append([]*ssa.BasicBlock(nil), fn.Blocks...)
	var add func(f *ssa.Function, d int)
	add = func(f *ssa.Function, d int) {
		for _, b := range f.Blocks {
			for _, in := range b.Instrs {
				if c, ok := in.(*ssa.Call); ok && d < 5 {
					if sc := c.Common().StaticCallee(); sc != nil && p.transparent(sc) {
						if o := sc.Origin(); o != nil {
							sc = o
						}
						out = append(out, sc.Blocks...)
						add(sc, d+1)
					}
				}
			}
		}
	}
	add(fn, 0)
	return out
}

// alt is one way a value can come about: a phi edge, or a return of a transparent helper.
type alt struct {
	Val   ssa.Value
	Facts []rel
	Pos   ssa.Instruction
}

// alternatives unfolds v into the values it can take together with the facts that hold when it takes them.
func (p *Program) alternatives(v ssa.Value, depth int) []alt {
	v = p.resolve(v)
	if depth > 4 {
		return []alt{{Val: v}}
	}
	switch x := v.(type) {
	case *ssa.Phi:
		var out []alt
		for i, e := range x.Edges {
			pred := x.Block().Preds[i]
			last := pred.Instrs[len(pred.Instrs)-1]
			facts := p.facts(last)
			if iff, ok := last.(*ssa.If); ok && pred.Succs[0] != pred.Succs[1] {
				facts = append(facts, p.relOf(guard{Cond: iff.Cond, Pol: pred.Succs[0] == x.Block()}))
			}
			for _, a := range p.alternatives(e, depth+1) {
				if p.resolve(a.Val) == ssa.Value(x) {
					continue
				}
				out = append(out, alt{Val: a.Val, Facts: append(append([]rel{}, facts...), a.Facts...), Pos: last})
			}
		}
		return out
	case *ssa.Extract:
		if c, ok := x.Tuple.(*ssa.Call); ok {
			sc := c.Common().StaticCallee()
			if sc != nil && p.transparent(sc) {
				if o := sc.Origin(); o != nil {
					sc = o
				}
				var out []alt
				for _, ret := range returnsOf(sc) {
					if x.Index >= len(ret.Results) {
						continue
					}
					for _, a := range p.alternatives(p.res(ret, x.Index), depth+1) {
						out = append(out, alt{Val: a.Val, Facts: append(p.facts(ret), a.Facts...), Pos: ret})
					}
				}
				if len(out) > 0 {
					return out
				}
			}
		}
	case *ssa.Call:
		sc := x.Common().StaticCallee()
		if sc != nil && p.transparent(sc) && sc.Signature.Results().Len() == 1 {
			if o := sc.Origin(); o != nil {
				sc = o
			}
			var out []alt
			for _, ret := range returnsOf(sc) {
				for _, a := range p.alternatives(p.res(ret, 0), depth+1) {
					out = append(out, alt{Val: a.Val, Facts: append(p.facts(ret), a.Facts...), Pos: ret})
				}
			}
			if len(out) > 0 {
				return out
			}
		}
	}
	return []alt{{Val: v}}
}

// runCall is one execution of the property on a bit stream: a call of checkOnce, or of a package
// function that wraps exactly one checkOnce(newT(_, <its stream parameter>, …), …) and returns its result.
type runCall struct {
	Call   *ssa.Call
	Stream ssa.Value // resolved stream value (constructor call, parameter, …)
	Prop   string    // rendered property operand
}

func (p *Program) runCallOf(c *ssa.Call) (*runCall, bool) {
	key := p.calleeKey(c.Common())
	if key == "checkOnce" {
		nt, ok := p.resolve(c.Common().Args[0]).(*ssa.Call)
		if !ok {
			return nil, false
		}
		inner, isT := p.tCreator(nt)
		if !isT {
			return nil, false
		}
		return &runCall{Call: c, Stream: p.resolve(inner.Common().Args[1]), Prop: p.expr(c.Common().Args[1])}, true
	}
	sc := c.Common().StaticCallee()
	if sc == nil || !p.inRapid(sc) || sc.Blocks == nil || knownFuncs[p.fnName(sc)] {
		return nil, false
	}
	if o := sc.Origin(); o != nil {
		sc = o
	}
	inner := p.callsTo(sc, "checkOnce")
	rets := returnsOf(sc)
	if len(inner) != 1 || len(rets) != 1 || len(rets[0].Results) != 1 || p.resolve(p.res(rets[0], 0)) != inner[0].Value() {
		return nil, false
	}
	irc, ok := p.runCallOf(inner[0].Instr.(*ssa.Call))
	if !ok {
		return nil, false
	}
	par, ok := irc.Stream.(*ssa.Parameter)
	if !ok || par.Parent() != sc {
		return nil, false
	}
	for k, q := range sc.Params {
		if q == par && k < len(c.Common().Args) {
			return &runCall{Call: c, Stream: p.resolve(c.Common().Args[k]), Prop: irc.Prop}, true
		}
	}
	return nil, false
}

// runCalls lists the executions of the property made by fn, in block order.
func (p *Program) runCalls(fn *ssa.Function) []*runCall {
	var out []*runCall
	for _, cs := range p.calls(fn) {
		if c, ok := cs.Instr.(*ssa.Call); ok {
			if rc, ok := p.runCallOf(c); ok {
				out = append(out, rc)
			}
		}
	}
	return out
}

// tConstructorClosure: f is a function literal that does nothing but build a T — every return yields the one newT(…)
// call of its body — and is only ever called (`replay := func() *T { return newT(…) }`). Each call of it creates a T
// of its own, exactly as a newT call written out at that place would.
func (p *Program) tConstructorClosure(f *ssa.Function) (*ssa.Call, bool) {
	if f == nil || f.Parent() == nil || len(f.Blocks) == 0 {
		return nil, false
	}
	var inner *ssa.Call
	for _, b := range f.Blocks {
		for _, in := range b.Instrs {
			if c, ok := in.(*ssa.Call); ok && p.calleeKey(c.Common()) == "newT" {
				if inner != nil {
					return nil, false
				}
				inner = c
			}
		}
	}
	if inner == nil {
		return nil, false
	}
	n := 0
	for _, b := range f.Blocks {
		if ret, ok := b.Instrs[len(b.Instrs)-1].(*ssa.Return); ok {
			n++
			if len(ret.Results) != 1 || ret.Results[0] != ssa.Value(inner) {
				return nil, false
			}
		}
	}
	if n == 0 {
		return nil, false
	}
	// only called
	for _, b := range f.Parent().Blocks {
		for _, in := range b.Instrs {
			mc, ok := in.(*ssa.MakeClosure)
			if !ok || mc.Fn != ssa.Value(f) || mc.Referrers() == nil {
				continue
			}
			for _, ref := range *mc.Referrers() {
				switch x := ref.(type) {
				case *ssa.Call:
					if x.Common().Value != ssa.Value(mc) {
						return nil, false
					}
				case *ssa.DebugRef:
				default:
					return nil, false
				}
			}
		}
	}
	return inner, true
}

// tCreator: c creates a fresh T: newT(…) itself, or a call of a T-constructor closure. inner is the newT call whose
// arguments describe the T (c itself in the first case).
func (p *Program) tCreator(c *ssa.Call) (inner *ssa.Call, ok bool) {
	if c == nil {
		return nil, false
	}
	if p.calleeKey(c.Common()) == "newT" {
		if _, isCtor := p.tConstructorClosure(c.Parent()); isCtor {
			return nil, false // the closure's calls are the creators
		}
		return c, true
	}
	if mc, isMC := c.Common().Value.(*ssa.MakeClosure); isMC {
		if f, isF := mc.Fn.(*ssa.Function); isF {
			if in, ok := p.tConstructorClosure(f); ok {
				return in, true
			}
		}
	}
	return nil, false
}

// isPackageInit: the package initialiser or one of the source file init functions (not a method that happens to be
// named init).
func isPackageInit(fn *ssa.Function) bool {
	return fn.Signature.Recv() == nil && (fn.Name() == "init" || strings.HasPrefix(fn.Name(), "init#"))
}

// immediatelyInvoked: the closure value is used by exactly one plain call (not deferred, not go'd, not stored).
func immediatelyInvoked(mc *ssa.MakeClosure) bool {
	refs := mc.Referrers()
	if refs == nil {
		return false
	}
	n := 0
	for _, r := range *refs {
		switch x := r.(type) {
		case *ssa.DebugRef:
		case *ssa.Call:
			if x.Common().Value != ssa.Value(mc) {
				return false
			}
			n++
		default:
			return false
		}
	}
	return n == 1
}
