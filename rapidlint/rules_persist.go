package main

import (
	"fmt"
	"go/constant"
	"go/token"
	"go/types"
	"math"
	"regexp"
	"strings"
	"unicode"

	"golang.org/x/tools/go/ssa"
)

func init() {
	register("C06", specC06)
	register("C16", specC16)
	register("C17", specC17)
}

// ---------------------------------------------------------------------------
// C16

func specC16() *propertySpec {
	return &propertySpec{
		ID: "C16",
		Explanation: "Decides crash-atomicity of saveFailFile for every crash point by ordering alone: the final name is used only as the destination of os.Rename (and in messages); " +
			"every write goes to the single os.CreateTemp file created in filepath.Dir(filename) after MkdirAll succeeded; every write's error is checked and its non-nil edge never reaches " +
			"the rename; a Close of the temp file lies on every path to the rename; nothing is written after the rename; the temporary name pattern starts with a character that no discovery " +
			"glob can match, for any test name. Hence partial data exists only under names that are never picked up. Not decided: atomicity of rename(2) itself, durability across power loss.",
		Assumptions: []string{"os.Rename within one directory is atomic with respect to process crashes (rename(2))", "os.CreateTemp replaces the last * of the pattern and keeps the prefix"},
		Rules: []ruleSpec{
			{"C16-R1", "final-name-only-renamed: filename flows only into filepath.Dir, the destination of os.Rename and messages; every write targets the CreateTemp file", ruleC16R1},
			{"C16-R2", "rename-last: no write is reachable from Rename; every path to Rename passes f.Close(); Rename's source is f.Name()", ruleC16R2},
			{"C16-R3", "checked-writes: the error of every write is tested and its non-nil edge does not reach Rename", ruleC16R3},
			{"C16-R4", "same-directory: CreateTemp's directory is filepath.Dir(filename), created by a checked MkdirAll before", ruleC16R4},
			{"C16-R5", "disjoint-names: the temp pattern's first character is outside the alphabet of discovery names (letters, digits, '-', '_') and it does not end in .fail", func(r *Run) { ruleC16R5(r); ruleDiscoveryIsThePattern(r) }},
			{"C16-R6", "temp-removed (advisory): a deferred os.Remove(f.Name()) is registered right after creation", ruleC16R6},
			{"C16-R7", "published-once-complete: Check publishes a fail file under its final name once per failure, with the captured output already in it: a second save under the same name, or a first save without the output, leaves a complete-looking file that differs from an uninterrupted save for every crash point in between", ruleC16R7},
		},
	}
}

type saveView struct {
	fn     *ssa.Function
	file   ssa.Value // CreateTemp #0
	create *callSite
	rename *callSite
	writes []*callSite
}

var writeCallees = map[string]int{ // callee -> index of the target argument (receiver counts as 0)
	"(*os.File).Write": 0, "(*os.File).WriteString": 0, "(*os.File).WriteAt": 0, "(*os.File).ReadFrom": 0,
	"fmt.Fprintf": 0, "fmt.Fprint": 0, "fmt.Fprintln": 0, "io.WriteString": 0, "io.Copy": 0,
	"(*bufio.Writer).Write": 0, "(*bufio.Writer).WriteString": 0, "(*bufio.Writer).Flush": 0,
	"invoke:io.StringWriter.WriteString": 0, "invoke:io.Writer.Write": 0, "invoke:io.ByteWriter.WriteByte": 0,
}

func (r *Run) viewSave() *saveView {
	p := r.P
	fn := r.MustFn("saveFailFile")
	if fn == nil {
		return nil
	}
	v := &saveView{fn: fn}
	cts := p.callsTo(fn, "os.CreateTemp")
	rns := p.callsTo(fn, "os.Rename")
	if len(cts) != 1 || len(rns) != 1 {
		r.Fail("saveFailFile#shape", fn.Pos(), fmt.Sprintf("saveFailFile must create exactly one temporary file and rename exactly once (CreateTemp calls: %d, Rename calls: %d): without write-to-temp-then-rename a crash leaves a partial file under the final name", len(cts), len(rns)))
		return nil
	}
	v.create, v.rename = cts[0], rns[0]
	v.file = extractOr(cts[0].Value(), 0)
	for _, cs := range p.calls(fn) {
		if _, ok := writeCallees[cs.Key]; ok {
			v.writes = append(v.writes, cs)
		}
	}
	return v
}

func ruleC16R1(r *Run) {
	p := r.P
	v := r.viewSave()
	if v == nil {
		return
	}
	fnPar := paramNamed(v.fn, "filename")
	if fnPar == nil {
		r.Undecided("anchor:saveFailFile.filename", v.fn.Pos(), "anchor unresolved: parameter filename")
		return
	}
	// uses of filename
	for _, u := range usesOf(p, fnPar) {
		switch x := u.(type) {
		case ssa.CallInstruction:
			key := p.calleeKey(x.Common())
			switch {
			case key == "path/filepath.Dir":
				r.OK("saveFailFile#filename→Dir", x.Pos(), "final name used to compute the target directory")
			case key == "path/filepath.Base" || key == "path/filepath.Ext" || key == "strings.TrimSuffix" || key == "strings.HasSuffix":
				r.OK("saveFailFile#filename→"+key, x.Pos(), "final name only inspected by a pure string function")
			case key == "os.Rename" && len(x.Common().Args) == 2 && p.resolve(x.Common().Args[1]) == ssa.Value(fnPar) && p.resolve(x.Common().Args[0]) != ssa.Value(fnPar):
				r.OK("saveFailFile#filename→Rename.dst", x.Pos(), "final name used as the rename destination")
			default:
				r.Fail("saveFailFile#filename→"+key, x.Pos(), "the final fail-file name is passed to "+key+": anything that creates or opens the final name exposes partial data to the discovery glob")
			}
		case *ssa.Store:
			// varargs of fmt.Errorf
			ok := false
			if ia, isIA := x.Addr.(*ssa.IndexAddr); isIA {
				if al, isAl := ia.X.(*ssa.Alloc); isAl && al.Comment == "varargs" {
					ok = true
					for _, ref := range *al.Referrers() {
						if sl, isSl := ref.(*ssa.Slice); isSl && sl.Referrers() != nil {
							for _, r2 := range *sl.Referrers() {
								if c, isC := r2.(ssa.CallInstruction); isC && !strings.HasPrefix(p.calleeKey(c.Common()), "fmt.") {
									ok = false
								}
							}
						}
					}
				}
			}
			r.Check("saveFailFile#filename→message", x.Pos(), ok, "final name used in an error message", "the final name is stored somewhere other than the arguments of a fmt message")
		default:
			r.Fail("saveFailFile#filename→other", u.Pos(), fmt.Sprintf("unexpected use of the final name (%T)", u))
		}
	}
	for _, bad := range []string{"os.Create", "os.OpenFile", "os.WriteFile", "os.Open", "io/ioutil.WriteFile", "os.Link", "os.Symlink"} {
		for _, cs := range p.callsTo(v.fn, bad) {
			r.Fail("saveFailFile#"+bad, cs.Instr.Pos(), bad+" in saveFailFile: files must come into existence only through os.CreateTemp + os.Rename")
		}
	}
	// every write targets the temp file
	r.Floor("write calls in saveFailFile", len(v.writes), 2)
	// one sink: the file itself, or one bufio.Writer wrapping it that is flushed (not in a defer) before the file is closed
	sinks := map[string]bool{}
	var buffered ssa.Value
	for _, w := range v.writes {
		if strings.HasSuffix(w.Key, ".Flush") {
			continue
		}
		tgt := w.Recv()
		if tgt == nil && len(w.Common.Args) > 0 {
			tgt = w.Common.Args[0]
		}
		okT := p.same(tgt, v.file)
		if c, isCall := p.resolve(tgt).(*ssa.Call); isCall && !okT && (p.calleeKey(c.Common()) == "bufio.NewWriter" || p.calleeKey(c.Common()) == "bufio.NewWriterSize") && p.same(c.Common().Args[0], v.file) {
			okT = true
			buffered = c
		}
		sinks[p.expr(p.resolve(tgt))] = true
		r.Check("saveFailFile#"+w.Key+".target", w.Instr.Pos(), okT, "write goes to the CreateTemp file", "a write in saveFailFile targets "+p.expr(tgt)+" instead of the CreateTemp file")
	}
	r.Check("saveFailFile#single-sink", v.fn.Pos(), len(sinks) <= 1, "all parts of the file are written through one sink, in program order", fmt.Sprintf("the fail file is written through %d different sinks (buffered and direct): the parts reach the file out of order, e.g. the data lines before the comment lines they follow", len(sinks)))
	if buffered != nil {
		okFlush := false
		for _, cs := range p.callsTo(v.fn, "(*bufio.Writer).Flush") {
			if cs.isDefer() || !p.same(cs.Recv(), buffered) {
				continue
			}
			if iff, _ := p.errorTest(cs.Value(), 0); iff != nil && dominates(cs.Instr, v.rename.Instr) {
				okFlush = true
			}
		}
		r.Check("saveFailFile#flush-before-publish", v.fn.Pos(), okFlush, "the buffered writer is flushed (error checked) before the file is closed and renamed", "the buffered writer of saveFailFile is not flushed with its error checked on the path to os.Rename (a deferred Flush runs after the file was closed and renamed): part of the file never reaches the disk")
	}
}

func ruleC16R2(r *Run) {
	p := r.P
	v := r.viewSave()
	if v == nil {
		return
	}
	for _, w := range v.writes {
		r.Check("saveFailFile#"+w.Key+".before-rename", w.Instr.Pos(), !reachable(v.rename.Instr, w.Instr, nil) && reachable(w.Instr, v.rename.Instr, nil),
			"write happens before the rename and never after it", "a write to the fail file is reachable after os.Rename (or can never be followed by it): the file is published before its content is complete")
	}
	isClose := func(in ssa.Instruction) bool {
		c, ok := in.(*ssa.Call)
		return ok && p.calleeKey(c.Common()) == "(*os.File).Close" && p.same(c.Common().Args[0], v.file)
	}
	byp := false
	walkFromEntry(v.fn, func(in ssa.Instruction) bool {
		if in == v.rename.Instr.(ssa.Instruction) {
			byp = true
			return false
		}
		return !isClose(in)
	})
	r.Check("saveFailFile#close-before-rename", v.rename.Instr.Pos(), !byp, "f.Close() lies on every path to os.Rename", "os.Rename is reachable without closing the temporary file first")
	src := p.resolve(v.rename.Arg(0))
	okSrc := false
	if c, ok := src.(*ssa.Call); ok && p.calleeKey(c.Common()) == "(*os.File).Name" && p.same(c.Common().Args[0], v.file) {
		okSrc = true
	}
	r.Check("saveFailFile#rename.src", v.rename.Instr.Pos(), okSrc, "the rename source is f.Name()", "os.Rename's source is "+p.expr(src)+" instead of the temporary file's name")
	// the rename's own error is returned
	e := v.rename.Value()
	okErr := false
	if e.Referrers() != nil {
		for _, ref := range *e.Referrers() {
			if bo, ok := ref.(*ssa.BinOp); ok && bo.Op == token.NEQ {
				okErr = true
			}
		}
	}
	r.Check("saveFailFile#rename.err", v.rename.Instr.Pos(), okErr, "the rename error is checked", "the error of os.Rename is ignored")
	// nothing file-system related after rename except the deferred cleanup
	after := 0
	walkFrom(v.rename.Instr, func(in ssa.Instruction) bool {
		if c, ok := in.(*ssa.Call); ok {
			k := p.calleeKey(c.Common())
			if strings.HasPrefix(k, "os.") || strings.HasPrefix(k, "(*os.File).") {
				after++
			}
		}
		return true
	})
	r.Check("saveFailFile#nothing-after-rename", v.rename.Instr.Pos(), after == 0, "no file operation follows the rename", fmt.Sprintf("%d file operations follow os.Rename", after))
}

func ruleC16R3(r *Run) {
	p := r.P
	v := r.viewSave()
	if v == nil {
		return
	}
	for _, w := range v.writes {
		// error value: last result
		var errVal ssa.Value
		sig := w.Common.Signature()
		nres := sig.Results().Len()
		if nres == 1 {
			errVal = w.Value()
		} else if nres > 1 {
			es := extractsOf(w.Value(), nres-1)
			if len(es) > 0 {
				errVal = es[0]
			}
		}
		if errVal == nil || errVal.Referrers() == nil {
			r.Fail("saveFailFile#"+w.Key+".checked", w.Instr.Pos(), "the error result of a write to the fail file is discarded: a short write would be published by the rename")
			continue
		}
		iff, pol := p.errorTest(errVal, 0)
		if iff == nil {
			r.Fail("saveFailFile#"+w.Key+".checked", w.Instr.Pos(), "the error result of a write to the fail file is never tested")
			continue
		}
		errSucc := iff.Block().Succs[0]
		if !pol {
			errSucc = iff.Block().Succs[1]
		}
		reaches := false
		if len(errSucc.Instrs) > 0 {
			first := errSucc.Instrs[0]
			reaches = first == v.rename.Instr.(ssa.Instruction) || reachable(first, v.rename.Instr, nil)
		}
		bypass := reachable(w.Instr, v.rename.Instr, func(in ssa.Instruction) bool { return in == ssa.Instruction(iff) })
		r.Check("saveFailFile#"+w.Key+".checked", w.Instr.Pos(), !reaches && !bypass, "write error is tested; the error edge returns without renaming", "after a failed write os.Rename is still reachable: an incomplete file would be published under the final name")
	}
}

func ruleC16R4(r *Run) {
	p := r.P
	v := r.viewSave()
	if v == nil {
		return
	}
	dir := p.expr(v.create.Arg(0))
	r.Check("saveFailFile#tempdir", v.create.Instr.Pos(), dir == "path/filepath.Dir($filename)", "the temporary file is created in the directory of the final name (rename stays within one directory)", "the temporary file is created in "+dir+" instead of filepath.Dir(filename): the rename may cross file systems and degrade to copy")
	mk := p.callsTo(v.fn, "os.MkdirAll")
	ok := false
	for _, m := range mk {
		if p.expr(m.Arg(0)) == "path/filepath.Dir($filename)" && dominates(m.Instr, v.create.Instr) && holds(p.facts(v.create.Instr), p.expr(m.Value()), "==", "nil") {
			ok = true
		}
	}
	r.Check("saveFailFile#mkdir", v.create.Instr.Pos(), ok, "MkdirAll of the target directory succeeded before CreateTemp", "CreateTemp is not dominated by a successful MkdirAll of the target directory")
	// CreateTemp's error is checked before the first write
	e := extractOr(v.create.Value(), 1)
	for _, w := range v.writes {
		r.Check("saveFailFile#create.err", w.Instr.Pos(), holds(p.facts(w.Instr), p.expr(e), "==", "nil"), "writes happen only after CreateTemp succeeded", "a write is reachable although CreateTemp failed")
		break
	}
}

func (p *Program) constStringNamed(name string) (string, token.Pos, bool) {
	obj := p.Types.Scope().Lookup(name)
	c, ok := obj.(*types.Const)
	if !ok || c.Val().Kind() != constant.String {
		return "", token.NoPos, false
	}
	return constant.StringVal(c.Val()), c.Pos(), true
}

func safeAlphabetRune(r rune) bool {
	return unicode.IsLetter(r) || unicode.IsDigit(r) || r == '-' || r == '_'
}

func ruleC16R5(r *Run) {
	p := r.P
	v := r.viewSave()
	if v == nil {
		return
	}
	pat, ok := constString(p.resolve(v.create.Arg(1)))
	if !ok {
		// a computed pattern: its leading literal decides (the glob match of a discovery name starts at the first character)
		lead, okLead := p.leadingLiteral(v.create.Arg(1), 0)
		if !okLead || lead == "" {
			r.Fail("saveFailFile#temp-pattern", v.create.Instr.Pos(), "the CreateTemp pattern "+p.expr(v.create.Arg(1))+" is computed and its first character cannot be established: a temporary name may match the discovery glob <sanitised test name>-*.fail")
			return
		}
		pat = lead
	}
	first := []rune(pat)
	okFirst := len(first) > 0 && !safeAlphabetRune(first[0]) && first[0] != '*'
	r.Check("saveFailFile#temp-pattern.first", v.create.Instr.Pos(), okFirst, fmt.Sprintf("temp pattern %q starts with %q, which no discovery name (sanitised test name followed by '-') can start with", pat, string(first[:1])),
		fmt.Sprintf("temp pattern %q starts with a character of the discovery alphabet (letters, digits, '-', '_') or a wildcard: for a suitably named test a half-written temp file matches the fail-file glob", pat))
	r.Check("saveFailFile#temp-pattern.suffix", v.create.Instr.Pos(), !strings.HasSuffix(pat, ".fail"), "temp names do not end in .fail", fmt.Sprintf("temp pattern %q ends in .fail", pat))
	// the discovery pattern really starts with the sanitised name and ends in .fail
	if fp := r.MustFn("failFilePattern"); fp != nil {
		rets := returnsOf(fp)
		if len(rets) != 1 {
			r.Undecided("failFilePattern#format", fp.Pos(), "expected failFilePattern to have one return")
		} else {
			flat := ""
			for _, q := range p.strShape(p.res(rets[0], 0)) {
				switch {
				case q.Kind == "lit":
					flat += q.Lit
				case strings.HasPrefix(q.Expr, "kindaSafeFilename("):
					flat += "\x01"
				default:
					flat += "\x02"
				}
			}
			file := flat[strings.LastIndex(flat, "/")+1:]
			r.Check("failFilePattern#format", rets[0].Pos(), strings.HasPrefix(file, "\x01-") && strings.HasSuffix(file, ".fail"),
				fmt.Sprintf("the file part of the discovery pattern is %q = <sanitised name>-….fail: it cannot match a temporary name", strings.ReplaceAll(file, "\x01", "<safe(testName)>")),
				fmt.Sprintf("the file part of the discovery pattern is %q (expected <sanitised name>-….fail): Go's Glob lets * match a leading dot, so the half-written temporary file of an interrupted save is picked up as a fail file", strings.NewReplacer("\x01", "<safe(testName)>", "\x02", "<value>").Replace(file)))
		}
	}
	ruleC06R2(r)
}

func ruleC16R6(r *Run) {
	p := r.P
	v := r.viewSave()
	if v == nil {
		return
	}
	ok := false
	for _, cs := range p.calls(v.fn) {
		if d, isD := cs.Instr.(*ssa.Defer); isD {
			if mc, isMC := d.Common().Value.(*ssa.MakeClosure); isMC {
				for _, rm := range p.callsTo(mc.Fn.(*ssa.Function), "os.Remove") {
					if c, isC := p.resolve(rm.Arg(0)).(*ssa.Call); isC && p.calleeKey(c.Common()) == "(*os.File).Name" {
						ok = true
					}
				}
			}
		}
	}
	// advisory: never a violation of atomicity
	if ok {
		r.OK("saveFailFile#temp-removed", v.fn.Pos(), "a deferred os.Remove(f.Name()) cleans up the temporary file")
	} else {
		r.OK("saveFailFile#temp-removed", v.fn.Pos(), "advisory: no deferred os.Remove of the temporary file (cleanliness only; not needed for atomicity)")
	}
}

// ---------------------------------------------------------------------------
// C06

func specC06() *propertySpec {
	return &propertySpec{
		ID: "C06",
		Explanation: "Decides, for every test name, bitstream and captured output: the fail-file name and the discovery glob are built from the same sanitiser expression and directory, " +
			"and the sanitiser emits only letters, digits, '-' and '_' (so the glob matches literally); writer and reader agree on comment prefix, header separator, number bases and line " +
			"separator, and the reader imposes no line-length limit although the writer emits lines of unbounded length; the saved buffer and seed are the reported ones (result #5/#3 of doCheck), " +
			"saved exactly when no fail file was given and -rapid.nofailfile is off; in doCheck the glob and the replay loop (explicit file first) precede the random phase on every path, " +
			"and a reproducing file returns with valid = 0 and its own name. Not decided: that the second run draws the same values (C04), file-system behaviour of Glob.",
		Rules: []ruleSpec{
			{"C06-R1", "name-pattern-agreement: failFileName and failFilePattern use kindaSafeFilename(testName) with the same directory; pattern = name format with timestamp/pid replaced by *", ruleC06R1},
			{"C06-R2", "safe-alphabet: kindaSafeFilename writes only '_' or runes that are letters, digits, '-' or '_'", ruleC06R2},
			{"C06-R3", "format-agreement: '#' comments, 'version#seed' header (base 10), '0x%x' words parsed with base 0, '\\n' separators; rapidVersion has no '#' or newline", ruleC06R3},
			{"C06-R4", "unbounded-lines: the reader accepts lines of any length (Scanner with Buffer(_, >= MaxInt32) before the first Scan, or a reader without token limit)", ruleC06R4},
			{"C06-R5", "order: Glob(failFilePattern(tb.Name())) and the checkFailFile loop precede findBug on every path; explicit file first; a reproducing file returns valid=0 and its name", ruleC06R5},
			{"C06-R7", "private-io-state: the fail-file functions share no mutable package-level buffer or table (concurrently running checks load and save at the same time; shared with C15-R4)", func(r *Run) {
				ruleSharedContents(r, map[string]bool{"loadFailFile": true, "saveFailFile": true, "checkFailFile": true, "failFileName": true, "failFilePattern": true, "kindaSafeFilename": true, "doCheck": true, "checkTB": true, "captureTestOutput": true}, 1)
			}},
			{"C06-R8", "written-whole-and-in-order: every part of the fail file is written through one sink to the temporary file, a buffered sink is flushed before the file is closed and renamed; write errors stop the save (shared with C16-R1/R2/R3)", func(r *Run) { ruleC16R1(r); ruleC16R2(r); ruleC16R3(r) }},
			{"C06-R9", "replay-reads-what-was-saved: the next run feeds the saved words to the property one per draw, masked like the recording run (shared with C04-R3)", func(r *Run) { ruleC04R3(r); ruleC04R3buf(r) }},
			{"C06-R10", "same-generator-in-the-next-run: the replay of the fail file draws from freshly constructed generators, the saved buffer was minimised against generators every earlier test case and shrink attempt of the failing run had drawn from: same drawn values only if no draw stores through or hands out generator-owned storage (shared with C15-R3)", ruleC15R3},
			{"C06-R11", "the-saved-case-replays-as-it-was-judged: what is written to the fail file is the pruned recording; the next run draws the same values and fails the same way only if pruning is replay-neutral (shared with C04-R4.4/R4.5/R4.6/R4.7/R4.8/R5, C03-R2)", rulePruneBundle},
			{"C06-R12", "the-next-run-builds-the-same-generators: the replay in the next run draws from generators constructed anew in that process; their tables are the same only if construction is deterministic (no map iteration, no nondeterminism source in the constructors) (shared with C07-R8)", ruleConstructionCensus},
			{"C06-R13", "the-save-can-succeed-wherever-testdata-lives: the temporary file is created in the directory of the final name, so the publishing rename never crosses a file system (shared with C16-R4) — staged in os.TempDir it fails with EXDEV on every machine whose temp directory is another file system, the error is only logged, and no fail file exists for the next run", ruleC16R4},
			{"C06-R14", "closed-set-of-ignore-reasons: checkFailFile drops a fail file only because it did not load, has another version, or its first run no longer fails", ruleIgnoreReasons},
			{"C06-R6", "saved-is-reported: captureTestOutput/saveFailFile/final replay use doCheck's buffer (#5) and seed (#3); saved iff failfile == \"\" && !nofailfile; target failFileName(tb.Name())", func(r *Run) { ruleC01R1(r); ruleC06R6(r) }},
		},
	}
}

func ruleC06R1(r *Run) {
	p := r.P
	nameFn, patFn := r.MustFn("failFileName"), r.MustFn("failFilePattern")
	if nameFn == nil || patFn == nil {
		return
	}
	// Both results are unfolded into string shapes (literals, sanitised test name, other values) and compared:
	// the glob must be the name with one run of non-separator parts replaced by a single '*'.
	render := func(fn *ssa.Function, idx int) (string, token.Pos, bool) {
		rets := returnsOf(fn)
		if len(rets) != 1 || len(fn.Params) != 1 {
			return "", fn.Pos(), false
		}
		san := "kindaSafeFilename($" + fn.Params[0].Name() + ")"
		raw := "$" + fn.Params[0].Name()
		var b strings.Builder
		for _, q := range p.strShape(p.res(rets[0], idx)) {
			switch {
			case q.Kind == "lit":
				b.WriteString(q.Lit)
			case q.Expr == san:
				b.WriteString("\x01")
			case strings.Contains(q.Expr, raw):
				b.WriteString("\x04" + q.Expr + "\x03") // derived from the raw test name
			case q.Kind == "int":
				b.WriteString("\x02int\x03")
			default:
				b.WriteString("\x02" + q.Expr + "\x03")
			}
		}
		return b.String(), rets[0].Pos(), true
	}
	show := func(s string) string {
		return strings.NewReplacer("\x01", "<safe(testName)>", "\x02", "<", "\x03", ">", "\x04", "<RAW:").Replace(s)
	}
	n, npos, ok1 := render(nameFn, 1)
	q, _, ok2 := render(patFn, 0)
	if !ok1 || !ok2 {
		r.Undecided("failFileName/failFilePattern#shape", nameFn.Pos(), "expected failFileName and failFilePattern to have one parameter and one return")
		return
	}
	split := func(s string) (string, string) {
		// the last separator outside an opaque part
		depth, cut := 0, -1
		for i := 0; i < len(s); i++ {
			switch s[i] {
			case 2, 4:
				depth++
			case 3:
				depth--
			case '/':
				if depth == 0 {
					cut = i
				}
			}
		}
		if cut < 0 {
			return "", s
		}
		return s[:cut], s[cut+1:]
	}
	ndir, nfile := split(n)
	qdir, qfile := split(q)
	r.Check("failFile#sanitiser", npos, !strings.Contains(n, "\x04") && !strings.Contains(q, "\x04") && strings.Contains(nfile, "\x01") == strings.Contains(qfile, "\x01"),
		"the test name reaches the file name and the glob only through kindaSafeFilename: "+show(n)+" / "+show(q),
		"the test name reaches the file name or the discovery glob without (or with a different) sanitiser: name "+show(n)+", glob "+show(q)+": for some test names the saved file is never found")
	r.Check("failFile#directory", npos, ndir != "" && ndir == qdir && !strings.ContainsAny(ndir, "\x02*?[\\") && strings.Contains(ndir, "\x01"),
		"both use the directory "+show(ndir), "directory of the file ("+show(ndir)+") and of the glob ("+show(qdir)+") differ, or contain glob metacharacters or parts that vary between runs")
	r.Check("failFile#joined", npos, ndir != "" && qdir != "" && nfile != "" && qfile != "", "both are directory/file", "file name or pattern is not directory/file")
	okFmt := false
	nfile, qfile = opaqueRe.ReplaceAllString(nfile, "\x02\x03"), opaqueRe.ReplaceAllString(qfile, "\x02\x03")
	if strings.Count(qfile, "*") == 1 && !strings.ContainsAny(qfile, "?[\\\x02") {
		i := strings.Index(qfile, "*")
		pre, suf := qfile[:i], qfile[i+1:]
		if strings.HasPrefix(nfile, pre) && strings.HasSuffix(nfile, suf) && len(nfile) >= len(pre)+len(suf) {
			mid := nfile[len(pre) : len(nfile)-len(suf)]
			// the part matched by '*' must not contain a separator: literals without one, integers, values not derived from the name
			okFmt = !strings.ContainsAny(mid, "/\\") && pre != ""
		}
	}
	r.Check("failFile#formats", npos, okFmt, "file part "+show(nfile)+" is matched by glob "+show(qfile), "file part "+show(nfile)+" is not matched by glob "+show(qfile))
	// doCheck globs with tb.Name(), checkTB saves with tb.Name()
	if dc := r.MustFn("doCheck"); dc != nil {
		for _, cs := range p.callsTo(dc, "failFilePattern") {
			r.Check("doCheck#glob-name", cs.Instr.Pos(), p.expr(cs.Arg(0)) == "invoke:tb.Name($tb)", "the glob is built from tb.Name()", "the glob is built from "+p.expr(cs.Arg(0)))
		}
	}
	if ct := r.MustFn("checkTB"); ct != nil {
		for _, cs := range p.callsTo(ct, "failFileName") {
			r.Check("checkTB#save-name", cs.Instr.Pos(), p.expr(cs.Arg(0)) == "invoke:tb.Name($tb)", "the saved name is built from tb.Name()", "the saved name is built from "+p.expr(cs.Arg(0)))
		}
	}
}

var opaqueRe = regexp.MustCompile("[\x02\x04][^\x03]*\x03")

func ruleC06R2(r *Run) {
	p := r.P
	fn := r.MustFn("kindaSafeFilename")
	if fn == nil {
		return
	}
	n := 0
	builders := map[string]bool{} // the builder(s) written to
	for _, cs := range p.callsTo(fn, "(*strings.Builder).WriteRune", "(*strings.Builder).WriteByte", "(*strings.Builder).WriteString", "(*strings.Builder).Write") {
		n++
		builders[p.expr(cs.Recv())] = true
		arg := p.resolve(cs.Arg(0))
		if c, ok := arg.(*ssa.Const); ok {
			if v, ok := constInt(c); ok && safeAlphabetRune(rune(v)) {
				r.OK("kindaSafeFilename#write-const", cs.Instr.Pos(), fmt.Sprintf("writes the constant %q", rune(v)))
				continue
			}
			r.Fail("kindaSafeFilename#write-const", cs.Instr.Pos(), "writes a constant outside the safe alphabet: "+p.expr(c))
			continue
		}
		// the written value may be chosen by a phi (r = '_' on the unsafe branch): every alternative must be safe
		okAll := true
		nAlt := 0
		for _, a := range p.alternatives(arg, 0) {
			nAlt++
			av := p.resolve(a.Val)
			if c, ok := av.(*ssa.Const); ok {
				if v, ok := constInt(c); !ok || !safeAlphabetRune(rune(v)) {
					okAll = false
				}
				continue
			}
			ex := p.expr(av)
			var lits []string
			for _, f := range a.Facts {
				lits = append(lits, f.String())
			}
			sets := p.pathConds(fn, cs.Instr.Block(), func(rl rel) bool { return strings.Contains(rl.X, ex) })
			if len(sets) == 0 {
				sets = [][]string{{}}
			}
			for _, set := range sets {
				if !p.safeRuneLits(append(append([]string{}, lits...), set...), ex, 0) {
					okAll = false
				}
			}
		}
		if nAlt == 0 {
			okAll = false
		}
		n += nAlt - 1 // every alternative value of the written rune is one write
		r.Check("kindaSafeFilename#write-rune", cs.Instr.Pos(), okAll, "the rune is written only if it is a letter, a digit, '-' or '_'", "kindaSafeFilename writes a rune that is not known to be a letter, digit, '-' or '_': glob metacharacters, path separators or dots can reach file names and patterns")
	}
	// alternative form: strings.Map(mapper, f) with a mapper that returns only safe runes
	mapped := map[string]bool{}
	for _, cs := range p.callsTo(fn, "strings.Map") {
		mf, _ := p.resolve(cs.Arg(0)).(*ssa.Function)
		if mf == nil || !p.inRapid(mf) || len(mf.Params) != 1 || p.expr(cs.Arg(1)) != "$f" {
			r.Fail("kindaSafeFilename#mapper", cs.Instr.Pos(), "strings.Map is not applied to the name with a mapping function of the package: "+p.expr(cs.Arg(0)))
			continue
		}
		mapped[p.expr(cs.Value())] = true
		par := "$" + p.paramName(mf.Params[0])
		for _, ret := range returnsOf(mf) {
			for _, a := range p.alternatives(p.res(ret, 0), 0) {
				n++
				av := p.resolve(a.Val)
				if c, ok := av.(*ssa.Const); ok {
					v, okv := constInt(c)
					r.Check("kindaSafeFilename#write-const", ret.Pos(), okv && safeAlphabetRune(rune(v)), fmt.Sprintf("maps to the constant %q", rune(v)), "the mapping function returns a constant outside the safe alphabet: "+p.expr(c))
					continue
				}
				var lits []string
				for _, f := range a.Facts {
					lits = append(lits, f.String())
				}
				sets := p.pathConds(mf, ret.Block(), nil)
				if len(sets) == 0 {
					sets = [][]string{{}}
				}
				okAll := p.expr(av) == par
				for _, set := range sets {
					if !p.safeRuneLits(append(append([]string{}, lits...), set...), par, 0) {
						okAll = false
					}
				}
				r.Check("kindaSafeFilename#write-rune", ret.Pos(), okAll, "a rune is kept only if it is a letter, a digit, '-' or '_'", "the mapping function of kindaSafeFilename keeps a rune that is not known to be a letter, digit, '-' or '_': glob metacharacters, path separators or dots can reach file names and patterns")
			}
		}
	}
	r.Floor("writes in kindaSafeFilename", n, 2)
	// result: the builder's string, possibly + "_"
	for _, ret := range returnsOf(fn) {
		ex := p.expr(p.res(ret, 0))
		ok := true
		nA := 0
		// every value the result can take (name, or name + "_" for reserved names)
		for _, a := range p.alternatives(p.res(ret, 0), 0) {
			nA++
			ax := p.expr(a.Val)
			// name + suffix with the suffix "" or "_" on every path
			if bo, isBo := p.resolve(a.Val).(*ssa.BinOp); isBo && bo.Op == token.ADD {
				okSuffix := true
				for _, sa := range p.alternatives(bo.Y, 0) {
					if c, isC := constString(p.resolve(sa.Val)); !isC || (c != "" && c != "_") {
						okSuffix = false
					}
				}
				if okSuffix {
					ax = p.expr(bo.X)
				}
			}
			okA := false
			for m := range mapped {
				if ax == m || ax == "("+m+" + \"_\")" {
					okA = len(mapped) == 1 && len(builders) == 0
				}
			}
			for b := range builders {
				if ax == "(*strings.Builder).String("+b+")" || ax == "((*strings.Builder).String("+b+") + \"_\")" {
					okA = len(builders) == 1
				}
			}
			if !okA {
				ok = false
			}
		}
		ok = ok && nA > 0
		r.Check("kindaSafeFilename#result", ret.Pos(), ok, "returns the sanitised string (optionally with '_' appended)", "kindaSafeFilename returns "+ex)
	}
}

func ruleC06R3(r *Run) {
	p := r.P
	save, load := r.MustFn("saveFailFile"), r.MustFn("loadFailFile")
	if save == nil || load == nil {
		return
	}
	// comment prefix: the leading literal of what is written per output line (inside the loop over the output lines)
	prefix := ""
	for _, cs := range p.calls(save) {
		if _, isW := writeCallees[cs.Key]; !isW {
			continue
		}
		if innermostLoop(cs.Instr) == nil {
			continue
		}
		var data ssa.Value
		switch {
		case strings.HasPrefix(cs.Key, "fmt.Fprint"):
			data = cs.Common.Args[1]
		default:
			data = cs.Arg(0)
		}
		lead, ok := p.leadingLiteral(data, 0)
		if !ok {
			continue
		}
		prefix = lead
		full := p.expr(data)
		nlOK := strings.HasSuffix(full, `+ "\n")`) || strings.HasSuffix(lead, "\n") || strings.Contains(full, `\n"`)
		r.Check("saveFailFile#comment-line", cs.Instr.Pos(), strings.HasPrefix(prefix, "#") && nlOK, fmt.Sprintf("comment lines are written with prefix %q and end in a newline", prefix), fmt.Sprintf("comment lines are written with prefix %q (terminator present: %v)", prefix, nlOK))
	}
	okSkip := false
	for _, cs := range p.callsTo(load, "strings.HasPrefix") {
		pre, _ := constString(p.resolve(cs.Arg(1)))
		if pre != "" && strings.HasPrefix(prefix, pre) && strings.HasPrefix(p.expr(cs.Arg(0)), "strings.TrimSpace(") {
			okSkip = true
		}
	}
	// … or by its first byte: s[0] != '#' on a non-empty trimmed line
	for _, b := range p.body(load) {
		for _, in := range b.Instrs {
			bo, ok := in.(*ssa.BinOp)
			if !ok || (bo.Op != token.NEQ && bo.Op != token.EQL) || prefix == "" {
				continue
			}
			for _, xy := range [][2]ssa.Value{{bo.X, bo.Y}, {bo.Y, bo.X}} {
				var sx, si ssa.Value
				switch e := p.resolve(xy[0]).(type) {
				case *ssa.Lookup:
					sx, si = e.X, e.Index
				case *ssa.Index:
					sx, si = e.X, e.Index
				}
				c, isC := constInt(p.resolve(xy[1]))
				if sx == nil || !isC || c != int64(prefix[0]) {
					continue
				}
				if i0, isI := constInt(p.resolve(si)); isI && i0 == 0 && strings.HasPrefix(p.expr(sx), "strings.TrimSpace(") {
					okSkip = true
				}
			}
		}
	}
	r.Check("loadFailFile#skip-comments", load.Pos(), okSkip && prefix != "", "the reader skips lines starting with the writer's comment marker", "the reader does not skip lines starting with the writer's comment prefix "+fmt.Sprintf("%q", prefix))
	// output is split on "\n" so that no comment line contains a newline
	okSplit := false
	for _, cs := range p.callsTo(save, "strings.Split") {
		sep, _ := constString(p.resolve(cs.Arg(1)))
		if sep == "\n" && p.expr(cs.Arg(0)) == "conv<string>($output)" {
			okSplit = true
		}
	}
	// … or peeled off line by line: strings.Cut(rest, "\n") in a loop, rest starting as string(output) and
	// continuing with the remainder of the same cut
	for _, cs := range p.callsTo(save, "strings.Cut") {
		call, isCall := cs.Instr.(*ssa.Call)
		sep, _ := constString(p.resolve(cs.Arg(1)))
		phi, isPhi := p.resolve(cs.Arg(0)).(*ssa.Phi)
		if !isCall || sep != "\n" || !isPhi || innermostLoop(cs.Instr) == nil {
			continue
		}
		fromOutput, fromRest, other := false, false, false
		for _, e := range phi.Edges {
			e = p.resolve(e)
			if ex, ok := e.(*ssa.Extract); ok && ex.Tuple == ssa.Value(call) && ex.Index == 1 {
				fromRest = true
			} else if p.expr(e) == "conv<string>($output)" {
				fromOutput = true
			} else {
				other = true
			}
		}
		if fromOutput && fromRest && !other {
			okSplit = true
		}
	}
	r.Check("saveFailFile#split-output", save.Pos(), okSplit, "captured output is split on newlines: every output line becomes its own comment line", "captured output is not split on \\n before being written as comments: an output line can be read back as data")
	// header and words: the strings stored into []string cells of the writer (composite literal, append, indexed store),
	// unfolded into shapes
	hdrSep, joinSep := "", ""
	seedBase, wordBase, wordPrefix := 0, 0, ""
	nHdr, nWord := 0, 0
	for _, b := range p.body(save) {
		for _, in := range b.Instrs {
			st, ok := in.(*ssa.Store)
			if !ok || !isStringTyped(st.Val) {
				continue
			}
			if _, ok := st.Addr.(*ssa.IndexAddr); !ok {
				continue
			}
			sh := p.strShape(st.Val)
			hasVersion, hasWord := false, false
			for _, q := range sh {
				if q.Expr == "$version" {
					hasVersion = true
				}
				if q.Kind == "int" && (strings.HasPrefix(q.Expr, "$buf[") || strings.HasPrefix(q.Expr, "conv<uint64>($buf[")) {
					hasWord = true
				}
			}
			switch {
			case hasVersion:
				nHdr++
				ok := len(sh) == 3 && sh[0].Expr == "$version" && sh[0].Kind != "lit" && sh[1].Kind == "lit" && sh[2].Kind == "int" && sh[2].Expr == "$seed"
				if ok {
					hdrSep, seedBase = sh[1].Lit, sh[2].Base
				}
				r.Check("saveFailFile#header", st.Pos(), ok, "header is version<sep>seed", "header is "+shapeString(sh)+", expected version<sep>seed")
			case hasWord:
				nWord++
				ok := (len(sh) == 1 && sh[0].Kind == "int") || (len(sh) == 2 && sh[0].Kind == "lit" && sh[1].Kind == "int")
				if ok {
					wordBase = sh[len(sh)-1].Base
					if len(sh) == 2 {
						wordPrefix = sh[0].Lit
					}
				}
				r.Check("saveFailFile#word", st.Pos(), ok, "each word of the buffer is written as "+shapeString(sh), "a data line is "+shapeString(sh)+", expected [prefix]<word>")
			}
		}
	}
	builderForm := false
	if nHdr == 0 && nWord == 0 {
		// builder form: the data section is accumulated in a local strings.Builder / bytes.Buffer — the writes
		// before the loop over the buffer are the header, the writes inside it one data line (led by its separator)
		if hdr, word, pos, ok := p.builderSections(save); ok {
			builderForm = true
			hasVersion := false
			for _, q := range hdr {
				if q.Expr == "$version" {
					hasVersion = true
				}
			}
			if hasVersion {
				nHdr = 1
				okH := len(hdr) == 3 && hdr[0].Expr == "$version" && hdr[0].Kind != "lit" && hdr[1].Kind == "lit" && hdr[2].Kind == "int" && hdr[2].Expr == "$seed"
				if okH {
					hdrSep, seedBase = hdr[1].Lit, hdr[2].Base
				}
				r.Check("saveFailFile#header", pos, okH, "header is version<sep>seed", "header is "+shapeString(hdr)+", expected version<sep>seed")
			}
			if len(word) > 0 && word[0].Kind == "lit" && strings.HasPrefix(word[0].Lit, "\n") {
				joinSep = "\n"
				word = append([]strPart{{Kind: "lit", Lit: word[0].Lit[1:]}}, word[1:]...)
				if word[0].Lit == "" {
					word = word[1:]
				}
			}
			hasWord := false
			for _, q := range word {
				if q.Kind == "int" && (strings.HasPrefix(q.Expr, "$buf[") || strings.HasPrefix(q.Expr, "conv<uint64>($buf[")) {
					hasWord = true
				}
			}
			if hasWord {
				nWord = 1
				okW := (len(word) == 1 && word[0].Kind == "int") || (len(word) == 2 && word[0].Kind == "lit" && word[1].Kind == "int")
				if okW {
					wordBase = word[len(word)-1].Base
					if len(word) == 2 {
						wordPrefix = word[0].Lit
					}
				}
				r.Check("saveFailFile#word", pos, okW, "each word of the buffer is written as "+shapeString(word), "a data line is "+shapeString(word)+", expected [prefix]<word>")
			}
		}
	}
	if nHdr != 1 || nWord != 1 {
		r.Undecided("saveFailFile#data-lines", save.Pos(), fmt.Sprintf("expected one header string and one word string stored into the line slice, found %d and %d", nHdr, nWord))
	}
	for _, cs := range p.callsTo(save, "strings.Join") {
		if !builderForm {
			joinSep, _ = constString(p.resolve(cs.Arg(1)))
		}
	}
	okHdr := false
	for _, cs := range p.callsTo(load, "strings.Split", "strings.SplitN", "strings.Cut") {
		sep, _ := constString(p.resolve(cs.Arg(1)))
		if sep == hdrSep && sep != "" {
			okHdr = true
		}
	}
	r.Check("format#header-separator", load.Pos(), okHdr && hdrSep != "" && !strings.ContainsAny(hdrSep, "\n\r") && strings.TrimSpace(hdrSep) == hdrSep, fmt.Sprintf("header written and split with %q", hdrSep), fmt.Sprintf("header separator written %q is not the one the reader splits on", hdrSep))
	// bases
	for _, cs := range p.callsTo(load, "strconv.ParseUint") {
		base, _ := constInt(p.resolve(cs.Arg(1)))
		bits, _ := constInt(p.resolve(cs.Arg(2)))
		src := p.expr(cs.Arg(0))
		if strings.Contains(src, "strings.Split(") || strings.Contains(src, "strings.SplitN(") || strings.Contains(src, "strings.Cut(") {
			ok := bits == 64 && ((seedBase == 10 && (base == 10 || base == 0)) || (seedBase == 16 && base == 16))
			r.Check("format#seed-base", cs.Instr.Pos(), ok, fmt.Sprintf("seed written in base %d and parsed with base %d", seedBase, base), fmt.Sprintf("seed is written in base %d but parsed with base %d / %d bits", seedBase, base, bits))
		} else {
			ok := bits == 64 && ((wordPrefix == "0x" && wordBase == 16 && base == 0) || (wordPrefix == "" && wordBase == 10 && (base == 10 || base == 0)) || (wordPrefix == "" && wordBase == 16 && base == 16))
			r.Check("format#word-base", cs.Instr.Pos(), ok, fmt.Sprintf("words written with prefix %q in base %d and parsed with base %d", wordPrefix, wordBase, base), fmt.Sprintf("words are written with prefix %q in base %d but parsed with base %d (%d bits): the persisted bitstream is not read back as written", wordPrefix, wordBase, base, bits))
		}
	}
	r.Check("format#line-separator", save.Pos(), joinSep == "\n", "data lines are joined with \\n (the reader scans lines)", fmt.Sprintf("data lines are joined with %q", joinSep))
	if v, pos, ok := p.constStringNamed("rapidVersion"); ok {
		r.Check("rapidVersion", pos, !strings.ContainsAny(v, "#\n\r ") && v != "" && (hdrSep == "" || !strings.Contains(v, hdrSep)), fmt.Sprintf("version %q contains no separator characters", v), fmt.Sprintf("rapidVersion %q contains '#', whitespace or a newline: the header cannot be split back", v))
	} else {
		r.Undecided("anchor:rapidVersion", token.NoPos, "anchor unresolved: constant rapidVersion")
	}
	// reader returns the fields in order: version = split[0], seed = parsed split[1], buf
	for _, ret := range returnsOf(load) {
		if !isNilConst(p.resolve(p.res(ret, 3))) {
			continue
		}
		r.Check("loadFailFile#result", ret.Pos(), (strings.HasSuffix(p.expr(p.res(ret, 0)), "[0]") || (strings.HasPrefix(p.expr(p.res(ret, 0)), "strings.Cut(") && strings.HasSuffix(p.expr(p.res(ret, 0)), "#0"))) && strings.Contains(p.expr(p.res(ret, 1)), "strconv.ParseUint(") && isAppendPhi(p, p.res(ret, 2), "strconv.ParseUint("),
			"returns (split[0], parsed seed, words)", "loadFailFile's success return is ("+p.expr(p.res(ret, 0))+", "+p.expr(p.res(ret, 1))+", "+p.expr(p.res(ret, 2))+")")
	}
}

func ruleC06R4(r *Run) {
	p := r.P
	load := r.MustFn("loadFailFile")
	if load == nil {
		return
	}
	scs := p.callsTo(load, "bufio.NewScanner")
	if len(scs) == 0 {
		// a reader without token limit
		ok := len(p.callsTo(load, "os.ReadFile"))+len(p.callsTo(load, "io.ReadAll"))+len(p.callsTo(load, "(*bufio.Reader).ReadString"))+len(p.callsTo(load, "(*bufio.Reader).ReadBytes")) > 0
		r.Check("loadFailFile#reader", load.Pos(), ok, "the file is read with a reader that has no line-length limit", "cannot identify how loadFailFile reads lines")
		for _, cs := range p.callsTo(load, "(*bufio.Reader).ReadLine") {
			r.Fail("loadFailFile#ReadLine", cs.Instr.Pos(), "bufio.Reader.ReadLine returns partial lines for long input")
		}
		return
	}
	for _, sc := range scs {
		var firstScan ssa.Instruction
		for _, s := range p.callsTo(load, "(*bufio.Scanner).Scan") {
			if p.resolve(s.Recv()) == sc.Value() && (firstScan == nil || dominates(s.Instr, firstScan)) {
				firstScan = s.Instr
			}
		}
		ok := false
		detail := "no Buffer call: the default token limit is 64 KiB"
		for _, b := range p.callsTo(load, "(*bufio.Scanner).Buffer") {
			if p.resolve(b.Recv()) != sc.Value() {
				continue
			}
			max, isC := constInt(p.resolve(b.Arg(1)))
			if !isC {
				detail = "Buffer limit is not a constant"
				continue
			}
			if max >= math.MaxInt32 && firstScan != nil && dominates(b.Instr, firstScan) {
				ok = true
			} else {
				detail = fmt.Sprintf("Buffer limit %d (< MaxInt32) or not before the first Scan", max)
			}
		}
		r.Check("loadFailFile#scanner-limit", sc.Instr.Pos(), ok, "the Scanner's token limit is raised to >= MaxInt32 before the first Scan: lines of any practical length load",
			"saveFailFile writes every captured output line as one line of unbounded length, but loadFailFile scans with a bounded token size ("+detail+"): such a file fails with 'token too long' and the persisted failure is ignored")
	}
}

func ruleC06R5(r *Run) {
	p := r.P
	dc := r.MustFn("doCheck")
	if dc == nil {
		return
	}
	fbs := p.callsTo(dc, "findBug")
	cfs := p.callsTo(dc, "checkFailFile")
	globs := p.callsTo(dc, "path/filepath.Glob")
	// one replay site inside a loop over the list, or two: the explicit file replayed by a call of its own that
	// precedes the loop over the glob matches
	var cfX *callSite
	if len(cfs) == 2 {
		for i, c := range cfs {
			if innermostLoop(c.Instr) == nil && innermostLoop(cfs[1-i].Instr) != nil {
				cfX = c
				cfs = []*callSite{cfs[1-i]}
				break
			}
		}
	}
	if len(fbs) != 1 || len(cfs) != 1 || len(globs) != 1 {
		r.Fail("doCheck#shape", dc.Pos(), fmt.Sprintf("doCheck must glob once, replay fail files in one loop (the explicit one possibly by a call of its own before it) and call findBug once (Glob=%d checkFailFile=%d findBug=%d)", len(globs), len(cfs), len(fbs)))
		return
	}
	fb, cf, gl := fbs[0], cfs[0], globs[0]
	r.Check("doCheck#glob-arg", gl.Instr.Pos(), strings.HasPrefix(p.expr(gl.Arg(0)), "failFilePattern("), "Glob is applied to failFilePattern(...)", "Glob is applied to "+p.expr(gl.Arg(0)))
	loop := innermostLoop(cf.Instr)
	if loop == nil {
		r.Fail("doCheck#replay-loop", cf.Instr.Pos(), "checkFailFile is not called in a loop over the fail files")
		return
	}
	lfb := p.liftTo(fb.Instr, loop.Header.Parent()) // findBug may be called from a helper of doCheck
	r.Check("doCheck#replay-before-random", fb.Instr.Pos(), lfb != nil && loop.Header.Dominates(lfb.Block()) && !loop.Body[lfb.Block()] && !reachable(fb.Instr, cf.Instr, nil),
		"the replay loop is passed on every path to findBug and never entered after it", "findBug can run before (or without passing) the fail-file replay loop")
	// glob is on the path when globFailFiles
	okGlob := holds(p.facts(gl.Instr), "$globFailFiles", "==", "true") && !reachable(fb.Instr, gl.Instr, nil) && reachable(gl.Instr, cf.Instr, nil)
	r.Check("doCheck#glob-before-loop", gl.Instr.Pos(), okGlob, "the glob runs (when enabled) before the replay loop", "the glob does not precede the replay loop")
	// the list: explicit file first, then matches
	rng := p.resolve(cf.Arg(1))
	okOrder := false
	var listDesc string
	// the ranged slice: phi of {slicelit(failfile)/nil, append(that, matches...)}
	for _, in := range loop.Header.Instrs {
		_ = in
	}
	// find the append of matches
	for _, ap := range p.callsTo(dc, "builtin:append") {
		// the appended matches: the glob result (or, glob disabled, nothing)
		isMatches := false
		okAlts := true
		for _, a := range p.alternatives(ap.Common.Args[1], 0) {
			switch {
			case p.same(a.Val, extractOr(gl.Value(), 0)):
				isMatches = true
			case p.isEmptySlice(a.Val):
			default:
				okAlts = false
			}
		}
		if isMatches && okAlts {
			base := p.resolve(ap.Common.Args[0])
			listDesc = p.expr(base)
			// the list the matches are appended to: on some path exactly [failfile] ({failfile} literal or append(nil, failfile))
			for _, a := range p.alternatives(base, 0) {
				var vs []ssa.Value
				switch x := p.resolve(a.Val).(type) {
				case *ssa.Slice:
					vs = p.variadicArgs(x)
				case *ssa.Call:
					if p.calleeKey(x.Common()) == "builtin:append" && p.isEmptySlice(x.Common().Args[0]) {
						vs = p.variadicArgs(x.Common().Args[1])
					}
				}
				if len(vs) == 1 && vs[0] != nil && p.resolve(vs[0]) == ssa.Value(paramNamed(dc, "failfile")) {
					// … and exactly when one was given
					facts := append(append([]rel{}, a.Facts...), p.facts(ap.Instr)...)
					if x, ok := p.resolve(a.Val).(ssa.Instruction); ok {
						facts = append(facts, p.facts(x)...)
					}
					okOrder = holds(facts, "$failfile", "!=", `""`)
					if !okOrder {
						listDesc += " (not under failfile != \"\")"
					}
				}
			}
		}
	}
	// the same list built by index: L := make([]string, e+len(matches)) with e = 1 iff failfile != "", L[0] = failfile
	// under that condition, copy(L[e:], matches)
	if !okOrder {
		for _, cp := range p.callsTo(dc, "builtin:copy") {
			okSrc, isM := true, false
			for _, a := range p.alternatives(cp.Common.Args[1], 0) {
				switch {
				case p.same(a.Val, extractOr(gl.Value(), 0)):
					isM = true
				case p.isEmptySlice(a.Val):
				default:
					okSrc = false
				}
			}
			dst, isSl := p.resolve(cp.Common.Args[0]).(*ssa.Slice)
			if !okSrc || !isM || !isSl || dst.Low == nil || dst.High != nil {
				continue
			}
			mk, isMk := p.resolve(dst.X).(*ssa.MakeSlice)
			e, isPhi := p.resolve(dst.Low).(*ssa.Phi)
			if !isMk || !isPhi {
				continue
			}
			// e is 1 exactly under failfile != ""
			okE := len(e.Edges) == 2
			for i, ed := range e.Edges {
				c, isC := constInt(p.resolve(ed))
				pred := e.Block().Preds[i]
				facts := p.facts(pred.Instrs[len(pred.Instrs)-1])
				if iff, isIf := pred.Instrs[len(pred.Instrs)-1].(*ssa.If); isIf && pred.Succs[0] != pred.Succs[1] {
					facts = append(append([]rel{}, facts...), p.relOf(guard{Cond: iff.Cond, Pol: pred.Succs[0] == e.Block()}))
				}
				switch {
				case isC && c == 1 && holds(facts, "$failfile", "!=", `""`):
				case isC && c == 0 && holds(facts, "$failfile", "==", `""`):
				default:
					okE = false
				}
			}
			// len(L) = e + len(matches)
			okLen := false
			if sum, isSum := p.resolve(mk.Len).(*ssa.BinOp); isSum && sum.Op == token.ADD {
				for _, xy := range [][2]ssa.Value{{sum.X, sum.Y}, {sum.Y, sum.X}} {
					if p.resolve(xy[0]) == ssa.Value(e) {
						if ln, isLen := p.resolve(xy[1]).(*ssa.Call); isLen && p.calleeKey(ln.Common()) == "builtin:len" && p.resolve(ln.Common().Args[0]) == p.resolve(cp.Common.Args[1]) {
							okLen = true
						}
					}
				}
			}
			// L[0] = failfile where e > 0
			okFirst := false
			for _, b := range p.body(dc) {
				for _, in := range b.Instrs {
					st, isSt := in.(*ssa.Store)
					if !isSt {
						continue
					}
					ia, isIA := st.Addr.(*ssa.IndexAddr)
					if !isIA || p.resolve(ia.X) != ssa.Value(mk) {
						continue
					}
					idx, isC := constInt(p.resolve(ia.Index))
					f := p.facts(st)
					if isC && idx == 0 && p.resolve(st.Val) == ssa.Value(paramNamed(dc, "failfile")) && (holds(f, p.expr(e), ">", "0") || holds(f, "$failfile", "!=", `""`)) && !reachable(cf.Instr, st, nil) {
						okFirst = true
					} else {
						okE = false // any other store into the list
					}
				}
			}
			if okE && okLen && okFirst && p.resolve(rngBase(p, cf.Arg(1))) == ssa.Value(mk) && dominates(cp.Instr, cf.Instr) {
				okOrder = true
				listDesc = "indexed construction"
			} else {
				listDesc = fmt.Sprintf("indexed construction: count-is-1-iff-explicit=%v length=%v first=%v", okE, okLen, okFirst)
			}
		}
	}
	_ = rng
	if cfX != nil {
		// two-site form: the explicit file is replayed, under failfile != "", before the loop, which ranges over the
		// glob result (or nothing)
		okX := p.resolve(cfX.Arg(1)) == ssa.Value(paramNamed(dc, "failfile")) && holds(p.facts(cfX.Instr), "$failfile", "!=", `""`) &&
			reachable(cfX.Instr, cf.Instr, nil) && !reachable(cf.Instr, cfX.Instr, nil) && !reachable(fb.Instr, cfX.Instr, nil)
		okRange := true
		isM := false
		for _, a := range p.alternatives(rngBase(p, cf.Arg(1)), 0) {
			switch {
			case p.same(a.Val, extractOr(gl.Value(), 0)):
				isM = true
			case p.isEmptySlice(a.Val):
			default:
				okRange = false
			}
		}
		// without an explicit file nothing else is replayed before the loop: the call is the only statement skipped
		okOrder = okX && okRange && isM
		listDesc = fmt.Sprintf("explicit call before the loop: explicit-site=%v loop-over-matches=%v", okX, okRange && isM)
	}
	r.Check("doCheck#explicit-first", cf.Instr.Pos(), okOrder, "the explicit -rapid.failfile comes first, glob matches are appended after it", "the explicit fail file is not placed before the glob matches ("+listDesc+")")
	// reproducing file returns valid=0 and its name
	n := 0
	for _, ret := range returnsOf(dc) {
		// a return forwarded from an inlined helper is located by the helper's call site
		var at ssa.Instruction = ret
		if l := p.liftTo(ret, dc); l != nil {
			at = l
		}
		site := cf
		if !loop.Body[at.Block()] && !dominatesBlock(cf.Instr.Block(), at.Block()) {
			if cfX == nil || !dominatesBlock(cfX.Instr.Block(), at.Block()) {
				continue
			}
			site = cfX
		}
		if at == fb.Instr || reachable(fb.Instr, at, nil) {
			continue
		}
		n++
		cf := site
		v0, ok0 := constInt(p.resolve(p.res(ret, 0)))
		name := p.resolve(p.res(ret, 4))
		okName := p.same(name, cf.Arg(1))
		r.Check("doCheck#failfile-return", ret.Pos(), ok0 && v0 == 0 && okName && p.same(p.res(ret, 5), extractOr(cf.Value(), 0)), "a reproducing fail file returns valid=0, its own name and its buffer", "the fail-file return carries valid="+p.expr(p.res(ret, 0))+", name "+p.expr(name)+", buffer "+p.expr(p.res(ret, 5)))
		// no seed is attached to a failure replayed from a file (checkTB would print it as a way to reproduce)
		s0, okS := constInt(p.resolve(p.res(ret, 3)))
		r.Check("doCheck#failfile-return.seed", ret.Pos(), okS && s0 == 0, "a failure replayed from a fail file carries no seed", "the fail-file return carries seed "+p.expr(p.res(ret, 3))+": checkTB would print it as -rapid.seed although it did not produce this failure")
		// taken exactly when the file reproduced a failure: on every path to it one of checkFailFile's errors is non-nil
		e1, e2 := p.expr(extractOr(cf.Value(), 1)), p.expr(extractOr(cf.Value(), 2))
		sets := p.pathConds(dc, ret.Block(), func(rl rel) bool { return rl.X == e1 || rl.X == e2 })
		okCond := len(sets) > 0
		for _, set := range sets {
			found := false
			for _, lit := range set {
				if lit == e1+" != nil" || lit == e2+" != nil" {
					found = true
				}
			}
			if !found {
				okCond = false
			}
		}
		r.Check("doCheck#failfile-return.cond", ret.Pos(), okCond, "the fail-file phase returns only when the file reproduced a failure (one of its errors is non-nil)", "doCheck can return from the fail-file phase although neither error of checkFailFile is non-nil: an ignored or passing fail file ends the check without any random test case (verdict changed by an unusable file)")
	}
	// … and a file that reproduced a failure does return: the loop continues only when both errors are nil
	for _, in := range loop.Header.Instrs {
		_ = in
	}
	{
		e1, e2 := p.expr(extractOr(cf.Value(), 1)), p.expr(extractOr(cf.Value(), 2))
		okCont := true
		for b := range loop.Body {
			for _, su := range b.Succs {
				if su != loop.Header || !cf.Instr.Block().Dominates(b) {
					continue
				}
				facts := p.facts(b.Instrs[len(b.Instrs)-1])
				if iff, ok := b.Instrs[len(b.Instrs)-1].(*ssa.If); ok && b.Succs[0] != b.Succs[1] {
					facts = append(facts, p.relOf(guard{Cond: iff.Cond, Pol: b.Succs[0] == su}))
				}
				if !(holds(facts, e1, "==", "nil") && holds(facts, e2, "==", "nil")) {
					okCont = false
				}
			}
		}
		r.Check("doCheck#failfile-continue", cf.Instr.Pos(), okCont, "the replay loop moves on to the next file only when both errors are nil", "the replay loop can continue (and reach the random phase) although a fail file reproduced a failure")
	}
	if cfX != nil {
		// the explicit site: control leaves the region it dominates (towards the loop) only with both errors nil
		e1, e2 := p.expr(extractOr(cfX.Value(), 1)), p.expr(extractOr(cfX.Value(), 2))
		okCont := true
		xb := cfX.Instr.Block()
		for _, b := range p.body(dc) {
			if b.Parent() != dc || !xb.Dominates(b) {
				continue
			}
			for _, su := range b.Succs {
				if xb.Dominates(su) && su != xb {
					continue
				}
				facts := p.facts(b.Instrs[len(b.Instrs)-1])
				if iff, ok := b.Instrs[len(b.Instrs)-1].(*ssa.If); ok && b.Succs[0] != b.Succs[1] {
					facts = append(append([]rel{}, facts...), p.relOf(guard{Cond: iff.Cond, Pol: b.Succs[0] == su}))
				}
				if !(holds(facts, e1, "==", "nil") && holds(facts, e2, "==", "nil")) {
					okCont = false
				}
			}
		}
		r.Check("doCheck#failfile-continue.explicit", cfX.Instr.Pos(), okCont, "after the explicit fail file the check moves on only when both errors are nil", "doCheck can move on to the discovered fail files and the random phase although the explicit fail file reproduced a failure")
	}
	r.Floor("fail-file returns in doCheck", n, 1)
}

func dominatesBlock(a, b *ssa.BasicBlock) bool { return a.Dominates(b) }

func ruleC06R6(r *Run) {
	p := r.P
	ct := r.MustFn("checkTB")
	if ct == nil {
		return
	}
	// Check asks doCheck to look for fail files on its own (globFailFiles = true) and hands on -rapid.failfile
	for _, cs := range p.callsTo(ct, "doCheck") {
		g, okG := constBool(p.resolve(cs.Arg(5)))
		r.Check("checkTB#doCheck.glob", cs.Instr.Pos(), okG && g, "Check lets doCheck discover saved fail files (globFailFiles = true)", "checkTB calls doCheck with globFailFiles = "+p.expr(cs.Arg(5))+": saved fail files are never found without a flag")
		r.Check("checkTB#doCheck.failfile", cs.Instr.Pos(), p.expr(cs.Arg(4)) == "G:flags.failfile", "the explicit fail file is -rapid.failfile", "checkTB passes "+p.expr(cs.Arg(4))+" as explicit fail file")
	}
	dcs := p.callsTo(ct, "doCheck")
	saves := p.callsTo(ct, "saveFailFile")
	if len(dcs) != 1 || len(saves) != 1 {
		r.Fail("checkTB#save", ct.Pos(), "expected one doCheck and one saveFailFile call in checkTB")
		return
	}
	dc, sv := dcs[0], saves[0]
	ffKey := p.expr(extractOr(dc.Value(), 4))
	facts := p.facts(sv.Instr)
	r.Check("checkTB#save-guard", sv.Instr.Pos(), holds(facts, ffKey, "==", `""`) && holds(facts, "G:flags.nofailfile", "==", "false"),
		"saved exactly when the failure did not come from a fail file and -rapid.nofailfile is off", "saveFailFile is not guarded by failfile == \"\" && !flags.nofailfile: "+factsStr(facts))
	// not guarded by anything else that could suppress it on a failure path
	extra := 0
	for _, f := range facts {
		if strings.Contains(f.X, "doCheck(") && f.X != ffKey {
			extra++
		}
	}
	r.Check("checkTB#save-guard.only", sv.Instr.Pos(), extra == 0, "no other condition on doCheck's results suppresses the save", "the save is additionally guarded by conditions on doCheck's results")
	// the result the guard tests: doCheck names a fail file (#4) only when the failure was reproduced from that file;
	// every return after the random search carries "" there, whatever -rapid.failfile said
	if dfn := r.MustFn("doCheck"); dfn != nil {
		fbs := p.callsTo(dfn, "findBug")
		nAfter := 0
		for _, ret := range returnsOf(dfn) {
			if len(fbs) != 1 || p.nres(ret) < 5 || !dominates(fbs[0].Instr, ret) {
				continue
			}
			nAfter++
			okEmpty := true
			for _, a := range p.alternatives(p.res(ret, 4), 0) {
				if c, isC := constString(p.resolve(a.Val)); !isC || c != "" {
					okEmpty = false
				}
			}
			r.Check("doCheck#return-after-random.file-empty", ret.Pos(), okEmpty, "a failure found by the random search is reported with an empty fail-file name, so that it is saved", "doCheck returns "+p.expr(p.res(ret, 4))+" as the fail-file name of a failure found by the random search: checkTB saves only when that name is empty, so the new failure is never persisted and the stale file is advertised")
		}
		r.Floor("returns of doCheck after the random search", nAfter, 3)
	}
	tgt := p.resolve(sv.Arg(0))
	okT := false
	if e, ok := tgt.(*ssa.Extract); ok && e.Index == 1 {
		if c, ok := e.Tuple.(*ssa.Call); ok && p.calleeKey(c.Common()) == "failFileName" {
			okT = true
		}
	}
	r.Check("checkTB#save-target", sv.Instr.Pos(), okT, "the target is the file name of failFileName(tb.Name())", "the save target is "+p.expr(tgt))
	ver := p.resolve(sv.Arg(1))
	v, _, _ := p.constStringNamed("rapidVersion")
	cv, _ := constString(ver)
	r.Check("checkTB#save-version", sv.Instr.Pos(), cv == v && v != "", "saved with the version the reader compares against", "saved with version "+p.expr(ver))
}

// ---------------------------------------------------------------------------
// C17

func specC17() *propertySpec {
	return &propertySpec{
		ID: "C17",
		Explanation: "Decides that unusable fail files are turned into an error value or an ignore path, never a panic, and never change the verdict: in loadFailFile every call returning an error " +
			"is tested and its non-nil edge returns a non-nil error, every constant index/slice is dominated by a length fact that implies it is in range, no panic or assertion is reachable; " +
			"in checkFailFile every return of three nils is preceded on every path by tb.Logf/Log; checkFailFile, loadFailFile and newT call only Helper/Logf/Log/Name on the TB; " +
			"doCheck passes seed, checks, deadline and prop unmodified to findBug; panics while replaying garbage are converted and an exhausted buffer is invalid data. " +
			"Not decided: OS-level read errors beyond what os.Open / the scanner report.",
		Rules: []ruleSpec{
			{"C17-R1", "loader-total: errors tested and propagated, indices length-guarded, no panic/assert in loadFailFile", ruleC17R1},
			{"C17-R2", "ignore-paths: every (nil,nil,nil) return of checkFailFile is preceded by a log call; only Helper/Logf/Log/Name are called on the TB by the fail-file phase", ruleC17R2},
			{"C17-R3", "random-phase-untouched: doCheck hands seed, checks, deadline, prop unmodified to findBug", ruleC17R3},
			{"C17-R4", "glob-cannot-fail: the glob pattern contains no metacharacter besides its own * (safe alphabet)", ruleC06R2},
			{"C17-R5", "no-crash: panics during replay are converted (recover census); an exhausted buffer raises invalidData", func(r *Run) { ruleC02R4(r); ruleC03R4(r) }},
			{"C17-R6", "only-a-reproduced-failure-ends-the-fail-file-phase: doCheck returns from the replay loop only when one of checkFailFile's errors is non-nil, and moves on only when both are nil (shared with C06-R5)", ruleC06R5},
			{"C17-R7", "truncation-stays-invalid: a fail file cut off at a group boundary makes the group's first draw panic with invalidData; no endGroup runs on that panic path (deferred), where its assertion would replace the panic and make Check fail with an internal error instead of ignoring the file (shared with C13-R9)", ruleNoDeferredEndGroup},
			{"C17-R8", "a-cut-inside-a-rejected-attempt-stays-invalid: a fail file that ends where a Custom / Filter attempt begins makes that attempt overrun before its first draw; the attempt is rejected and its empty group closed as discarded — endGroup's 'used data' assertion exempts discarded groups in both recording modes (shared with C13-R6), otherwise the truncated file is reported as a reproduced failure", ruleEndGroupAssertExempt},
		},
	}
}

func isErrorType(t types.Type) bool {
	n, ok := t.(*types.Named)
	return ok && n.Obj().Name() == "error" && n.Obj().Pkg() == nil
}

func ruleC17R1(r *Run) {
	p := r.P
	fn := r.MustFn("loadFailFile")
	if fn == nil {
		return
	}
	nres := fn.Signature.Results().Len()
	errIdx := nres - 1
	n := 0
	for _, cs := range p.calls(fn) {
		if cs.isDefer() {
			continue
		}
		sig := cs.Common.Signature()
		if sig.Results().Len() == 0 || !isErrorType(sig.Results().At(sig.Results().Len()-1).Type()) {
			continue
		}
		if strings.HasPrefix(cs.Key, "fmt.Errorf") {
			continue
		}
		n++
		var ev ssa.Value
		if sig.Results().Len() == 1 {
			ev = cs.Value()
		} else if es := extractsOf(cs.Value(), sig.Results().Len()-1); len(es) > 0 {
			ev = es[0]
		}
		construct := "loadFailFile#" + cs.Key
		if ev == nil || ev.Referrers() == nil {
			r.Fail(construct, cs.Instr.Pos(), "the error result of "+cs.Key+" is discarded: a malformed file is treated as valid data")
			continue
		}
		// handed on as loadFailFile's own error result (`return fail(…)` of a local error constructor): propagated
		forwarded := false
		for _, ref := range *ev.Referrers() {
			if ret, isRet := ref.(*ssa.Return); isRet && ret.Parent() == fn && errIdx < len(ret.Results) && ret.Results[errIdx] == ev {
				forwarded = true
			}
			// (a function with defers spills its results into cells before running them)
			if st, isSt := ref.(*ssa.Store); isSt && st.Val == ev && p.resultCellIndex(st.Addr, fn) == errIdx {
				forwarded = true
			}
		}
		if forwarded && len(*ev.Referrers()) == 1 {
			r.OK(construct, cs.Instr.Pos(), "the error result is returned as loadFailFile's error")
			continue
		}
		iff, pol := p.errorTest(ev, 0) // also through the return of a helper to the test at its call site
		if iff == nil {
			r.Fail(construct, cs.Instr.Pos(), "the error result of "+cs.Key+" is never tested")
			continue
		}
		errSucc := iff.Block().Succs[0]
		if !pol {
			errSucc = iff.Block().Succs[1]
		}
		// every return reachable from the error edge carries a non-nil error
		okAll := true
		seen := map[*ssa.BasicBlock]bool{}
		var walk func(b *ssa.BasicBlock)
		walk = func(b *ssa.BasicBlock) {
			if seen[b] {
				return
			}
			seen[b] = true
			if ret, ok := b.Instrs[len(b.Instrs)-1].(*ssa.Return); ok {
				ei := len(ret.Results) - 1
				if ei < 0 || !isErrorType(ret.Parent().Signature.Results().At(ei).Type()) || isNilConst(p.resolve(p.res(ret, ei))) {
					okAll = false
				}
			}
			for _, s := range b.Succs {
				walk(s)
			}
		}
		walk(errSucc)
		// and the success path is not reachable without the test
		var okRet *ssa.Return
		for _, ret := range returnsOf(fn) {
			if isNilConst(p.resolve(p.res(ret, errIdx))) {
				okRet = ret
			}
		}
		bypass := okRet != nil && reachable(cs.Instr, okRet, func(in ssa.Instruction) bool { return in == ssa.Instruction(iff) })
		r.Check(construct, cs.Instr.Pos(), okAll && !bypass, "error tested; its non-nil edge returns a non-nil error", "after "+cs.Key+" failed, loadFailFile can still return a nil error")
	}
	r.Floor("error-returning calls in loadFailFile", n, 4)
	// constant index / slice expressions
	ni := 0
	for _, b := range p.body(fn) {
		for _, in := range b.Instrs {
			{
				// range-generated indices are in range by construction; the result of strings.Index & co. is -1 when
				// nothing was found: used as an index or as the upper bound of a slice it needs a guard
				var bound ssa.Value
				switch x := in.(type) {
				case *ssa.Slice:
					bound = x.High
				case *ssa.IndexAddr:
					bound = x.Index
				case *ssa.Index:
					bound = x.Index
				case *ssa.Lookup:
					bound = x.Index
				}
				if bound != nil {
					if c, isCall := p.resolve(bound).(*ssa.Call); isCall {
						k := p.calleeKey(c.Common())
						if strings.HasPrefix(k, "strings.Index") || strings.HasPrefix(k, "strings.LastIndex") || strings.HasPrefix(k, "bytes.Index") || strings.HasPrefix(k, "bytes.LastIndex") {
							ex := p.expr(c)
							facts := p.facts(in)
							okG := holds(facts, ex, ">=", "0") || holds(facts, ex, ">", "-1") || holds(facts, ex, "!=", "-1") || holds(facts, ex, ">", "0")
							r.Check("loadFailFile#search-result."+k, in.Pos(), okG, "the position found by "+k+" is used only where it is known to be >= 0", "the result of "+k+" is used as an index / upper slice bound in loadFailFile without a check that something was found (-1): a file without the separator panics instead of being ignored")
						}
					}
				}
			}
			var base ssa.Value
			var k int64
			var isC, isStr bool
			switch x := in.(type) {
			case *ssa.IndexAddr:
				base = x.X
				k, isC = constInt(p.resolve(x.Index))
				if al, ok := x.X.(*ssa.Alloc); ok && (al.Comment == "varargs" || al.Comment == "slicelit") {
					continue
				}
			case *ssa.Slice:
				base = x.X
				if _, ok := x.X.(*ssa.Alloc); ok {
					continue
				}
				if x.Low == nil {
					continue
				}
				k, isC = constInt(p.resolve(x.Low))
				k-- // data[1:] needs len >= 1, i.e. index 0 valid
			case *ssa.Lookup: // s[k] on a string
				if _, isMap := x.X.Type().Underlying().(*types.Map); isMap {
					continue
				}
				base = x.X
				k, isC = constInt(p.resolve(x.Index))
				isStr = true
			case *ssa.Index: // s[k] on a string (arrays have a static length)
				if bt, isB := x.X.Type().Underlying().(*types.Basic); !isB || bt.Info()&types.IsString == 0 {
					continue
				}
				base = x.X
				k, isC = constInt(p.resolve(x.Index))
				isStr = true
			default:
				continue
			}
			if !isC {
				// range-generated indices are in range by construction
				continue
			}
			ni++
			ln := "builtin:len(" + p.expr(base) + ")"
			facts := p.facts(in)
			ok := false
			if isStr && k == 0 {
				// a string known to differ from "" has a first byte
				ok = holds(facts, p.expr(base), "!=", `""`)
			}
			for _, f := range facts {
				if f.X != ln {
					continue
				}
				c, err := parseInt(f.Y)
				if err != nil {
					continue
				}
				switch f.Op {
				case "==":
					ok = ok || c > k
				case "!=":
					ok = ok || (c == 0 && k <= 0)
				case ">":
					ok = ok || c >= k
				case ">=":
					ok = ok || c > k
				}
			}
			r.Check("loadFailFile#index."+p.expr(base), in.Pos(), ok, fmt.Sprintf("index %d of %s is guarded by a length fact", max64(k, 0), p.expr(base)), fmt.Sprintf("%s is indexed/sliced at %d without a dominating length check (%s): a truncated or garbage file panics instead of being ignored", p.expr(base), max64(k, 0), factsStr(facts)))
		}
	}
	r.Floor("constant index expressions in loadFailFile", ni, 2)
	// no panic / assert
	bad := 0
	for f := range p.closureOf([]*ssa.Function{fn}) {
		for _, b := range p.body(f) {
			for _, in := range b.Instrs {
				if _, ok := in.(*ssa.Panic); ok {
					bad++
					r.Fail("loadFailFile#panic", in.Pos(), "panic reachable from loadFailFile ("+p.fnName(f)+")")
				}
				if ta, ok := in.(*ssa.TypeAssert); ok && !ta.CommaOk {
					bad++
					r.Fail("loadFailFile#typeassert", in.Pos(), "unchecked type assertion reachable from loadFailFile")
				}
			}
		}
	}
	if bad == 0 {
		r.OK("loadFailFile#no-panic", fn.Pos(), "no panic, assertion or unchecked type assertion is reachable from loadFailFile")
	}
}

func parseInt(s string) (int64, error) {
	var v int64
	_, err := fmt.Sscanf(s, "%d", &v)
	if err == nil && fmt.Sprint(v) != s {
		return 0, fmt.Errorf("not an int")
	}
	return v, err
}

func max64(a, b int64) int64 {
	if a > b {
		return a
	}
	return b
}

func ruleC17R2(r *Run) {
	p := r.P
	fn := r.MustFn("checkFailFile")
	if fn == nil {
		return
	}
	isLog := func(in ssa.Instruction) bool {
		c, ok := in.(ssa.CallInstruction)
		if !ok {
			return false
		}
		k := p.calleeKey(c.Common())
		return k == "invoke:tb.Logf" || k == "invoke:tb.Log"
	}
	n := 0
	for _, ret := range returnsOf(fn) {
		if !(isNilConst(p.resolve(p.res(ret, 0))) && isNilConst(p.resolve(p.res(ret, 1))) && isNilConst(p.resolve(p.res(ret, 2)))) {
			continue
		}
		n++
		silent := false
		walkFromEntry(fn, func(in ssa.Instruction) bool {
			if in == ssa.Instruction(ret) {
				silent = true
				return false
			}
			return !isLog(in)
		})
		r.Check("checkFailFile#ignore-return", ret.Pos(), !silent, "this ignore path logs before returning nothing", "checkFailFile ignores a fail file on this path without a log line")
	}
	r.Floor("ignore returns of checkFailFile", n, 2)
	// the reproducing return: err1 non-nil and not invalid data
	cos := p.callsTo(fn, "checkOnce")
	if len(cos) >= 1 {
		var first *callSite
		for _, c := range cos {
			if first == nil || dominates(c.Instr, first.Instr) {
				first = c
			}
		}
		e1 := first.Value()
		for _, ret := range returnsOf(fn) {
			if isNilConst(p.resolve(p.res(ret, 1))) {
				continue
			}
			facts := p.facts(ret)
			r.Check("checkFailFile#reproducing-return", ret.Pos(), p.same(p.res(ret, 1), e1) && holds(facts, p.expr(e1), "!=", "nil") && holdsCallFalse(p, ret.Block(), "(*testError).isInvalidData", e1),
				"a fail file is reported only if its first run failed and was not invalid data", "checkFailFile reports a fail file whose first run may have passed or been invalid: "+factsStr(facts))
		}
		// version check precedes the run
		okVer := false
		for _, g := range guardsOf(first.Instr.Block()) {
			rl := p.relOf(g)
			if strings.Contains(rl.X, "loadFailFile(") && rl.Op == "==" && rl.Y == `"`+versionConst(p)+`"` {
				okVer = true
			}
		}
		r.Check("checkFailFile#version", first.Instr.Pos(), okVer, "files of another rapid version are not replayed", "checkFailFile replays a file without having compared its version to rapidVersion")
		lf := p.callsTo(fn, "loadFailFile")
		if len(lf) == 1 {
			r.Check("checkFailFile#load-error", first.Instr.Pos(), holds(p.facts(first.Instr), p.expr(extractOr(lf[0].Value(), 3)), "==", "nil"), "a file that failed to load is not replayed", "checkFailFile replays although loadFailFile returned an error")
		}
	}
	// TB method census for the fail-file phase
	allowed := map[string]bool{"Helper": true, "Logf": true, "Log": true, "Name": true}
	cnt := 0
	for _, name := range []string{"checkFailFile", "loadFailFile", "newT"} {
		f := r.MustFn(name)
		if f == nil {
			continue
		}
		for _, cs := range p.calls(f) {
			if strings.HasPrefix(cs.Key, "invoke:tb.") {
				cnt++
				m := strings.TrimPrefix(cs.Key, "invoke:tb.")
				r.Check(name+"#tb."+m, cs.Instr.Pos(), allowed[m], "only logging/naming methods of the TB are used", name+" calls tb."+m+": an unusable fail file must never fail or skip the test")
			}
		}
	}
	r.Floor("TB calls in the fail-file phase", cnt, 5)
}

func versionConst(p *Program) string {
	v, _, _ := p.constStringNamed("rapidVersion")
	return v
}

func ruleC17R3(r *Run) {
	p := r.P
	dc := r.MustFn("doCheck")
	if dc == nil {
		return
	}
	fbs := p.callsTo(dc, "findBug")
	if len(fbs) != 1 {
		r.Fail("doCheck#findBug", dc.Pos(), "expected one findBug call in doCheck")
		return
	}
	fb := fbs[0]
	for i, name := range []string{"tb", "deadline", "checks", "seed", "prop"} {
		par := paramNamed(dc, name)
		r.Check("doCheck#findBug."+name, fb.Instr.Pos(), par != nil && p.resolve(fb.Arg(i)) == ssa.Value(par), name+" is handed to findBug unmodified", "findBug receives "+p.expr(fb.Arg(i))+" for "+name+": the fail-file phase changes which random test cases are run")
	}
	// checkFailFile shares nothing with findBug but tb and prop
	for _, cf := range p.callsTo(dc, "checkFailFile") {
		r.Check("doCheck#checkFailFile.args", cf.Instr.Pos(), p.expr(cf.Arg(0)) == "$tb" && p.expr(cf.Arg(2)) == "$prop", "checkFailFile gets only tb, the file name and prop", "checkFailFile receives "+p.expr(cf.Arg(0))+", "+p.expr(cf.Arg(2)))
	}
}

// leadingLiteral returns the constant prefix a string expression is known to start with:
// constants, left operands of +, constant format prefixes of fmt.Sprintf, and (one level) the
// common answer of all returns of a package function.
func (p *Program) leadingLiteral(v ssa.Value, d int) (string, bool) {
	if d > 4 {
		return "", false
	}
	v = p.resolve(v)
	switch x := v.(type) {
	case *ssa.Const:
		return constString(x)
	case *ssa.BinOp:
		if x.Op == token.ADD {
			l, ok := p.leadingLiteral(x.X, d+1)
			if ok && l == "" {
				return p.leadingLiteral(x.Y, d+1)
			}
			return l, ok
		}
	case *ssa.Call:
		key := p.calleeKey(x.Common())
		if key == "fmt.Sprintf" {
			f, ok := constString(p.resolve(x.Common().Args[0]))
			if !ok {
				return "", false
			}
			if i := strings.Index(f, "%"); i >= 0 {
				f = f[:i]
			}
			return f, f != ""
		}
		if sc := x.Common().StaticCallee(); sc != nil && p.inRapid(sc) && sc.Blocks != nil {
			res := ""
			for i, ret := range returnsOf(sc) {
				l, ok := p.leadingLiteral(p.res(ret, 0), d+1)
				if !ok || l == "" {
					return "", false
				}
				if i == 0 {
					res = l[:1]
				} else if res != l[:1] {
					return "", false
				}
			}
			return res, res != ""
		}
	}
	return "", false
}

// errorTest finds the branch that tests an error value against nil; an error that is returned by a
// transparent helper is followed to the helper's call site. pol is true if the true edge is the error edge.
func (p *Program) errorTest(ev ssa.Value, d int) (*ssa.If, bool) {
	if ev == nil || ev.Referrers() == nil || d > 3 {
		return nil, false
	}
	for _, ref := range *ev.Referrers() {
		switch x := ref.(type) {
		case *ssa.BinOp:
			if (x.Op == token.NEQ || x.Op == token.EQL) && x.Referrers() != nil {
				for _, r2 := range *x.Referrers() {
					if i2, ok := r2.(*ssa.If); ok {
						return i2, x.Op == token.NEQ
					}
				}
			}
		case *ssa.Return:
			site := p.helperSite(x.Parent())
			c, ok := site.(*ssa.Call)
			if site == nil || !ok {
				continue
			}
			for k, res := range x.Results {
				if res != ev {
					continue
				}
				var v ssa.Value = c
				if len(x.Results) > 1 {
					es := extractsOf(c, k)
					if len(es) == 0 {
						continue
					}
					v = es[0]
				}
				if iff, pol := p.errorTest(v, d+1); iff != nil {
					return iff, pol
				}
			}
		case *ssa.Store:
			// result cell of a function with defers: the load in the same block is what is returned
			if a, ok := x.Addr.(*ssa.Alloc); ok && a.Referrers() != nil {
				for _, r2 := range *a.Referrers() {
					if ld, ok := r2.(*ssa.UnOp); ok && ld.Block() == x.Block() {
						if iff, pol := p.errorTest(ld, d+1); iff != nil {
							return iff, pol
						}
					}
				}
			}
		case *ssa.Phi:
			if iff, pol := p.errorTest(x, d+1); iff != nil {
				return iff, pol
			}
		}
	}
	return nil, false
}

func shapeString(sh []strPart) string {
	var b strings.Builder
	for _, q := range sh {
		switch q.Kind {
		case "lit":
			fmt.Fprintf(&b, "%q", q.Lit)
		case "int":
			fmt.Fprintf(&b, "<%s base %d>", q.Expr, q.Base)
		default:
			fmt.Fprintf(&b, "<%s>", q.Expr)
		}
	}
	return b.String()
}

// safeRuneLits reports whether a conjunction of path literals implies that ex is a letter, a digit, '-' or '_';
// a literal pred(ex) == true of a package predicate is unfolded into the path conditions of its true returns.
func (p *Program) safeRuneLits(lits []string, ex string, depth int) bool {
	for _, lit := range lits {
		switch lit {
		case "unicode.IsLetter(" + ex + ") == true", "unicode.IsDigit(" + ex + ") == true", ex + " == 45", ex + " == 95":
			return true
		}
		if depth < 2 && strings.HasSuffix(lit, "("+ex+") == true") {
			pred := p.Fn(strings.TrimSuffix(lit, "("+ex+") == true"))
			if pred == nil || len(pred.Params) != 1 || pred.Signature.Results().Len() != 1 {
				continue
			}
			all, n := true, 0
			for _, ret := range returnsOf(pred) {
				for _, a := range p.alternatives(p.res(ret, 0), 0) {
					av := p.resolve(a.Val)
					var extra []string
					if b, ok := constBool(av); ok {
						if !b {
							continue
						}
					} else {
						extra = append(extra, p.relOf(guard{Cond: av, Pol: true}).String())
					}
					for _, f := range a.Facts {
						extra = append(extra, f.String())
					}
					sets := p.pathConds(pred, ret.Block(), nil)
					if len(sets) == 0 {
						sets = [][]string{{}}
					}
					for _, set := range sets {
						n++
						conj := append(append([]string{}, extra...), set...)
						if !p.safeRuneLits(conj, ex, depth+1) && !p.safeRuneLits(conj, "$"+pred.Params[0].Name(), depth+1) {
							all = false
						}
					}
				}
			}
			if all && n > 0 {
				return true
			}
		}
	}
	return false
}

// isAppendPhi: v is a loop-carried slice built by appending elements whose rendering contains want.
func isAppendPhi(p *Program, v ssa.Value, want string) bool {
	ph, ok := p.resolve(v).(*ssa.Phi)
	if !ok {
		// the same accumulation through a cell (a named result in a function with defers is not promoted to a phi):
		// some store is append(<the cell>, … want …), every other store writes nil / an empty slice
		if ld, isLoad := p.resolve(v).(*ssa.UnOp); isLoad && ld.Op == token.MUL {
			if a, isAlloc := ld.X.(*ssa.Alloc); isAlloc && a.Referrers() != nil {
				found, okAll := false, true
				for _, ref := range *a.Referrers() {
					st, isSt := ref.(*ssa.Store)
					if !isSt {
						continue
					}
					if st.Addr != ssa.Value(a) {
						okAll = false
						continue
					}
					if c, ok := p.resolve(st.Val).(*ssa.Call); ok && p.calleeKey(c.Common()) == "builtin:append" {
						if l2, ok := p.resolve(c.Common().Args[0]).(*ssa.UnOp); ok && l2.X == ssa.Value(a) {
							for _, x := range p.variadicArgs(c.Common().Args[1]) {
								if x != nil && strings.Contains(p.expr(x), want) {
									found = true
								}
							}
							continue
						}
					}
					if !p.isEmptySlice(st.Val) {
						if l2, ok := st.Val.(*ssa.UnOp); !ok || l2.X != ssa.Value(a) {
							okAll = false
						}
					}
				}
				return found && okAll
			}
		}
		return false
	}
	found := false
	for _, e := range ph.Edges {
		if c, ok := p.resolve(e).(*ssa.Call); ok && p.calleeKey(c.Common()) == "builtin:append" && p.resolve(c.Common().Args[0]) == ssa.Value(ph) {
			for _, a := range p.variadicArgs(c.Common().Args[1]) {
				if a != nil && strings.Contains(p.expr(a), want) {
					found = true
				}
			}
		}
	}
	return found
}

// ruleDiscoveryIsThePattern: the disjointness of temporary and final names is relative to what the next run looks for:
// doCheck must glob exactly failFilePattern(tb.Name()), not something wider (a directory-wide `*` also matches the
// dot-named temporaries a crashed save leaves behind).
func ruleDiscoveryIsThePattern(r *Run) {
	p := r.P
	dc := r.MustFn("doCheck")
	if dc == nil {
		return
	}
	n := 0
	for _, gl := range p.callsTo(dc, "path/filepath.Glob") {
		n++
		r.Check("doCheck#glob-arg", gl.Instr.Pos(), strings.HasPrefix(p.expr(gl.Arg(0)), "failFilePattern("), "Glob is applied to failFilePattern(...)", "Glob is applied to "+p.expr(gl.Arg(0))+": temporaries of an interrupted save can match it")
	}
	r.Floor("Glob calls in doCheck", n, 1)
}

// isEmptySlice: v is nil or a freshly made slice of length 0 (make([]T, 0, n)).
func (p *Program) isEmptySlice(v ssa.Value) bool {
	v = p.resolve(v)
	if isNilConst(v) {
		return true
	}
	switch x := v.(type) {
	case *ssa.MakeSlice:
		n, ok := constInt(p.resolve(x.Len))
		return ok && n == 0
	case *ssa.Slice:
		if _, isAlloc := x.X.(*ssa.Alloc); isAlloc && x.High != nil {
			n, ok := constInt(p.resolve(x.High))
			return ok && n == 0 && x.Low == nil
		}
	}
	return false
}

func ruleC16R7(r *Run) {
	p := r.P
	ct := r.MustFn("checkTB")
	if ct == nil {
		return
	}
	saves := p.callsTo(ct, "saveFailFile")
	r.Floor("saveFailFile calls in checkTB", len(saves), 1)
	for _, a := range saves {
		for _, b := range saves {
			if a != b && reachable(a.Instr, b.Instr, nil) {
				r.Fail("checkTB#save-once", b.Instr.Pos(), "a second saveFailFile is reachable after the one at "+p.pos(a.Instr.Pos())+": between the two renames (and after a crash there) the published file is not what an uninterrupted save produces")
			}
		}
		okOut := false
		if c, ok := p.resolve(a.Arg(2)).(*ssa.Call); ok && p.calleeKey(c.Common()) == "captureTestOutput" {
			okOut = true
		}
		r.Check("checkTB#save.output", a.Instr.Pos(), okOut, "the published file contains the captured output", "saveFailFile publishes output "+p.expr(a.Arg(2))+" instead of the captured test output")
	}
	if len(saves) == 1 {
		r.OK("checkTB#save-once", saves[0].Instr.Pos(), "one saveFailFile call in checkTB, not in a loop")
		if reachable(saves[0].Instr, saves[0].Instr, nil) {
			r.Fail("checkTB#save-once.loop", saves[0].Instr.Pos(), "saveFailFile is called in a loop")
		}
	}
}

// rngBase: the slice an element value (x[i]) is read from.
func rngBase(p *Program, v ssa.Value) ssa.Value {
	if u, ok := p.resolve(v).(*ssa.UnOp); ok && u.Op == token.MUL {
		if ia, ok := u.X.(*ssa.IndexAddr); ok {
			return ia.X
		}
	}
	return v
}

// builderSections recognises a data section accumulated in one local strings.Builder / bytes.Buffer of fn:
// the shapes written before the (single) loop that writes to it, the shapes written per iteration of that loop,
// provided the accumulated string is then handed to a write call. Writes anywhere else (after the loop, in a
// nested or second loop, under a branch) make the form unrecognised.
func (p *Program) builderSections(fn *ssa.Function) (hdr, word []strPart, pos token.Pos, ok bool) {
	var bld *ssa.Alloc
	for _, b := range p.body(fn) {
		for _, in := range b.Instrs {
			if a, isA := in.(*ssa.Alloc); isA {
				switch a.Type().String() {
				case "*strings.Builder", "*bytes.Buffer":
					if bld != nil {
						return nil, nil, token.NoPos, false
					}
					bld = a
				}
			}
		}
	}
	if bld == nil {
		return nil, nil, token.NoPos, false
	}
	var loop *loopInfo
	var hdrBlocks []*ssa.BasicBlock
	handedOut := false
	for _, b := range fn.Blocks { // block order of go/ssa follows the source order of straight-line code
		for _, in := range b.Instrs {
			ci, isC := in.(ssa.CallInstruction)
			if !isC {
				continue
			}
			c := ci.Common()
			key := p.calleeKey(c)
			onBld := len(c.Args) > 0 && p.resolve(c.Args[0]) == ssa.Value(bld)
			var parts []strPart
			switch {
			case onBld && (strings.HasSuffix(key, ".WriteString")):
				parts = p.strShapeEnv(c.Args[1], nil, 0)
			case onBld && (strings.HasSuffix(key, ".WriteByte") || strings.HasSuffix(key, ".WriteRune")):
				ch, isK := constInt(p.resolve(c.Args[1]))
				if !isK {
					return nil, nil, token.NoPos, false
				}
				parts = []strPart{{Kind: "lit", Lit: string(rune(ch))}}
			case onBld && strings.HasSuffix(key, ".String"):
				handedOut = true
				continue
			case onBld && (strings.HasSuffix(key, ".Grow") || strings.HasSuffix(key, ".Len")):
				continue
			case onBld:
				return nil, nil, token.NoPos, false
			default:
				continue
			}
			if _, isDefer := in.(*ssa.Defer); isDefer {
				return nil, nil, token.NoPos, false
			}
			l := innermostLoop(in)
			switch {
			case l == nil:
				if loop != nil {
					return nil, nil, token.NoPos, false
				}
				hdrBlocks = append(hdrBlocks, b)
				hdr = append(hdr, parts...)
				if pos == token.NoPos {
					pos = in.Pos()
				}
			default:
				nest := 0
				for _, o := range loopsOf(fn) {
					if o.Body[b] {
						nest++
					}
				}
				if loop != nil && loop.Header != l.Header || nest != 1 {
					return nil, nil, token.NoPos, false
				}
				for _, lb := range l.Latch {
					if !b.Dominates(lb) {
						return nil, nil, token.NoPos, false
					}
				}
				loop = l
				word = append(word, parts...)
			}
		}
	}
	if !handedOut || loop == nil {
		return nil, nil, token.NoPos, false
	}
	for _, hb := range hdrBlocks { // header writes are unconditional: each dominates the loop
		if !hb.Dominates(loop.Header) {
			return nil, nil, token.NoPos, false
		}
	}
	return mergeLits(hdr), mergeLits(word), pos, true
}

func mergeLits(parts []strPart) []strPart {
	var out []strPart
	for _, q := range parts {
		if q.Kind == "lit" && q.Lit == "" {
			continue
		}
		if q.Kind == "lit" && len(out) > 0 && out[len(out)-1].Kind == "lit" {
			out[len(out)-1].Lit += q.Lit
			continue
		}
		out = append(out, q)
	}
	return out
}

// ruleIgnoreReasons (C06-R14): checkFailFile drops a fail file — returns nothing to report — only for the reviewed
// reasons: it did not load, it was written by another rapid version, or its first run no longer fails (passes or is
// invalid data). Any other ignore path (an empty bitstream, a size limit, a name filter …) makes a failure that was
// persisted correctly invisible to the next run.
func ruleIgnoreReasons(r *Run) {
	p := r.P
	fn := r.MustFn("checkFailFile")
	if fn == nil {
		return
	}
	lf := p.callsTo(fn, "loadFailFile")
	cos := p.callsTo(fn, "checkOnce")
	if len(cos) == 0 {
		// the replay wrapped in a local function called twice: any call in checkFailFile itself that yields a *testError
		for _, cs := range p.calls(fn) {
			if cs.Instr.Parent() == fn && cs.Value() != nil && isPtrToNamed(cs.Value().Type(), "testError") {
				cos = append(cos, cs)
			}
		}
	}
	if len(lf) != 1 || len(cos) == 0 {
		r.Undecided("checkFailFile#ignore-reason", fn.Pos(), "expected one loadFailFile call and a checkOnce call in checkFailFile")
		return
	}
	var first *callSite
	for _, c := range cos {
		if first == nil || dominates(c.Instr, first.Instr) {
			first = c
		}
	}
	loadErr := p.expr(extractOr(lf[0].Value(), 3))
	version := p.expr(extractOr(lf[0].Value(), 0))
	e1 := first.Value()
	n := 0
	for _, ret := range returnsOf(fn) {
		if !(isNilConst(p.resolve(p.res(ret, 0))) && isNilConst(p.resolve(p.res(ret, 1))) && isNilConst(p.resolve(p.res(ret, 2)))) {
			continue
		}
		n++
		sets := p.pathConds(fn, ret.Block(), func(rl rel) bool { return true })
		ok := len(sets) > 0
		why := ""
		for _, set := range sets {
			reason := false
			for _, lit := range set {
				rl := parseRel(lit)
				switch {
				case rl.X == loadErr && rl.Op == "!=" && rl.Y == "nil":
					reason = true
				case rl.X == version && rl.Op == "!=":
					reason = true
				case rl.X == p.expr(e1) && rl.Op == "==" && rl.Y == "nil":
					reason = true
				case strings.HasPrefix(rl.X, "(*testError).isInvalidData(") && rl.Op == "==" && rl.Y == "true":
					reason = true
				}
			}
			if !reason {
				ok = false
				why = "{" + strings.Join(set, "; ") + "}"
			}
		}
		r.Check("checkFailFile#ignore-reason", ret.Pos(), ok, "a fail file is dropped only because it did not load, has another version, or its first run no longer fails",
			"checkFailFile drops a fail file on a path that has none of the reviewed reasons (load error, other version, first run passes or is invalid) "+why+": a correctly persisted failure is not replayed by the next run")
	}
	r.Floor("ignore returns of checkFailFile", n, 2)
}
