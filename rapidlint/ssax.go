package main

import (
	"fmt"
	"go/constant"
	"go/token"
	"go/types"
	"regexp"
	"sort"
	"strings"

	"golang.org/x/tools/go/ssa"
)

// ---------------------------------------------------------------------------
// names

var bracketRe = regexp.MustCompile(`\[[^\[\]]*\]`)

// normName strips type-parameter/argument lists: "(*customGen[V]).maybeValue" -> "(*customGen).maybeValue".
func normName(s string) string {
	for {
		t := bracketRe.ReplaceAllString(s, "")
		if t == s {
			return s
		}
		s = t
	}
}

// fnName is the normalised package-relative name of a function of any package.
func (p *Program) fnName(fn *ssa.Function) string {
	if fn == nil {
		return "<nil>"
	}
	if o := fn.Origin(); o != nil {
		fn = o
	}
	if p.inRapid(fn) {
		return normName(fn.RelString(p.SPkg.Pkg))
	}
	return normName(fn.String())
}

// Fn resolves a function of the package under analysis by normalised name.
func (p *Program) Fn(name string) *ssa.Function {
	if fn, ok := p.Funcs[name]; ok {
		return fn
	}
	for k, fn := range p.Funcs {
		if normName(k) == name {
			return fn
		}
	}
	return nil
}

// ---------------------------------------------------------------------------
// cells (local variables that live in memory) and closure bindings

type cellInfo struct {
	alloc   *ssa.Alloc
	stores  []*ssa.Store
	loads   []*ssa.UnOp
	escapes bool
	partial bool // accessed through FieldAddr/IndexAddr (aggregate cell)
}

func (p *Program) initBinds() {
	if p.binit {
		return
	}
	p.binit = true
	count := map[*ssa.Function]int{}
	var mcs []*ssa.MakeClosure
	for _, fn := range p.allFuncs() {
		for _, b := range fn.Blocks {
			for _, in := range b.Instrs {
				if mc, ok := in.(*ssa.MakeClosure); ok {
					f := mc.Fn.(*ssa.Function)
					count[f]++
					mcs = append(mcs, mc)
				}
			}
		}
	}
	for _, mc := range mcs {
		f := mc.Fn.(*ssa.Function)
		if count[f] != 1 {
			continue
		}
		for i, fv := range f.FreeVars {
			if i < len(mc.Bindings) {
				p.binds[fv] = mc.Bindings[i]
			}
		}
	}
}

// bindOf returns the value a free variable is bound to (if its closure is created at exactly one site).
func (p *Program) bindOf(fv *ssa.FreeVar) ssa.Value {
	p.initBinds()
	return p.binds[fv]
}

func (p *Program) cell(a *ssa.Alloc) *cellInfo {
	if ci, ok := p.cells[a]; ok {
		return ci
	}
	p.initBinds()
	ci := &cellInfo{alloc: a}
	p.cells[a] = ci
	seen := map[ssa.Value]bool{}
	var visit func(addr ssa.Value)
	visit = func(addr ssa.Value) {
		if seen[addr] {
			return
		}
		seen[addr] = true
		refs := addr.Referrers()
		if refs == nil {
			return
		}
		for _, r := range *refs {
			switch r := r.(type) {
			case *ssa.Store:
				if r.Addr == addr {
					ci.stores = append(ci.stores, r)
				}
				if r.Val == addr {
					ci.escapes = true
				}
			case *ssa.UnOp:
				if r.Op == token.MUL {
					ci.loads = append(ci.loads, r)
				} else {
					ci.escapes = true
				}
			case *ssa.MakeClosure:
				f := r.Fn.(*ssa.Function)
				for i, b := range r.Bindings {
					if b == addr && i < len(f.FreeVars) {
						visit(f.FreeVars[i])
					}
				}
			case *ssa.DebugRef:
			case *ssa.FieldAddr, *ssa.IndexAddr:
				ci.partial = true
			default:
				ci.escapes = true
			}
		}
	}
	visit(a)
	return ci
}

// cellOf returns the cell behind an address value (an Alloc, or a free variable bound to one).
func (p *Program) cellOf(addr ssa.Value) *cellInfo {
	for i := 0; i < 8; i++ {
		switch a := addr.(type) {
		case *ssa.Alloc:
			return p.cell(a)
		case *ssa.FreeVar:
			b := p.bindOf(a)
			if b == nil {
				return nil
			}
			addr = b
		default:
			return nil
		}
	}
	return nil
}

// resolve looks through type changes, interface conversions, single-store cells,
// closure bindings and degenerate phis.
func (p *Program) resolve(v ssa.Value) ssa.Value {
	for i := 0; i < 32 && v != nil; i++ {
		switch x := v.(type) {
		case *ssa.ChangeType:
			v = x.X
		case *ssa.ChangeInterface:
			v = x.X
		case *ssa.MakeInterface:
			v = x.X
		case *ssa.UnOp:
			if x.Op != token.MUL {
				return v
			}
			if fa, isFA := x.X.(*ssa.FieldAddr); isFA {
				// a field of a struct-typed local that is initialised once (composite literal) or is the spilled copy of
				// a value receiver / parameter of an inlined helper whose argument is such a local
				if fv := p.structFieldValue(fa, 0); fv != nil {
					v = fv
					continue
				}
				return v
			}
			ci := p.cellOf(x.X)
			if ci == nil || ci.escapes || ci.partial {
				return v
			}
			if len(ci.stores) != 1 {
				// a variable assigned more than once that became a cell only because a function literal invoked on the spot
				// reads it: the store that reaches this load
				if rv := p.reachingStore(ci, x); rv != nil {
					v = rv
					continue
				}
				return v
			}
			v = ci.stores[0].Val
		case *ssa.FreeVar:
			b := p.bindOf(x)
			if b == nil {
				return v
			}
			if _, isAlloc := b.(*ssa.Alloc); isAlloc {
				return v // an address; loads through it are handled above
			}
			if _, isFV := b.(*ssa.FreeVar); isFV {
				v = b
				continue
			}
			v = b
		case *ssa.Parameter:
			// parameter of a transparent helper: the argument at its unique call site
			fn := x.Parent()
			site := p.helperSite(fn)
			if site == nil {
				return v
			}
			idx := -1
			for k, q := range fn.Params {
				if q == x {
					idx = k
				}
			}
			args := site.Common().Args
			if idx < 0 || idx >= len(args) {
				return v
			}
			v = args[idx]
		case *ssa.Call:
			// call of a transparent helper with a single return: the value it returns
			sc := x.Common().StaticCallee()
			if sc == nil || !p.transparent(sc) || sc.Signature.Results().Len() != 1 {
				return v
			}
			if o := sc.Origin(); o != nil {
				sc = o
			}
			rets := returnsOf(sc)
			if len(rets) != 1 {
				return v
			}
			v = p.res(rets[0], 0)
		case *ssa.Extract:
			c, ok := x.Tuple.(*ssa.Call)
			if !ok {
				return v
			}
			sc := c.Common().StaticCallee()
			if sc == nil || !p.transparent(sc) {
				return v
			}
			if o := sc.Origin(); o != nil {
				sc = o
			}
			rets := returnsOf(sc)
			if n := sc.Signature.Results().Len(); len(rets) > 1 && x.Index < n-1 && isErrorType(sc.Signature.Results().At(n-1).Type()) {
				// (value, …, error) helper: a non-error result is meaningful only on the success return
				var succ []*ssa.Return
				for _, ret := range rets {
					if len(ret.Results) == n && isNilConst(p.resolve(p.res(ret, n-1))) {
						succ = append(succ, ret)
					}
				}
				if len(succ) == 1 {
					rets = succ
				}
			}
			if len(rets) != 1 || x.Index >= len(rets[0].Results) {
				return v
			}
			v = p.res(rets[0], x.Index)
		case *ssa.Phi:
			var first ssa.Value
			same := true
			for _, e := range x.Edges {
				r := e
				if r == ssa.Value(x) {
					continue
				}
				if first == nil {
					first = r
				} else if first != r {
					same = false
				}
			}
			if !same || first == nil {
				return v
			}
			v = first
		default:
			return v
		}
	}
	return v
}

// stripConv additionally looks through numeric conversions.
func (p *Program) stripConv(v ssa.Value) ssa.Value {
	for i := 0; i < 16; i++ {
		v = p.resolve(v)
		c, ok := v.(*ssa.Convert)
		if !ok {
			return v
		}
		v = c.X
	}
	return v
}

// same reports whether two values are the same SSA value after resolution.
func (p *Program) same(a, b ssa.Value) bool {
	if a == nil || b == nil {
		return false
	}
	ra, rb := p.resolve(a), p.resolve(b)
	if ra == rb {
		return true
	}
	// two loads of the same unresolvable address, or two constants, compare by rendering
	ca, okA := ra.(*ssa.Const)
	cb, okB := rb.(*ssa.Const)
	if okA && okB {
		return p.expr(ca) == p.expr(cb) && types.Identical(ca.Type(), cb.Type())
	}
	// two loads of the same element (x[i] read twice) of a slice nothing in the function stores into
	ua, okA2 := ra.(*ssa.UnOp)
	ub, okB2 := rb.(*ssa.UnOp)
	if okA2 && okB2 && ua.Op == token.MUL && ub.Op == token.MUL {
		ia, okA3 := ua.X.(*ssa.IndexAddr)
		ib, okB3 := ub.X.(*ssa.IndexAddr)
		if okA3 && okB3 && p.resolve(ia.X) == p.resolve(ib.X) && p.resolve(ia.Index) == p.resolve(ib.Index) && ua.Parent() == ub.Parent() {
			if _, isSlice := ia.X.Type().Underlying().(*types.Slice); isSlice {
				base := p.resolve(ia.X)
				for _, b := range ua.Parent().Blocks {
					for _, in := range b.Instrs {
						var target ssa.Value
						switch x := in.(type) {
						case *ssa.Store:
							if sa, ok := x.Addr.(*ssa.IndexAddr); ok {
								target = p.resolve(sa.X)
							}
						case *ssa.Call:
							if p.calleeKey(x.Common()) == "builtin:copy" {
								target = p.resolve(x.Common().Args[0])
								if sl, ok := target.(*ssa.Slice); ok {
									target = p.resolve(sl.X)
								}
							}
						}
						// a write that can execute between the two reads separates them; one that is over before the
						// first read (the slice being filled before the loop that reads it) does not
						if target == base && ((reachable(ua, in, nil) && reachable(in, ub, nil)) || (reachable(ub, in, nil) && reachable(in, ua, nil))) {
							return false
						}
					}
				}
				return true
			}
		}
	}
	return false
}

// ---------------------------------------------------------------------------
// rendering

func (p *Program) typeStr(t types.Type) string {
	return normName(types.TypeString(t, func(pk *types.Package) string {
		if pk == p.Types {
			return ""
		}
		return pk.Name()
	}))
}

// expr renders an SSA value as a canonical expression over parameters, constants, calls and fields.
func (p *Program) expr(v ssa.Value) string { return p.exprD(v, 7) }

func (p *Program) exprD(v ssa.Value, d int) string {
	if v == nil {
		return "<none>"
	}
	v = p.resolve(v)
	if d <= 0 {
		return "…"
	}
	switch x := v.(type) {
	case *ssa.Const:
		if x.Value == nil {
			if _, ok := x.Type().Underlying().(*types.Basic); ok {
				return "zero"
			}
			return "nil"
		}
		if x.Value.Kind() == constant.String {
			return fmt.Sprintf("%q", constant.StringVal(x.Value))
		}
		return x.Value.ExactString()
	case *ssa.Parameter:
		return "$" + p.paramName(x)
	case *ssa.FreeVar:
		return "^" + x.Name()
	case *ssa.Global:
		return "G:" + x.Name()
	case *ssa.Function:
		return "fn:" + p.fnName(x)
	case *ssa.Builtin:
		return "builtin:" + x.Name()
	case *ssa.Call:
		if d < 6 {
			return p.calleeKey(x.Common()) + "(…)"
		}
		return p.callStr(x.Common(), d)
	case *ssa.Extract:
		return p.exprD(x.Tuple, d) + "#" + fmt.Sprint(x.Index)
	case *ssa.BinOp:
		return "(" + p.exprD(x.X, d-1) + " " + x.Op.String() + " " + p.exprD(x.Y, d-1) + ")"
	case *ssa.UnOp:
		switch x.Op {
		case token.MUL:
			s := p.exprD(x.X, d)
			if strings.HasPrefix(s, "&") {
				return s[1:]
			}
			return "*" + s
		case token.NOT:
			return "!" + p.exprD(x.X, d-1)
		default:
			return x.Op.String() + p.exprD(x.X, d-1)
		}
	case *ssa.FieldAddr:
		st := deref(x.X.Type()).Underlying().(*types.Struct)
		base := p.exprD(x.X, d)
		base = strings.TrimPrefix(base, "&")
		return "&" + base + "." + st.Field(x.Field).Name()
	case *ssa.Field:
		st := x.X.Type().Underlying().(*types.Struct)
		return p.exprD(x.X, d) + "." + st.Field(x.Field).Name()
	case *ssa.IndexAddr:
		base := strings.TrimPrefix(p.exprD(x.X, d), "&")
		return "&" + base + "[" + p.exprD(x.Index, d-1) + "]"
	case *ssa.Index:
		return p.exprD(x.X, d) + "[" + p.exprD(x.Index, d-1) + "]"
	case *ssa.Lookup:
		s := p.exprD(x.X, d) + "[" + p.exprD(x.Index, d-1) + "]"
		if x.CommaOk {
			s += ",ok"
		}
		return s
	case *ssa.Slice:
		s := strings.TrimPrefix(p.exprD(x.X, d), "&") + "["
		if x.Low != nil {
			s += p.exprD(x.Low, d-1)
		}
		s += ":"
		if x.High != nil {
			s += p.exprD(x.High, d-1)
		}
		if x.Max != nil {
			s += ":" + p.exprD(x.Max, d-1)
		}
		return s + "]"
	case *ssa.Alloc:
		// a parameter spilled to a cell (its address is taken) keeps the parameter's canonical name
		if x.Referrers() != nil {
			for _, ref := range *x.Referrers() {
				if st, ok := ref.(*ssa.Store); ok && st.Addr == ssa.Value(x) {
					if par, ok := st.Val.(*ssa.Parameter); ok && par.Name() == x.Comment {
						// in an inlined helper the parameter is a copy of the argument
						if rv := p.resolve(par); rv != ssa.Value(par) && d > 1 {
							if inner := p.exprD(rv, d-1); strings.HasPrefix(inner, "copy(") {
								return "&" + inner // a copy of a copy
							} else {
								return "&copy(" + inner + ")"
							}
						}
						return "&alloc(" + p.paramName(par) + ")"
					}
				}
			}
		}
		// a local that is assigned exactly once as a whole (g := rec.groups[i]) is named by what it is a copy of,
		// not by its variable name
		if x.Referrers() != nil && d > 1 {
			var whole []*ssa.Store
			for _, ref := range *x.Referrers() {
				if st, ok := ref.(*ssa.Store); ok && st.Addr == ssa.Value(x) {
					whole = append(whole, st)
				}
			}
			if len(whole) == 1 {
				if _, isPar := whole[0].Val.(*ssa.Parameter); !isPar {
					return "&copy(" + p.exprD(whole[0].Val, d-1) + ")"
				}
			}
		}
		return "&alloc(" + x.Comment + ")"
	case *ssa.Phi:
		return "φ" + x.Comment
	case *ssa.MakeClosure:
		f := x.Fn.(*ssa.Function)
		if strings.HasSuffix(f.Name(), "$bound") && len(x.Bindings) == 1 {
			return "bound:" + strings.TrimSuffix(p.fnName(f), "$bound") + "(" + p.exprD(x.Bindings[0], d-1) + ")"
		}
		return "closure:" + p.fnName(f)
	case *ssa.Convert:
		return "conv<" + p.typeStr(x.Type()) + ">(" + p.exprD(x.X, d-1) + ")"
	case *ssa.TypeAssert:
		s := "assert<" + p.typeStr(x.AssertedType) + ">(" + p.exprD(x.X, d-1) + ")"
		if x.CommaOk {
			s += ",ok"
		}
		return s
	case *ssa.MakeSlice:
		return "makeslice<" + p.typeStr(x.Type()) + ">"
	case *ssa.MakeMap:
		return "makemap<" + p.typeStr(x.Type()) + ">"
	case *ssa.MakeChan:
		return "makechan"
	case *ssa.Range:
		return "range(" + p.exprD(x.X, d-1) + ")"
	case *ssa.Next:
		return "next(" + p.exprD(x.Iter, d-1) + ")"
	case *ssa.SliceToArrayPointer:
		return p.exprD(x.X, d)
	}
	return fmt.Sprintf("?%T", v)
}

func deref(t types.Type) types.Type {
	if pt, ok := t.Underlying().(*types.Pointer); ok {
		return pt.Elem()
	}
	return t
}

// calleeKey names the callee of a call: static functions by normalised name, interface
// methods as "invoke:<iface>.<method>", builtins as "builtin:<name>", anything else "dyn:<expr>".
func (p *Program) calleeKey(c *ssa.CallCommon) string {
	if c.IsInvoke() {
		return "invoke:" + p.typeStr(c.Value.Type()) + "." + c.Method.Name()
	}
	if f := c.StaticCallee(); f != nil {
		return p.fnName(f)
	}
	if b, ok := c.Value.(*ssa.Builtin); ok {
		return "builtin:" + b.Name()
	}
	return "dyn:" + p.exprD(c.Value, 4)
}

func (p *Program) callStr(c *ssa.CallCommon, d int) string {
	var parts []string
	if c.IsInvoke() {
		parts = append(parts, p.exprD(c.Value, d-1))
	}
	for _, a := range c.Args {
		parts = append(parts, p.exprD(a, d-1))
	}
	return p.calleeKey(c) + "(" + strings.Join(parts, ", ") + ")"
}

// ---------------------------------------------------------------------------
// instruction / call enumeration

type callSite struct {
	Fn     *ssa.Function
	Instr  ssa.CallInstruction
	Common *ssa.CallCommon
	Key    string
}

func (cs *callSite) isDefer() bool { _, ok := cs.Instr.(*ssa.Defer); return ok }
func (cs *callSite) isGo() bool    { _, ok := cs.Instr.(*ssa.Go); return ok }

// Recv returns the receiver of a method call (static or invoke), or nil.
func (cs *callSite) Recv() ssa.Value {
	if cs.Common.IsInvoke() {
		return cs.Common.Value
	}
	if f := cs.Common.StaticCallee(); f != nil && f.Signature.Recv() != nil && len(cs.Common.Args) > 0 {
		return cs.Common.Args[0]
	}
	return nil
}

// Arg returns the i-th non-receiver argument.
func (cs *callSite) Arg(i int) ssa.Value {
	args := cs.Common.Args
	if !cs.Common.IsInvoke() {
		if f := cs.Common.StaticCallee(); f != nil && f.Signature.Recv() != nil && len(args) > 0 {
			args = args[1:]
		}
	}
	if i < len(args) {
		return args[i]
	}
	return nil
}

func (cs *callSite) NArgs() int {
	n := len(cs.Common.Args)
	if !cs.Common.IsInvoke() {
		if f := cs.Common.StaticCallee(); f != nil && f.Signature.Recv() != nil && n > 0 {
			n--
		}
	}
	return n
}

// Value returns the result value of the call (nil for defer/go).
func (cs *callSite) Value() ssa.Value {
	if c, ok := cs.Instr.(*ssa.Call); ok {
		return c
	}
	return nil
}

// calls lists the call sites executed as part of fn: its own and, in place of each call of a
// transparent helper, the helper's (see transparent.go). callSite.Fn is the function that contains the site.
func (p *Program) calls(fn *ssa.Function) []*callSite {
	var out []*callSite
	p.collectCalls(fn, &out, 0)
	return out
}

func (p *Program) collectCalls(fn *ssa.Function, out *[]*callSite, depth int) {
	for _, b := range fn.Blocks {
		for _, in := range b.Instrs {
			ci, ok := in.(ssa.CallInstruction)
			if !ok {
				continue
			}
			if c, isCall := in.(*ssa.Call); isCall && depth < 6 {
				if sc := c.Common().StaticCallee(); sc != nil && p.transparent(sc) {
					if o := sc.Origin(); o != nil {
						sc = o
					}
					p.collectCalls(sc, out, depth+1)
					continue
				}
			}
			*out = append(*out, &callSite{Fn: fn, Instr: ci, Common: ci.Common(), Key: p.calleeKey(ci.Common())})
		}
	}
}

func (p *Program) allFuncs() []*ssa.Function {
	if p.AllFuncs != nil {
		return p.AllFuncs
	}
	return p.FuncList
}

// callsTo returns the call sites in fn whose callee key is one of keys.
func (p *Program) callsTo(fn *ssa.Function, keys ...string) []*callSite {
	var out []*callSite
	for _, cs := range p.calls(fn) {
		for _, k := range keys {
			if cs.Key == k {
				out = append(out, cs)
				break
			}
		}
	}
	return out
}

// callsMatching returns the call sites in fn whose key satisfies pred.
func (p *Program) callsMatching(fn *ssa.Function, pred func(key string) bool) []*callSite {
	var out []*callSite
	for _, cs := range p.calls(fn) {
		if pred(cs.Key) {
			out = append(out, cs)
		}
	}
	return out
}

func instrIndex(in ssa.Instruction) int {
	for i, x := range in.Block().Instrs {
		if x == in {
			return i
		}
	}
	return -1
}

// dominates reports whether instruction a is executed before b on every path to b.
func dominates(a, b ssa.Instruction) bool {
	if a.Parent() != b.Parent() {
		la, lb, ok := commonFrame(a, b)
		if !ok || la == lb {
			return false
		}
		a, b = la, lb
	}
	if a.Block() == b.Block() {
		return instrIndex(a) < instrIndex(b)
	}
	return a.Block().Dominates(b.Block())
}

// ---------------------------------------------------------------------------
// reachability

// walkFrom visits every instruction reachable after `from` (exclusive); visit returns false to
// stop exploring past that instruction. The walk descends into transparent helpers at their call
// and continues after the call when a helper returns (a helper's Return is not visited).
func walkFrom(from ssa.Instruction, visit func(in ssa.Instruction) bool) {
	w := &walker{visit: visit, seen: map[walkPos]bool{}}
	w.walk(from.Block(), instrIndex(from)+1)
}

// walkFromEntry visits every instruction reachable from the entry of fn.
func walkFromEntry(fn *ssa.Function, visit func(in ssa.Instruction) bool) {
	if len(fn.Blocks) == 0 {
		return
	}
	w := &walker{visit: visit, seen: map[walkPos]bool{}, root: fn}
	w.walk(fn.Blocks[0], 0)
}

type walkPos struct {
	b      *ssa.BasicBlock
	i      int
	forced int // successor forced by the edge the block was entered through (-1: none)
}

type walker struct {
	visit func(in ssa.Instruction) bool
	seen  map[walkPos]bool
	root  *ssa.Function // for walkFromEntry: returns of root are exits even if root is a helper
}

func (w *walker) walk(b *ssa.BasicBlock, start int) { w.walkF(b, start, -1) }

// forcedSucc: block s ends in a branch on a boolean phi of s (possibly negated) whose edge from pred is a constant —
// entered from pred, only one successor is possible (`ok := false; for !ok { … }` runs its body at least once).
func forcedSucc(s, pred *ssa.BasicBlock) int {
	if len(s.Instrs) == 0 || len(s.Succs) != 2 {
		return -1
	}
	iff, ok := s.Instrs[len(s.Instrs)-1].(*ssa.If)
	if !ok {
		return -1
	}
	cond, neg := iff.Cond, false
	for k := 0; k < 3; k++ {
		if u, ok := cond.(*ssa.UnOp); ok && u.Op == token.NOT {
			cond, neg = u.X, !neg
			continue
		}
		break
	}
	ph, ok := cond.(*ssa.Phi)
	if !ok || ph.Block() != s {
		return -1
	}
	for i, q := range s.Preds {
		if q != pred {
			continue
		}
		c, ok := ph.Edges[i].(*ssa.Const)
		if !ok || c.Value == nil || c.Value.Kind() != constant.Bool {
			return -1
		}
		v := constant.BoolVal(c.Value) != neg
		if v {
			return 0
		}
		return 1
	}
	return -1
}

func (w *walker) walkF(b *ssa.BasicBlock, start int, forced int) {
	key := walkPos{b, start, forced}
	if w.seen[key] || (forced >= 0 && w.seen[walkPos{b, start, -1}]) {
		return
	}
	w.seen[key] = true
	for i := start; i < len(b.Instrs); i++ {
		in := b.Instrs[i]
		if ret, isRet := in.(*ssa.Return); isRet && activeProg != nil && b.Parent() != w.root {
			if site := activeProg.helperSite(b.Parent()); site != nil {
				if _, isCall := site.(*ssa.Call); isCall {
					// return of an inlined helper: continue after its call site
					_ = ret
					w.walk(site.Block(), instrIndex(site)+1)
					return
				}
			}
		}
		if !w.visit(in) {
			return
		}
		if h := transparentCallee(in); h != nil && len(h.Blocks) > 0 {
			// descend; the helper's returns continue after this call
			w.walk(h.Blocks[0], 0)
			return
		}
	}
	for k, s := range b.Succs {
		if forced >= 0 && k != forced {
			continue
		}
		w.walkF(s, 0, forcedSucc(s, b))
	}
}

// reachable reports whether `to` can execute after `from` without passing an instruction for which avoid is true.
func reachable(from, to ssa.Instruction, avoid func(ssa.Instruction) bool) bool {
	found := false
	walkFrom(from, func(in ssa.Instruction) bool {
		if found {
			return false
		}
		if in == to {
			found = true
			return false
		}
		if avoid != nil && avoid(in) {
			return false
		}
		return true
	})
	return found
}

// escapesWithout returns an exit instruction (Return, or Panic if panicIsExit) reachable after
// `from` on a path that passes no instruction satisfying through; nil if every path passes one.
func escapesWithout(from ssa.Instruction, through func(ssa.Instruction) bool, panicIsExit bool) ssa.Instruction {
	var exit ssa.Instruction
	walkFrom(from, func(in ssa.Instruction) bool {
		if exit != nil {
			return false
		}
		if through(in) {
			return false
		}
		switch in.(type) {
		case *ssa.Return:
			exit = in
			return false
		case *ssa.Panic:
			if panicIsExit {
				exit = in
			}
			return false
		}
		return true
	})
	return exit
}

// escapesFromEntry is escapesWithout starting at the function entry.
func escapesFromEntry(fn *ssa.Function, through func(ssa.Instruction) bool, panicIsExit bool) ssa.Instruction {
	var exit ssa.Instruction
	walkFromEntry(fn, func(in ssa.Instruction) bool {
		if exit != nil {
			return false
		}
		if through(in) {
			return false
		}
		switch in.(type) {
		case *ssa.Return:
			exit = in
			return false
		case *ssa.Panic:
			if panicIsExit {
				exit = in
			}
			return false
		}
		return true
	})
	return exit
}

// ---------------------------------------------------------------------------
// guard facts

type guard struct {
	Cond ssa.Value
	Pol  bool
	If   *ssa.If
}

// rel is a normalised comparison fact.
type rel struct {
	X, Op, Y string
}

func (r rel) String() string { return r.X + " " + r.Op + " " + r.Y }

var negOp = map[string]string{"<": ">=", ">=": "<", ">": "<=", "<=": ">", "==": "!=", "!=": "=="}
var flipOp = map[string]string{"<": ">", ">": "<", "<=": ">=", ">=": "<=", "==": "==", "!=": "!="}

// guardsOf returns the branch conditions that hold whenever control is in block b
// (conditions of dominating Ifs whose taken edge dominates b).
func guardsOf(b *ssa.BasicBlock) []guard {
	out := guardsOfLocal(b)
	// inside a transparent helper: the guards of its call site hold, too
	for i := 0; i < 6 && activeProg != nil; i++ {
		site := activeProg.helperSite(b.Parent())
		if site == nil {
			break
		}
		if _, isCall := site.(*ssa.Call); !isCall {
			break
		}
		b = site.Block()
		out = append(out, guardsOfLocal(b)...)
	}
	// a guard on a boolean that is itself a short-circuit combination (ok := a && b; a predicate helper returning
	// a && b) is replaced by the guards it implies
	if activeProg != nil {
		var exp []guard
		var known []rel
		for _, g := range out {
			if r := activeProg.relOf(g); pureOperand.MatchString(r.X) && pureOperand.MatchString(r.Y) {
				known = append(known, r)
			}
		}
		for _, g := range out {
			if gs, ok := expandBoolGuardK(g, 0, known); ok {
				exp = append(exp, gs...)
			} else {
				exp = append(exp, g)
			}
		}
		out = exp
	}
	return out
}

// expandBoolGuard: the guard's condition resolves to a phi of booleans of which exactly one edge can yield the
// guarded polarity (the shape of a && b && … under true, of a || b || … under false): control then came through that
// edge, so the guards of that edge hold. Sound by construction; returns false if the shape is different.
func expandBoolGuard(g guard, depth int) ([]guard, bool) { return expandBoolGuardK(g, depth, nil) }

// expandBoolGuardK: as expandBoolGuard; an edge whose own guards contradict one of the known facts (comparisons over
// parameters and constants that hold where the guard is used) is not live either — `case a && b:` not taken and then
// `a` established leaves only the edge on which b was false.
func expandBoolGuardK(g guard, depth int, known []rel) ([]guard, bool) {
	p := activeProg
	if p == nil || depth > 3 {
		return nil, false
	}
	cond, pol := g.Cond, g.Pol
	for i := 0; i < 4; i++ {
		c := p.resolve(cond)
		if u, ok := c.(*ssa.UnOp); ok && u.Op == token.NOT {
			cond, pol = u.X, !pol
			continue
		}
		cond = c
		break
	}
	ph, ok := cond.(*ssa.Phi)
	if !ok {
		return nil, false
	}
	if bt, ok := ph.Type().Underlying().(*types.Basic); !ok || bt.Kind() != types.Bool {
		return nil, false
	}
	live := -1
	for i, e := range ph.Edges {
		if c, ok := constBool(p.resolve(e)); ok && c != pol {
			continue
		}
		if len(known) > 0 && !ph.Block().Dominates(ph.Block().Preds[i]) {
			pr := ph.Block().Preds[i]
			eg := guardsOfLocal(pr)
			if iff, ok := pr.Instrs[len(pr.Instrs)-1].(*ssa.If); ok && pr.Succs[0] != pr.Succs[1] {
				eg = append(eg, guard{Cond: iff.Cond, Pol: pr.Succs[0] == ph.Block(), If: iff})
			}
			refuted := false
			for _, x := range eg {
				r := p.relOf(x)
				if n, isCmp := negOp[r.Op]; isCmp && pureOperand.MatchString(r.X) && pureOperand.MatchString(r.Y) && holds(known, r.X, n, r.Y) {
					refuted = true
				}
			}
			if refuted {
				continue
			}
		}
		if live >= 0 {
			return nil, false
		}
		live = i
	}
	if live < 0 {
		return nil, false
	}
	pred := ph.Block().Preds[live]
	gs := guardsOfLocal(pred)
	if iff, ok := pred.Instrs[len(pred.Instrs)-1].(*ssa.If); ok && pred.Succs[0] != pred.Succs[1] {
		gs = append(gs, guard{Cond: iff.Cond, Pol: pred.Succs[0] == ph.Block(), If: iff})
	}
	if _, isC := constBool(p.resolve(ph.Edges[live])); !isC {
		gs = append(gs, guard{Cond: ph.Edges[live], Pol: pol, If: g.If})
	}
	var out []guard
	for _, x := range gs {
		if ys, ok := expandBoolGuard(x, depth+1); ok {
			out = append(out, ys...)
		} else {
			out = append(out, x)
		}
	}
	return out, true
}

func guardsOfLocal(b *ssa.BasicBlock) []guard {
	var out []guard
	for cur := b; cur != nil; cur = cur.Idom() {
		d := cur.Idom()
		if d == nil {
			break
		}
		out = append(out, mergeSyllogism(cur, out)...)
		iff, ok := d.Instrs[len(d.Instrs)-1].(*ssa.If)
		if !ok {
			continue
		}
		// cur is immediately dominated by d; the edge d->succ is decisive if succ dominates b and succ's only predecessor is d
		for i, s := range d.Succs {
			if len(s.Preds) == 1 && s.Dominates(b) && d.Succs[0] != d.Succs[1] {
				out = append(out, guard{Cond: iff.Cond, Pol: i == 0, If: iff})
			}
		}
	}
	return out
}

// mergeSyllogism: cur is a merge block with exactly two forward predecessors (the fall-through of a short-circuit
// case such as `case a && b:` — control arrives with ¬a, or with a ∧ ¬b). If what is known below cur (the guards in
// have, which hold wherever the block under consideration runs) contradicts a guard of one incoming edge, control came
// through the other edge, and that edge's guards hold. Only comparisons over parameters and constants are used for the
// contradiction (their rendering denotes one value throughout the call), and back edges are excluded.
var pureOperand = regexp.MustCompile(`^(\$[A-Za-z_][A-Za-z_0-9]*|-?[0-9]+)$`)

func mergeSyllogism(cur *ssa.BasicBlock, have []guard) []guard {
	p := activeProg
	if p == nil || len(cur.Preds) != 2 || len(have) == 0 {
		return nil
	}
	for _, pr := range cur.Preds {
		if cur.Dominates(pr) {
			return nil
		}
	}
	var haveRel []rel
	for _, g := range have {
		haveRel = append(haveRel, p.relOf(g))
	}
	edge := func(pr *ssa.BasicBlock) []guard {
		gs := guardsOfLocal(pr)
		if iff, ok := pr.Instrs[len(pr.Instrs)-1].(*ssa.If); ok && pr.Succs[0] != pr.Succs[1] {
			gs = append(gs, guard{Cond: iff.Cond, Pol: pr.Succs[0] == cur, If: iff})
		}
		return gs
	}
	refuted := func(gs []guard) bool {
		for _, g := range gs {
			r := p.relOf(g)
			if n, isCmp := negOp[r.Op]; isCmp && pureOperand.MatchString(r.X) && pureOperand.MatchString(r.Y) && holds(haveRel, r.X, n, r.Y) {
				return true
			}
		}
		return false
	}
	e0, e1 := edge(cur.Preds[0]), edge(cur.Preds[1])
	switch r0, r1 := refuted(e0), refuted(e1); {
	case r0 && !r1:
		return e1
	case r1 && !r0:
		return e0
	}
	return nil
}

// holdsViaMerges: pred holds of the facts on every way control can arrive at b, splitting at merge blocks — a block
// guarded by a disjunction (`if a || b { … }`) has no single dominating guard, but each of its incoming edges has one.
// Walks b's dominator chain; at a merge block whose predecessors are all forward edges, pred must hold for the facts
// of every incoming edge (or, recursively, for every way of arriving at that predecessor).
func (p *Program) holdsViaMerges(b *ssa.BasicBlock, pred func([]guard) bool, depth int) bool {
	if depth > 4 {
		return false
	}
	for cur := b; cur != nil; cur = cur.Idom() {
		if len(cur.Preds) < 2 {
			continue
		}
		all := true
		for _, pr := range cur.Preds {
			if cur.Dominates(pr) {
				all = false
				break
			}
			gs := append([]guard{}, guardsOf(pr)...)
			if iff, ok := pr.Instrs[len(pr.Instrs)-1].(*ssa.If); ok && pr.Succs[0] != pr.Succs[1] {
				gs = append(gs, guard{Cond: iff.Cond, Pol: pr.Succs[0] == cur, If: iff})
			}
			if !pred(gs) && !p.holdsViaMerges(pr, pred, depth+1) {
				all = false
				break
			}
		}
		if all {
			return true
		}
	}
	return false
}

// relOf normalises a guard to a comparison (or a boolean atom rendered as "<expr> == true").
func (p *Program) relOf(g guard) rel {
	cond, pol := g.Cond, g.Pol
	for {
		c := p.resolve(cond)
		if u, ok := c.(*ssa.UnOp); ok && u.Op == token.NOT {
			cond, pol = u.X, !pol
			continue
		}
		cond = c
		break
	}
	if b, ok := cond.(*ssa.BinOp); ok {
		op := b.Op.String()
		if _, isCmp := negOp[op]; isCmp {
			if !pol {
				op = negOp[op]
			}
			x, y := p.expr(b.X), p.expr(b.Y)
			// canonical orientation: a constant operand goes to the right (0 < len(x) reads len(x) > 0)
			if isConstRendering(x) && !isConstRendering(y) {
				x, y, op = y, x, flipOp[op]
				p.noteEnum(b.Y, x)
			} else if isConstRendering(y) {
				p.noteEnum(b.X, x)
			}
			return rel{x, op, y}
		}
	}
	if pol {
		return rel{p.expr(cond), "==", "true"}
	}
	return rel{p.expr(cond), "==", "false"}
}

// facts renders the guard facts of an instruction's block.
func (p *Program) facts(in ssa.Instruction) []rel {
	var out []rel
	for _, g := range guardsOf(in.Block()) {
		out = append(out, p.relOf(g))
	}
	return out
}

// holds reports whether the relation x op y is implied by one of the facts (syntactically, with
// operand flipping and the weakenings < ⇒ <=, < ⇒ !=, == ⇒ <=, == ⇒ >=).
func holds(facts []rel, x, op, y string) bool {
	if activeProg != nil && len(activeProg.enums) > 0 {
		facts = activeProg.withEnumFacts(facts)
	}
	for _, f := range facts {
		for _, c := range []rel{f, {f.Y, flipOp[f.Op], f.X}} {
			if c.X != x || c.Y != y {
				continue
			}
			if c.Op == op {
				return true
			}
			switch c.Op {
			case "<":
				if op == "<=" || op == "!=" {
					return true
				}
			case ">":
				if op == ">=" || op == "!=" {
					return true
				}
			case "==":
				if op == "<=" || op == ">=" {
					return true
				}
			}
		}
	}
	return false
}

func factsStr(facts []rel) string {
	var s []string
	for _, f := range facts {
		s = append(s, f.String())
	}
	return "{" + strings.Join(s, "; ") + "}"
}

// pathConds computes, for block target, the set of distinct literal sets over all acyclic
// paths from the entry (back edges removed). Only conditions accepted by keep are recorded.
// Each literal is rendered as a normalised relation string.
func (p *Program) pathConds(fn *ssa.Function, target *ssa.BasicBlock, keep func(r rel) bool) [][]string {
	// a target inside an inlined helper: the conditions to reach the call site, combined with those inside the helper
	if target.Parent() != fn {
		if site, ok := p.helperSite(target.Parent()).(*ssa.Call); ok && site != nil && p.within(target.Parent(), fn) {
			outer := p.pathConds(fn, site.Block(), keep)
			inner := p.pathConds(target.Parent(), target, keep)
			if len(outer) == 0 {
				outer = [][]string{{}}
			}
			if len(inner) == 0 {
				inner = [][]string{{}}
			}
			var out [][]string
			for _, a := range outer {
				for _, b := range inner {
					m := map[string]bool{}
					for _, x := range a {
						m[x] = true
					}
					for _, x := range b {
						m[x] = true
					}
					keys := make([]string, 0, len(m))
					for k := range m {
						keys = append(keys, k)
					}
					sort.Strings(keys)
					out = append(out, keys)
				}
			}
			return out
		}
	}
	type set = map[string]bool
	memo := map[*ssa.BasicBlock][]set{}
	done := map[*ssa.BasicBlock]bool{}
	var compute func(b *ssa.BasicBlock) []set
	compute = func(b *ssa.BasicBlock) []set {
		if done[b] {
			return memo[b]
		}
		done[b] = true
		if b == fn.Blocks[0] {
			memo[b] = []set{{}}
			return memo[b]
		}
		var res []set
		seenKey := map[string]bool{}
		for _, pr := range b.Preds {
			if b.Dominates(pr) { // back edge
				continue
			}
			var lit string
			if iff, ok := pr.Instrs[len(pr.Instrs)-1].(*ssa.If); ok && pr.Succs[0] != pr.Succs[1] {
				pol := pr.Succs[0] == b
				r := p.relOf(guard{Cond: iff.Cond, Pol: pol})
				if keep == nil || keep(r) {
					lit = r.String()
				}
			}
			for _, s := range compute(pr) {
				ns := set{}
				for k := range s {
					ns[k] = true
				}
				if lit != "" {
					ns[lit] = true
				}
				keys := make([]string, 0, len(ns))
				for k := range ns {
					keys = append(keys, k)
				}
				sort.Strings(keys)
				key := strings.Join(keys, " ∧ ")
				if !seenKey[key] {
					seenKey[key] = true
					res = append(res, ns)
				}
			}
		}
		memo[b] = res
		return res
	}
	var out [][]string
	for _, s := range compute(target) {
		keys := make([]string, 0, len(s))
		for k := range s {
			keys = append(keys, k)
		}
		sort.Strings(keys)
		out = append(out, keys)
	}
	sort.Slice(out, func(i, j int) bool { return strings.Join(out[i], "∧") < strings.Join(out[j], "∧") })
	return out
}

// ---------------------------------------------------------------------------
// loops

type loopInfo struct {
	Header *ssa.BasicBlock
	Body   map[*ssa.BasicBlock]bool // includes header
	Latch  []*ssa.BasicBlock
}

// loops returns the natural loops of fn (merged per header).
func loopsOf(fn *ssa.Function) []*loopInfo {
	byHeader := map[*ssa.BasicBlock]*loopInfo{}
	var order []*ssa.BasicBlock
	for _, b := range fn.Blocks {
		for _, s := range b.Succs {
			if s.Dominates(b) { // back edge b -> s
				li := byHeader[s]
				if li == nil {
					li = &loopInfo{Header: s, Body: map[*ssa.BasicBlock]bool{s: true}}
					byHeader[s] = li
					order = append(order, s)
				}
				li.Latch = append(li.Latch, b)
				// body: nodes that reach b without passing s
				stack := []*ssa.BasicBlock{b}
				for len(stack) > 0 {
					n := stack[len(stack)-1]
					stack = stack[:len(stack)-1]
					if li.Body[n] {
						continue
					}
					li.Body[n] = true
					for _, pr := range n.Preds {
						stack = append(stack, pr)
					}
				}
			}
		}
	}
	var out []*loopInfo
	for _, h := range order {
		out = append(out, byHeader[h])
	}
	return out
}

// ---------------------------------------------------------------------------
// misc

func constInt(v ssa.Value) (int64, bool) {
	c, ok := v.(*ssa.Const)
	if !ok || c.Value == nil || c.Value.Kind() != constant.Int {
		return 0, false
	}
	return c.Int64(), true
}

func constString(v ssa.Value) (string, bool) {
	c, ok := v.(*ssa.Const)
	if !ok || c.Value == nil || c.Value.Kind() != constant.String {
		return "", false
	}
	return constant.StringVal(c.Value), true
}

func constBool(v ssa.Value) (bool, bool) {
	c, ok := v.(*ssa.Const)
	if !ok || c.Value == nil || c.Value.Kind() != constant.Bool {
		return false, false
	}
	return constant.BoolVal(c.Value), true
}

func isNilConst(v ssa.Value) bool {
	c, ok := v.(*ssa.Const)
	return ok && c.Value == nil
}

// res returns the i-th result of a return instruction, looking through the result cells that
// go/ssa introduces in functions with defers (the value stored to the cell in the returning block).
func (p *Program) res(ret *ssa.Return, i int) ssa.Value {
	if ov, ok := p.retOverride[ret]; ok && i < len(ov) && !p.inOverride {
		return ov[i]
	}
	v := ret.Results[i]
	u, ok := v.(*ssa.UnOp)
	if !ok || u.Op != token.MUL {
		return v
	}
	a, ok := u.X.(*ssa.Alloc)
	if !ok {
		return v
	}
	instrs := ret.Block().Instrs
	for k := len(instrs) - 1; k >= 0; k-- {
		if st, ok := instrs[k].(*ssa.Store); ok && st.Addr == ssa.Value(a) {
			// a named result returned by name is loaded and stored back: look for the assignment that reaches it
			if ld, isLoad := st.Val.(*ssa.UnOp); isLoad && ld.Op == token.MUL {
				if a2, isAlloc := ld.X.(*ssa.Alloc); isAlloc {
					if rv := p.cellValueAt(a2, ld); rv != nil {
						return rv
					}
				}
			}
			return st.Val
		}
	}
	if rv := p.cellValueAt(a, u); rv != nil {
		return rv
	}
	return v
}

// cellValueAt: the value of a local cell (named result, captured variable) at instruction `at`, if one store to
// the cell dominates `at` and no other store can execute between the two; nil if that cannot be established.
func (p *Program) cellValueAt(a *ssa.Alloc, at ssa.Instruction) ssa.Value {
	if a.Referrers() == nil {
		return nil
	}
	var stores []*ssa.Store
	for _, ref := range *a.Referrers() {
		switch x := ref.(type) {
		case *ssa.Store:
			if x.Addr == ssa.Value(a) {
				stores = append(stores, x)
			}
		case *ssa.UnOp, *ssa.DebugRef:
		default:
			return nil // address taken: other writers are possible
		}
	}
	var last *ssa.Store
	for _, st := range stores {
		if st == at || !dominates(st, at) {
			continue
		}
		if last == nil || dominates(last, st) {
			last = st
		}
	}
	if last == nil {
		return nil
	}
	for _, st := range stores {
		if st != last && reachable(last, st, nil) && reachable(st, at, nil) {
			return nil
		}
	}
	if ld, isLoad := last.Val.(*ssa.UnOp); isLoad && ld.Op == token.MUL && ld.X == ssa.Value(a) {
		return nil
	}
	return last.Val
}

// panicType returns the dynamic type of a panic operand.
func panicType(pn *ssa.Panic) types.Type {
	if mi, ok := pn.X.(*ssa.MakeInterface); ok {
		return mi.X.Type()
	}
	return pn.X.Type()
}

// returnsOf lists the Return instructions of fn (excluding the synthetic recover block).
func returnsOf(fn *ssa.Function) []*ssa.Return {
	return returnsOfD(fn, 0)
}

// returnsOfD lists the returns of fn; a return that only forwards the results of an inlined helper
// (`return helper(…)`) is replaced by the returns of that helper, whose results, guards and position are the
// meaningful ones.
func returnsOfD(fn *ssa.Function, d int) []*ssa.Return {
	var out []*ssa.Return
	for _, b := range fn.Blocks {
		if len(b.Instrs) == 0 || b == fn.Recover {
			continue
		}
		r, ok := b.Instrs[len(b.Instrs)-1].(*ssa.Return)
		if !ok {
			continue
		}
		if h := forwardedHelper(r); h != nil && d < 4 {
			out = append(out, returnsOfD(h, d+1)...)
			continue
		}
		// partly forwarded (`return a, b, "", c` with a, b, c results of one inlined helper): one virtual return per
		// return of the helper, carrying the helper's values at the forwarded positions
		if c := partlyForwarded(r); c != nil && d < 4 && activeProg != nil {
			h := transparentCallee(c)
			hrs := returnsOfD(h, d+1)
			okAll := len(hrs) > 0
			for _, hr := range hrs {
				if _, taken := activeProg.retOverride[hr]; taken && activeProg.retOwner[hr] != r {
					okAll = false
				}
			}
			if okAll {
				for _, hr := range hrs {
					vec := make([]ssa.Value, len(r.Results))
					activeProg.inOverride = true
					for k, rs := range r.Results {
						if ex, ok := rs.(*ssa.Extract); ok && ex.Tuple == ssa.Value(c) && ex.Index < len(hr.Results) {
							vec[k] = activeProg.res(hr, ex.Index)
						} else {
							vec[k] = activeProg.res(r, k)
						}
					}
					activeProg.inOverride = false
					activeProg.retOverride[hr] = vec
					activeProg.retOwner[hr] = r
					out = append(out, hr)
				}
				continue
			}
		}
		out = append(out, r)
	}
	return out
}

// forwardedHelper: ret returns exactly the results of one call of a transparent helper, in order.
func forwardedHelper(ret *ssa.Return) *ssa.Function {
	if activeProg == nil || len(ret.Results) == 0 {
		return nil
	}
	var call *ssa.Call
	for k, rs := range ret.Results {
		var c *ssa.Call
		// a function with defers spills its results into cells before running them: the value stored last
		if ld, isLoad := rs.(*ssa.UnOp); isLoad && ld.Op == token.MUL {
			if cell, isCell := ld.X.(*ssa.Alloc); isCell {
				if v := activeProg.cellValueAt(cell, ret); v != nil {
					rs = v
				}
			}
		}
		switch x := rs.(type) {
		case *ssa.Call:
			if len(ret.Results) != 1 {
				return nil
			}
			c = x
		case *ssa.Extract:
			cc, ok := x.Tuple.(*ssa.Call)
			if !ok || x.Index != k {
				return nil
			}
			c = cc
		default:
			return nil
		}
		if call == nil {
			call = c
		} else if call != c {
			return nil
		}
	}
	if call == nil || call.Block() != ret.Block() || !nothingBetween(call, ret) {
		return nil
	}
	h := transparentCallee(call)
	if h == nil || h.Signature.Results().Len() != len(ret.Results) {
		return nil
	}
	return h
}

// nothingBetween: only value plumbing (extracts, conversions, run-defers) separates the call from the return of
// its block — the helper's returns then are the function's exits; with a call or store in between they are not.
func nothingBetween(call *ssa.Call, ret *ssa.Return) bool {
	b := ret.Block()
	seen := false
	for _, in := range b.Instrs {
		if in == ssa.Instruction(call) {
			seen = true
			continue
		}
		if !seen || in == ssa.Instruction(ret) {
			continue
		}
		switch x := in.(type) {
		case *ssa.Extract, *ssa.Convert, *ssa.ChangeType, *ssa.MakeInterface, *ssa.ChangeInterface, *ssa.DebugRef, *ssa.RunDefers:
		case *ssa.Store: // the call's result spilled into a result cell
			if _, isCell := x.Addr.(*ssa.Alloc); !isCell {
				return false
			}
			switch v := x.Val.(type) {
			case *ssa.Call:
				if v != call {
					return false
				}
			case *ssa.Extract:
				if v.Tuple != ssa.Value(call) {
					return false
				}
			default:
				return false
			}
		case *ssa.UnOp: // … and loaded back for the return
			if _, isCell := x.X.(*ssa.Alloc); !isCell || x.Op != token.MUL {
				return false
			}
		default:
			return false
		}
	}
	return seen
}

// extractOf returns the k-th result of a call value: the Extract instructions referring to it.
func extractsOf(call ssa.Value, k int) []*ssa.Extract {
	var out []*ssa.Extract
	if call == nil || call.Referrers() == nil {
		return nil
	}
	for _, r := range *call.Referrers() {
		if e, ok := r.(*ssa.Extract); ok && e.Index == k {
			out = append(out, e)
		}
	}
	return out
}

// isResultOf reports whether v (after resolution) is result #k of call (or the call itself for k<0 / single result).
func (p *Program) isResultOf(v ssa.Value, call ssa.Value, k int) bool {
	v = p.resolve(v)
	if e, ok := v.(*ssa.Extract); ok {
		return e.Tuple == call && e.Index == k
	}
	return v == call
}

// paramNamed returns the parameter of fn with the given name.
func paramNamed(fn *ssa.Function, name string) *ssa.Parameter {
	for _, pa := range fn.Params {
		if activeProg != nil {
			if activeProg.paramName(pa) == name {
				return pa
			}
			continue
		}
		if pa.Name() == name {
			return pa
		}
	}
	return nil
}

// paramName is the name a parameter is rendered with: for a function that existed on the pinned tree and still has
// the same number of parameters, the name the parameter at that position had there (known_params.txt) — renaming a
// parameter or receiver is invisible to the rules; otherwise its current name.
func (p *Program) paramName(x *ssa.Parameter) string {
	fn := x.Parent()
	if fn == nil {
		return x.Name()
	}
	names, ok := knownParams[p.fnName(fn)]
	if !ok || len(names) != len(fn.Params) {
		return x.Name()
	}
	for k, q := range fn.Params {
		if q == x {
			if names[k] == "_" || names[k] == "" {
				return x.Name()
			}
			return names[k]
		}
	}
	return x.Name()
}

// fieldName of a FieldAddr.
func fieldAddrName(fa *ssa.FieldAddr) string {
	st := deref(fa.X.Type()).Underlying().(*types.Struct)
	return st.Field(fa.Field).Name()
}

// structName of the struct a FieldAddr selects from ("T", "shrinker", …), "" if unnamed.
func (p *Program) fieldAddrOwner(fa *ssa.FieldAddr) string {
	t := deref(fa.X.Type())
	if n, ok := t.(*types.Named); ok {
		return n.Obj().Name()
	}
	return ""
}

// variadicArgs returns the values packed into the variadic slice argument v (a slice of a local
// array filled by stores), in index order; nil if v is not such a slice.
func (p *Program) variadicArgs(v ssa.Value) []ssa.Value {
	sl, ok := v.(*ssa.Slice)
	if !ok {
		return nil
	}
	al, ok := sl.X.(*ssa.Alloc)
	if !ok || al.Referrers() == nil {
		return nil
	}
	vals := map[int64]ssa.Value{}
	max := int64(-1)
	for _, r := range *al.Referrers() {
		ia, ok := r.(*ssa.IndexAddr)
		if !ok || ia.Referrers() == nil {
			continue
		}
		idx, ok := constInt(ia.Index)
		if !ok {
			return nil
		}
		for _, rr := range *ia.Referrers() {
			if st, ok := rr.(*ssa.Store); ok && st.Addr == ssa.Value(ia) {
				vals[idx] = st.Val
				if idx > max {
					max = idx
				}
			}
		}
	}
	out := make([]ssa.Value, max+1)
	for i := range out {
		out[i] = vals[int64(i)]
	}
	return out
}

// verbIndex returns the index of the formatting verb that immediately follows marker in format
// (counting verbs from 0, ignoring %%); -1 if marker is absent or not followed by a verb.
func verbIndex(format, marker string) int {
	at := strings.Index(format, marker)
	if at < 0 {
		return -1
	}
	at += len(marker)
	n := 0
	for i := 0; i < len(format); i++ {
		if format[i] != '%' {
			continue
		}
		if i+1 < len(format) && format[i+1] == '%' {
			i++
			continue
		}
		if i == at {
			return n
		}
		n++
	}
	return -1
}

// evalAtEntry folds an integer expression with every phi replaced by its value on the edge
// coming from outside the loop (the first iteration). ok=false if not foldable.
func (p *Program) evalAtEntry(v ssa.Value, depth int) (int64, bool) {
	if depth > 12 {
		return 0, false
	}
	v = p.stripConv(v)
	switch x := v.(type) {
	case *ssa.Const:
		return constInt(x)
	case *ssa.Phi:
		// entry edges: predecessors not dominated by the phi's block
		var val *int64
		for i, e := range x.Edges {
			pred := x.Block().Preds[i]
			if x.Block().Dominates(pred) {
				continue
			}
			c, ok := p.evalAtEntry(e, depth+1)
			if !ok {
				return 0, false
			}
			if val != nil && *val != c {
				return 0, false
			}
			val = &c
		}
		if val == nil {
			return 0, false
		}
		return *val, true
	case *ssa.BinOp:
		a, ok1 := p.evalAtEntry(x.X, depth+1)
		b, ok2 := p.evalAtEntry(x.Y, depth+1)
		if !ok1 || !ok2 {
			return 0, false
		}
		switch x.Op {
		case token.ADD:
			return a + b, true
		case token.SUB:
			return a - b, true
		case token.MUL:
			return a * b, true
		}
	}
	return 0, false
}

// inLoopWith reports whether instructions a and b are in the body of a common natural loop.
func inLoopWith(a, b ssa.Instruction) *loopInfo {
	for _, l := range loopsOf(a.Parent()) {
		if l.Body[a.Block()] && l.Body[b.Block()] {
			return l
		}
	}
	return nil
}

// derivesFrom reports whether v is the named load, possibly divided by constants and merged by phis.
func (p *Program) derivesFrom(v ssa.Value, leaf string, depth int) bool {
	if depth > 6 {
		return false
	}
	v = p.resolve(v)
	switch x := v.(type) {
	case *ssa.Phi:
		for _, e := range x.Edges {
			if !p.derivesFrom(e, leaf, depth+1) {
				return false
			}
		}
		return true
	case *ssa.BinOp:
		if x.Op != token.QUO {
			return false
		}
		if _, ok := constInt(p.resolve(x.Y)); !ok {
			return false
		}
		return p.derivesFrom(x.X, leaf, depth+1)
	case *ssa.UnOp:
		return p.expr(x) == leaf
	case *ssa.Call:
		// computed by an inlined helper with several returns: every returned value derives from the leaf
		if sc := x.Common().StaticCallee(); sc != nil && p.transparent(sc) && sc.Signature.Results().Len() == 1 {
			if o := sc.Origin(); o != nil {
				sc = o
			}
			rets := returnsOf(sc)
			for _, ret := range rets {
				if !p.derivesFrom(p.res(ret, 0), leaf, depth+1) {
					return false
				}
			}
			return len(rets) > 0
		}
	}
	return false
}

// inLoop reports whether instruction in executes inside loop l (lifting it out of transparent helpers
// to the function that contains the loop).
func (p *Program) inLoop(l *loopInfo, in ssa.Instruction) bool {
	if l == nil || in == nil {
		return false
	}
	li := p.liftTo(in, l.Header.Parent())
	if li == nil {
		return false
	}
	return l.Body[li.Block()]
}

// fieldSources lists the values that can have been stored into the struct field addressed by fa, when the struct
// lives in a local cell (Alloc) that is only assigned as a whole or field by field: stores to that field, and the
// corresponding field of every whole-struct value stored to the cell (another local struct, or the struct returned
// by a transparent helper). ok=false if the cell escapes or a source cannot be followed.
func (p *Program) fieldSources(fa *ssa.FieldAddr, d int) ([]ssa.Value, bool) {
	if d > 14 {
		return nil, false
	}
	base := fa.X
	// the cell may be a helper parameter / closure binding: resolve the pointer
	if rb := p.resolve(base); rb != nil {
		base = rb
	}
	al, ok := base.(*ssa.Alloc)
	if !ok || al.Referrers() == nil {
		return nil, false
	}
	var out []ssa.Value
	for _, ref := range *al.Referrers() {
		switch x := ref.(type) {
		case *ssa.DebugRef:
		case *ssa.UnOp: // whole-struct load
		case *ssa.FieldAddr:
			if x.Field != fa.Field || x.Referrers() == nil {
				continue
			}
			for _, r2 := range *x.Referrers() {
				switch y := r2.(type) {
				case *ssa.Store:
					if y.Addr == ssa.Value(x) {
						out = append(out, y.Val)
					} else {
						return nil, false
					}
				case *ssa.UnOp, *ssa.DebugRef:
				default:
					return nil, false // address of the field escapes
				}
			}
		case *ssa.Store:
			if x.Addr != ssa.Value(al) {
				return nil, false
			}
			// whole-struct assignment: the field of the stored value
			srcs, ok := p.fieldOfValue(x.Val, fa.Field, d+1)
			if !ok {
				return nil, false
			}
			out = append(out, srcs...)
		default:
			return nil, false
		}
	}
	return out, len(out) > 0
}

// fieldOfValue: the possible values of field #field of the struct value v.
func (p *Program) fieldOfValue(v ssa.Value, field int, d int) ([]ssa.Value, bool) {
	if d > 14 {
		return nil, false
	}
	switch x := v.(type) {
	case *ssa.UnOp:
		if x.Op == token.MUL {
			if al, ok := p.resolve(x.X).(*ssa.Alloc); ok {
				// load of a local struct: field sources of that cell
				tmp := &ssa.FieldAddr{X: al, Field: field}
				return p.fieldSources(tmp, d+1)
			}
		}
	case *ssa.Call:
		sc := x.Common().StaticCallee()
		if sc != nil && p.transparent(sc) && sc.Signature.Results().Len() == 1 {
			if o := sc.Origin(); o != nil {
				sc = o
			}
			var out []ssa.Value
			for _, ret := range returnsOf(sc) {
				srcs, ok := p.fieldOfValue(p.res(ret, 0), field, d+1)
				if !ok {
					return nil, false
				}
				out = append(out, srcs...)
			}
			return out, len(out) > 0
		}
	case *ssa.Parameter:
		// a struct parameter of an inlined helper: the argument
		if rv := p.resolve(x); rv != ssa.Value(x) {
			return p.fieldOfValue(rv, field, d+1)
		}
	case *ssa.Phi:
		var out []ssa.Value
		for _, e := range x.Edges {
			srcs, ok := p.fieldOfValue(e, field, d+1)
			if !ok {
				return nil, false
			}
			out = append(out, srcs...)
		}
		return out, len(out) > 0
	}
	return nil, false
}

// isConstRendering: the rendered operand is a literal (number, string, nil, true/false).
func isConstRendering(s string) bool {
	if s == "nil" || s == "true" || s == "false" || s == "" {
		return true
	}
	c := s[0]
	return c == '"' || c == '-' || (c >= '0' && c <= '9')
}

// is reports whether the relation is x op y, in either orientation.
func (r rel) is(x, op, y string) bool {
	return (r.X == x && r.Op == op && r.Y == y) || (r.X == y && flipOp[r.Op] == op && r.Y == x)
}

// isEq reports whether v is the comparison a == b of the two rendered operands, in either order.
func (p *Program) isEq(v ssa.Value, a, b string) bool {
	bo, ok := p.resolve(v).(*ssa.BinOp)
	if !ok || bo.Op != token.EQL {
		return false
	}
	x, y := p.expr(bo.X), p.expr(bo.Y)
	return (x == a && y == b) || (x == b && y == a)
}

// resultCellIndex: addr (an Alloc, or a free variable bound to one) is the cell of a named result of fn; returns
// its index, -1 otherwise. The cell is recognised by the returns of fn loading it at that position.
func (p *Program) resultCellIndex(addr ssa.Value, fn *ssa.Function) int {
	// a pointer parameter of a function that is only ever deferred with the address of a cell (defer f(&buf, &err))
	if par, ok := addr.(*ssa.Parameter); ok && par.Parent() != nil {
		if ci := p.callerIndex()[par.Parent()]; ci != nil && !ci.valueUse && len(ci.sites) == 1 {
			if d, ok := ci.sites[0].(*ssa.Defer); ok {
				for k, q := range par.Parent().Params {
					if q == par && k < len(d.Common().Args) {
						addr = d.Common().Args[k]
					}
				}
			}
		}
	}
	ci := p.cellOf(addr)
	if ci == nil || fn == nil {
		return -1
	}
	for _, ret := range returnsOf(fn) {
		for k, rs := range ret.Results {
			if u, ok := rs.(*ssa.UnOp); ok && p.cellOf(u.X) == ci {
				return k
			}
		}
	}
	return -1
}

// nres is the number of results of a (possibly virtual, see returnsOf) return.
func (p *Program) nres(ret *ssa.Return) int {
	if ov, ok := p.retOverride[ret]; ok {
		return len(ov)
	}
	return len(ret.Results)
}

// partlyForwarded: at least one result of ret is an Extract of a call of an inlined helper in the same block, all such
// extracts come from that one call, and the return is not a pure forward.
func partlyForwarded(ret *ssa.Return) *ssa.Call {
	var call *ssa.Call
	for _, rs := range ret.Results {
		ex, ok := rs.(*ssa.Extract)
		if !ok {
			continue
		}
		c, ok := ex.Tuple.(*ssa.Call)
		if !ok || transparentCallee(c) == nil {
			continue
		}
		if call != nil && call != c {
			return nil
		}
		call = c
	}
	if call == nil || call.Block() != ret.Block() || !nothingBetween(call, ret) {
		return nil
	}
	return call
}

// evalWith folds an integer expression; leaves are valued by f (which may decline).
func (p *Program) evalWith(v ssa.Value, f func(ssa.Value) (int64, bool), depth int) (int64, bool) {
	if depth > 12 {
		return 0, false
	}
	v = p.stripConv(v)
	if c, ok := f(v); ok {
		return c, true
	}
	switch x := v.(type) {
	case *ssa.Const:
		return constInt(x)
	case *ssa.BinOp:
		a, ok1 := p.evalWith(x.X, f, depth+1)
		b, ok2 := p.evalWith(x.Y, f, depth+1)
		if !ok1 || !ok2 {
			return 0, false
		}
		switch x.Op {
		case token.ADD:
			return a + b, true
		case token.SUB:
			return a - b, true
		case token.MUL:
			return a * b, true
		case token.QUO:
			if b == 0 {
				return 0, false
			}
			return a / b, true
		case token.REM:
			if b == 0 {
				return 0, false
			}
			return a % b, true
		case token.SHR:
			if b < 0 || b > 62 {
				return 0, false
			}
			return a >> uint(b), true
		case token.SHL:
			if b < 0 || b > 62 {
				return 0, false
			}
			return a << uint(b), true
		}
	}
	return 0, false
}

// reachingStore: the value a load of a multi-store cell sees, when it is decidable: every store is in the function
// that owns the cell, the load is there too or inside a literal invoked on the spot (located by its call), one store
// dominates the load and no other store can run between the two.
func (p *Program) reachingStore(ci *cellInfo, ld *ssa.UnOp) ssa.Value {
	owner := ci.alloc.Parent()
	if owner == nil || len(ci.stores) == 0 || len(ci.stores) > 8 {
		return nil
	}
	for _, st := range ci.stores {
		if st.Parent() != owner {
			return nil
		}
	}
	var at ssa.Instruction = ld
	if ld.Parent() != owner {
		if !p.transparent(ld.Parent()) {
			return nil
		}
		at = p.liftTo(ld, owner)
		if at == nil {
			return nil
		}
	} else {
		// only cells that exist because of such a literal: plain locals never reach this point (they are SSA values)
		captured := false
		if refs := ci.alloc.Referrers(); refs != nil {
			for _, r := range *refs {
				if mc, ok := r.(*ssa.MakeClosure); ok && immediatelyInvoked(mc) {
					captured = true
				}
			}
		}
		if !captured {
			return nil
		}
	}
	var last *ssa.Store
	for _, st := range ci.stores {
		if ssa.Instruction(st) == at || !dominates(st, at) {
			continue
		}
		if last == nil || dominates(last, st) {
			last = st
		}
	}
	if last == nil {
		return nil
	}
	for _, st := range ci.stores {
		if st != last && reachable(last, st, nil) && reachable(st, at, nil) {
			return nil
		}
	}
	if l2, isLoad := last.Val.(*ssa.UnOp); isLoad && l2.Op == token.MUL && l2.X == ssa.Value(ci.alloc) {
		return nil
	}
	return last.Val
}

// Enum-valued classification helpers: `switch verdictOf(err) { case passed: … case invalid: … }` with
// `func verdictOf(err *testError) caseVerdict { if err == nil { return passed }; if err.isInvalidData() { return invalid }; return failed }`.
// A branch fact "verdictOf(e) == K" then stands for the guards under which the helper returns K, and the facts
// "verdictOf(e) != K" for all but one K for the guards of the remaining return. noteEnum records, for a compared value
// that is the result of an inlined helper all of whose returns are constants, the constant and guard facts of every
// return; withEnumFacts adds the implied facts.
type enumAlt struct {
	k      string
	facts  []rel
	guards []guard // the same as SSA guards (of the helper's return), for value-identity tests
}

func (p *Program) noteEnum(v ssa.Value, rendered string) {
	if p.enums == nil {
		p.enums = map[string][]enumAlt{}
	}
	if _, done := p.enums[rendered]; done || p.inNoteEnum {
		return
	}
	c, ok := p.resolve(v).(*ssa.Call)
	if !ok {
		return
	}
	sc := c.Common().StaticCallee()
	if sc == nil || !p.transparent(sc) || sc.Signature.Results().Len() != 1 {
		return
	}
	p.inNoteEnum = true
	defer func() { p.inNoteEnum = false }()
	alts := p.alternatives(c, 0)
	if len(alts) < 2 || len(alts) > 8 {
		return
	}
	var out []enumAlt
	seen := map[string]bool{}
	for _, a := range alts {
		k, isK := p.resolve(a.Val).(*ssa.Const)
		if !isK {
			return
		}
		ks := p.expr(k)
		if seen[ks] {
			return // two returns of one constant: the fact would be a disjunction
		}
		seen[ks] = true
		ea := enumAlt{k: ks, facts: a.Facts}
		if ret, isRet := a.Pos.(*ssa.Return); isRet {
			ea.guards = guardsOf(ret.Block())
		}
		out = append(out, ea)
	}
	p.enums[rendered] = out
}

func (p *Program) withEnumFacts(facts []rel) []rel {
	var extra []rel
	excluded := map[string]map[string]bool{}
	for _, f := range facts {
		alts, ok := p.enums[f.X]
		if !ok {
			continue
		}
		switch f.Op {
		case "==":
			for _, a := range alts {
				if a.k == f.Y {
					extra = append(extra, a.facts...)
				}
			}
		case "!=":
			if excluded[f.X] == nil {
				excluded[f.X] = map[string]bool{}
			}
			excluded[f.X][f.Y] = true
		}
	}
	for x, ex := range excluded {
		var rest []enumAlt
		for _, a := range p.enums[x] {
			if !ex[a.k] {
				rest = append(rest, a)
			}
		}
		if len(rest) == 1 {
			extra = append(extra, rest[0].facts...)
		}
	}
	if len(extra) == 0 {
		return facts
	}
	return append(append([]rel{}, facts...), extra...)
}

// enumSelection: which returns of enum-valued helpers the facts select (one alternative per compared value, when
// decided), and whether some compared value has no alternative left (the edge is infeasible: a switch over all
// constants of the enum without default).
func (p *Program) enumSelection(facts []rel) (selected []enumAlt, infeasible bool) {
	if len(p.enums) == 0 {
		return nil, false
	}
	excluded := map[string]map[string]bool{}
	for _, f := range facts {
		alts, ok := p.enums[f.X]
		if !ok {
			continue
		}
		switch f.Op {
		case "==":
			for _, a := range alts {
				if a.k == f.Y {
					selected = append(selected, a)
				}
			}
		case "!=":
			if excluded[f.X] == nil {
				excluded[f.X] = map[string]bool{}
			}
			excluded[f.X][f.Y] = true
		}
	}
	for x, ex := range excluded {
		var rest []enumAlt
		for _, a := range p.enums[x] {
			if !ex[a.k] {
				rest = append(rest, a)
			}
		}
		switch len(rest) {
		case 0:
			infeasible = true
		case 1:
			selected = append(selected, rest[0])
		}
	}
	return selected, infeasible
}

// enumGuards: the guards implied for block b by comparisons of enum-valued helper results among its guards.
func (p *Program) enumGuards(b *ssa.BasicBlock) []guard {
	if len(p.enums) == 0 {
		return nil
	}
	var facts []rel
	for _, g := range guardsOf(b) {
		facts = append(facts, p.relOf(g))
	}
	sel, _ := p.enumSelection(facts)
	var out []guard
	for _, a := range sel {
		out = append(out, a.guards...)
	}
	return out
}

// structFieldValue: the one value field fa.Field of the struct local fa.X holds, when that is decidable: the local is
// only read, written field by field exactly once per field (a composite literal), or assigned as a whole exactly once
// from another such local (a by-value parameter or receiver of an inlined helper). nil otherwise.
func (p *Program) structFieldValue(fa *ssa.FieldAddr, d int) ssa.Value {
	al, ok := fa.X.(*ssa.Alloc)
	if !ok || d > 4 || al.Referrers() == nil {
		return nil
	}
	if _, isStruct := deref(al.Type()).Underlying().(*types.Struct); !isStruct {
		return nil
	}
	var whole []*ssa.Store
	fieldStores := map[int][]*ssa.Store{}
	nFieldStores := 0
	for _, ref := range *al.Referrers() {
		switch x := ref.(type) {
		case *ssa.DebugRef:
		case *ssa.UnOp:
			if x.Op != token.MUL {
				return nil
			}
		case *ssa.Store:
			if x.Addr != ssa.Value(al) {
				return nil // the address itself is stored somewhere
			}
			whole = append(whole, x)
		case *ssa.FieldAddr:
			if x.Referrers() == nil {
				continue
			}
			for _, r2 := range *x.Referrers() {
				switch y := r2.(type) {
				case *ssa.DebugRef:
				case *ssa.UnOp:
					if y.Op != token.MUL {
						return nil
					}
				case *ssa.Store:
					if y.Addr != ssa.Value(x) {
						return nil
					}
					fieldStores[x.Field] = append(fieldStores[x.Field], y)
					nFieldStores++
				default:
					return nil // the field's address is used otherwise (passed on, indexed, …)
				}
			}
		default:
			return nil
		}
	}
	switch {
	case len(whole) == 0 && len(fieldStores[fa.Field]) == 1:
		return fieldStores[fa.Field][0].Val
	case len(whole) == 1 && nFieldStores == 0:
		src, isLoad := p.resolve(whole[0].Val).(*ssa.UnOp)
		if !isLoad || src.Op != token.MUL {
			return nil
		}
		from, isAl := src.X.(*ssa.Alloc)
		if !isAl || from == al || from.Referrers() == nil {
			return nil
		}
		for _, ref := range *from.Referrers() {
			if fa2, ok := ref.(*ssa.FieldAddr); ok && fa2.Field == fa.Field {
				return p.structFieldValue(fa2, d+1)
			}
		}
	}
	return nil
}
