package main

import (
	"fmt"
	"go/token"
	"sort"
	"strings"

	"golang.org/x/tools/go/ssa"
)

// ruleNoFailureDiscarded (C04-R4.10, and through the prune bundle C01-R3, C05-R7, C06-R11, C11-R7): a non-fatal failure (Errorf/Error/Fail on the T in hand) that is
// signalled while a rejected attempt is being produced — by a Filter predicate, a key function, a Map function of an
// element generator — sets T.failed and lets the attempt go on. If the attempt is then rejected, its group is closed
// as discarded and prune() removes its bits: the buffer that Check presents and saves no longer runs the code that
// signalled the failure, the replay passes, and a deterministic property is reported with a test case that does not
// fail (or as flaky). Necessary condition decided here: in every function that marks a group as discarded — a call of
// (*repeat).reject, or an endGroup whose discard flag is not the constant false — every path from a call that can run
// user code (a generator's value(), a call of a function value) to the discard consults the flag first
// ((*T).failOnError, which stops the test case there and leaves the group open, i.e. kept).
//
// Not decided: that the T consulted is the one user code can reach (a predicate that captured an outer T while the
// generator runs under the inner T of a Custom function).
var discardExempt = map[string]string{
	"(*T).Repeat": "the step's user code runs in runAction, whose invalidData filter consults the flag before the skip is reported (C08-R6)",
	"genAnyMap$1": "keys and values come from newMakeGen: reflection-built generators without user functions",
}

type discardSite struct {
	viaHelper bool // the discard happens inside a straight-line helper called here
	in        ssa.CallInstruction
	discard   ssa.Value // nil: unconditional (reject)
	hasUser   bool      // the function calls user code at all
	bad       string    // non-empty: a path from user code reaches the discard without a consultation
	complete  bool
}

func (p *Program) consultsFlag(ci ssa.CallInstruction) bool {
	c := ci.Common()
	if p.calleeKey(c) == "(*T).failOnError" {
		return true
	}
	// a helper in which failOnError dominates every return
	if sc := c.StaticCallee(); sc != nil && p.inRapid(sc) && sc.Blocks != nil {
		for _, b := range sc.Blocks {
			for _, in := range b.Instrs {
				if c2, ok := in.(*ssa.Call); ok && p.calleeKey(c2.Common()) == "(*T).failOnError" {
					all := true
					for _, ret := range returnsOf(sc) {
						if !b.Dominates(ret.Block()) {
							all = false
						}
					}
					if all {
						return true
					}
				}
			}
		}
	}
	return false
}

func (p *Program) callsUserCode(ci ssa.CallInstruction) bool {
	key := p.calleeKey(ci.Common())
	if strings.HasPrefix(key, "dyn:") {
		return true
	}
	return strings.HasSuffix(key, ").value") && strings.HasPrefix(key, "(*Generator")
}

// discardSites evaluates every discard site of fn (see ruleNoFailureDiscarded).
func (p *Program) discardSites(fn *ssa.Function) []discardSite {
	if fn == nil || fn.Blocks == nil {
		return nil
	}
	var sites []discardSite
	hasUser := false
	for _, b := range fn.Blocks {
		for _, in := range b.Instrs {
			ci, ok := in.(ssa.CallInstruction)
			if !ok {
				continue
			}
			c := ci.Common()
			key := p.calleeKey(c)
			switch {
			case key == "(*repeat).reject":
				sites = append(sites, discardSite{in: ci})
			case p.rejectingHelper(ci) != nil:
				// a straight-line helper of the package that rejects (rejectElem): the call is the discard site; whether the
				// helper consults the flag before it rejects is read off its instruction order
				sites = append(sites, discardSite{in: ci, viaHelper: true})
			case strings.HasSuffix(key, ".endGroup") && len(c.Args) >= 1:
				d := c.Args[len(c.Args)-1]
				if bv, isB := constBool(p.resolve(d)); isB && !bv {
					continue
				}
				sites = append(sites, discardSite{in: ci, discard: d})
			}
			if p.callsUserCode(ci) {
				hasUser = true
			}
		}
	}
	for k := range sites {
		s := &sites[k]
		s.hasUser = hasUser
		s.complete = true
		if !hasUser {
			continue
		}
		from := fn.Blocks[0]
		if l := innermostLoop(s.in); l != nil {
			from = l.Header
		}
		s.complete = p.pathsFrom(from, 4000, func(cp *cfgPath, back bool) {
			if s.bad != "" || cp.infeasible || !cp.contains(s.in) {
				return
			}
			pending := token.NoPos
			blocks := cp.blocks
			if back {
				blocks = blocks[:len(blocks)-1]
			}
			for _, b := range blocks {
				for _, in := range b.Instrs {
					ci, ok := in.(ssa.CallInstruction)
					if !ok {
						continue
					}
					if in == ssa.Instruction(s.in) {
						if s.viaHelper && p.helperConsultsBeforeReject(ci) {
							return
						}
						if pending == token.NoPos {
							return
						}
						if s.discard != nil {
							if v, known := cp.eval(s.discard); known && !v {
								return
							}
						}
						s.bad = fmt.Sprintf("user code called at %s, path %s", p.pos(pending), cp)
						return
					}
					if _, isDefer := in.(*ssa.Defer); isDefer {
						continue
					}
					switch {
					case p.consultsFlag(ci):
						pending = token.NoPos
					case p.callsUserCode(ci):
						pending = in.Pos()
						if pending == token.NoPos {
							pending = fn.Pos()
						}
					}
				}
			}
		})
	}
	return sites
}

// findConsultsBeforeDiscard: every discard site of find consults the failure flag first (decided, not assumed).
func (p *Program) findConsultsBeforeDiscard() bool {
	fn := p.Fn("find")
	sites := p.discardSites(fn)
	if len(sites) == 0 {
		return false
	}
	for _, s := range sites {
		if !s.hasUser || !s.complete || s.bad != "" {
			return false
		}
	}
	return true
}

func ruleNoFailureDiscarded(r *Run) {
	p := r.P
	n, nUser := 0, 0
	var fns []*ssa.Function
	for _, fn := range p.FuncList {
		fns = append(fns, fn)
	}
	sort.Slice(fns, func(i, j int) bool { return fns[i].Pos() < fns[j].Pos() })
	for _, fn := range fns {
		sites := p.discardSites(fn)
		if len(sites) == 0 {
			continue
		}
		name := p.fnName(fn)
		n += len(sites)
		for k, s := range sites {
			if !s.hasUser {
				continue // no user code can have run in this function (bit-level retry loops)
			}
			nUser++
			construct := fmt.Sprintf("%s#discard", name)
			if k > 0 {
				construct = fmt.Sprintf("%s#discard[%d]", name, k)
			}
			if why, ok := discardExempt[name]; ok {
				r.OK(construct, s.in.Pos(), "exempt: "+why)
				continue
			}
			if !s.complete {
				r.Undecided(construct, s.in.Pos(), "too many paths to the discard in "+name)
				continue
			}
			r.Check(construct, s.in.Pos(), s.bad == "", "every path from user code (generator values, function values) to this discard consults the failure flag first: a failure signalled in a rejected attempt stops the test case with the attempt's bits kept",
				"a rejected attempt is discarded in "+name+" without consulting the failure flag ("+s.bad+"): a non-fatal failure signalled by user code inside the attempt (t.Errorf in a Filter predicate / key function / Map function) survives in T.failed while prune() drops the bits that led to it — the presented and saved test case does not fail")
		}
	}
	r.Floor("discard sites (reject / endGroup with a discard flag)", n, 8)
	r.Floor("discard sites in functions that call user code", nUser, 5)
}

// ruleNoOnceAroundUserCode (C01-R13, C04-R7): sync.Once.Do counts a call that panicked as done. A Do function that runs
// user code (a function value) and publishes its result therefore behaves differently after a first panic: the test
// case that met the panic reports it, every later one (the reproduction, the minimisation) meets the half-initialised
// object instead — a deterministic property is reported as flaky, and the same bits give another verdict.
func ruleNoOnceAroundUserCode(r *Run) {
	p := r.P
	n := 0
	for _, fn := range p.allFuncs() {
		for _, cs := range p.callsTo(fn, "(*sync.Once).Do") {
			n++
			construct := p.hostName(fn) + "#" + strings.TrimPrefix(p.expr(cs.Recv()), "&") + ".Do"
			var body *ssa.Function
			switch a := p.resolve(cs.Arg(0)).(type) {
			case *ssa.MakeClosure:
				body, _ = a.Fn.(*ssa.Function)
			case *ssa.Function:
				body = a
			}
			if body == nil {
				r.Undecided(construct, cs.Instr.Pos(), "the function passed to Do is not a literal or a method value")
				continue
			}
			bad := ""
			seen := map[*ssa.Function]bool{}
			var visit func(f *ssa.Function, d int)
			visit = func(f *ssa.Function, d int) {
				if f == nil || seen[f] || d > 4 || f.Blocks == nil {
					return
				}
				seen[f] = true
				for _, b := range f.Blocks {
					for _, in := range b.Instrs {
						ci, ok := in.(ssa.CallInstruction)
						if !ok {
							continue
						}
						key := p.calleeKey(ci.Common())
						if strings.HasPrefix(key, "dyn:") {
							bad = key + " at " + p.pos(in.Pos())
							continue
						}
						if sc := ci.Common().StaticCallee(); sc != nil && p.inRapid(sc) {
							if o := sc.Origin(); o != nil {
								sc = o
							}
							visit(sc, d+1)
						}
					}
				}
			}
			visit(body, 0)
			r.Check(construct, cs.Instr.Pos(), bad == "", "the Do function calls no function value: it cannot be cut short by a panic of user code",
				"the function run under "+p.expr(cs.Recv())+".Do calls user code ("+bad+"): if it panics, Once never runs it again and what it was to publish stays unset — the next test case (the reproduction) fails differently and a deterministic property is called flaky")
		}
	}
	r.Floor("sync.Once.Do calls", n, 1)
}

// rejectingHelper: ci calls a single-block function of the package that calls (*repeat).reject; returns it.
func (p *Program) rejectingHelper(ci ssa.CallInstruction) *ssa.Function {
	sc := ci.Common().StaticCallee()
	if sc == nil || !p.inRapid(sc) {
		return nil
	}
	if o := sc.Origin(); o != nil {
		sc = o
	}
	if len(sc.Blocks) != 1 || p.fnName(sc) == "(*repeat).reject" {
		return nil
	}
	for _, in := range sc.Blocks[0].Instrs {
		if c, ok := in.(*ssa.Call); ok && p.calleeKey(c.Common()) == "(*repeat).reject" {
			return sc
		}
	}
	return nil
}

// helperConsultsBeforeReject: in the straight-line helper called by ci, failOnError comes before reject and no user
// code runs between them.
func (p *Program) helperConsultsBeforeReject(ci ssa.CallInstruction) bool {
	h := p.rejectingHelper(ci)
	if h == nil {
		return false
	}
	consulted := false
	for _, in := range h.Blocks[0].Instrs {
		c, ok := in.(*ssa.Call)
		if !ok {
			continue
		}
		switch {
		case p.calleeKey(c.Common()) == "(*T).failOnError":
			consulted = true
		case p.calleeKey(c.Common()) == "(*repeat).reject":
			return consulted
		case p.callsUserCode(c):
			consulted = false
		}
	}
	return false
}
