package main

import (
	"fmt"
	"go/token"
	"regexp"
	"strings"

	"golang.org/x/tools/go/ssa"
)

func init() {
	register("C10", specC10)
	register("C11", specC11)
}

func specC10() *propertySpec {
	return &propertySpec{
		ID: "C10",
		Explanation: "Decides, for every invocation history, the bracket around each user invocation and the internal protocol of cleanup/Context/Cleanup: " +
			"every T produced by newT flows only into a bracket (checkOnce/example) or gets a deferred cleanup that dominates the user callback; " +
			"(*T).cleanup cancels the context and clears it, under the lock, before the first cleanup callback, pops the last callback and truncates the stack inside one " +
			"critical section before calling it outside of it, exits the loop only on an empty stack, and re-enters after a panicking callback; Context stores once under the write lock " +
			"and returns a cancelled context while cleaning; there is no go statement in non-test code, so all of it completes before the next invocation. " +
			"Not decided: behaviour of user cleanups themselves and goroutines started by the property.",
		Rules: []ruleSpec{
			{"C10-R1", "every-T-is-bracketed: each newT result flows only into a bracket function or has `defer X.cleanup()` registered before the user callback", ruleC10R1},
			{"C10-R2", "cancel-before-callbacks: in cleanup, cancelCtx() and the nil stores to cancelCtx/ctx happen under T.mu before the first callback; cleaning is set before and reset by defer", ruleC10R2},
			{"C10-R3", "pop-then-call: the callback is element len-1, the stack is truncated in the same critical section before the call, the call is outside the critical section, the loop exits only when empty", ruleC10R3},
			{"C10-R4", "survive-panicking-cleanup: a deferred function of cleanup re-invokes cleanup while callbacks remain", ruleC10R4},
			{"C10-R5", "context-protocol: Context returns the stored ctx, creates it once under the write lock, and returns a cancelled context while cleaning", ruleC10R5},
			{"C10-R6", "synchronous: no go statement in non-test code", ruleC10R6},
			{"C10-R7", "context-parent-outlives-the-invocation: the TB handed to newT is a TB that was handed in (a tb parameter, the tb of another T), never a *T itself — a T used as TB makes Context() derive from that T's context, which its cleanup phase has cancelled and cleared while callbacks that may still draw are running", ruleNewTTB},
		},
	}
}

func ruleC10R1(r *Run) {
	p := r.P
	bs := r.brackets()
	bracketFn := map[string]bool{}
	for _, b := range bs {
		bracketFn[b.name] = true
	}
	r.Floor("bracket functions (defer X.cleanup())", len(bs), 3)
	// per bracket: cleanup defer dominates every hand-off of X; nothing registered after it calls user code
	for _, b := range bs {
		r.Floor("hand-offs of the bracketed T in "+b.name, len(b.callback), 1)
		for _, cb := range b.callback {
			r.Check(b.name+"#"+cb.Key, cb.Instr.Pos(), dominates(b.cleanup, cb.Instr), "`defer "+p.expr(b.X)+".cleanup()` is registered before the T is handed to "+cb.Key,
				"the T is handed to "+cb.Key+" before `defer cleanup()` is registered: cleanups and context cancellation are skipped if it panics")
		}
		after := false
		for _, d := range b.defers {
			if d == b.cleanup {
				after = true
				continue
			}
			if !after {
				continue
			}
			// deferred after cleanup ⇒ runs before cleanup: must not invoke user code
			f := deferredFn(p, d)
			if f == nil {
				if sc := d.Common().StaticCallee(); sc != nil {
					f = sc
				}
			}
			bad := f == nil
			if f != nil && p.inRapid(f) {
				for g := range p.closureOf([]*ssa.Function{f}) {
					if countDyn(p, g) > 0 {
						bad = true
					}
				}
			}
			r.Check(b.name+"#defer-before-cleanup", d.Pos(), !bad, "deferred bookkeeping that runs before cleanup invokes no callback", "a deferred call that runs between the callback's return and cleanup() may invoke user code")
		}
	}
	// newT census
	n := 0
	for _, fn := range p.FuncList {
		// the T-creating calls of fn: newT(…) calls, and calls of a local closure that only wraps one
		var creators []*callSite
		for _, cs := range p.calls(fn) {
			if c, isCall := cs.Instr.(*ssa.Call); isCall {
				if _, isT := p.tCreator(c); isT && p.within(c.Parent(), fn) {
					creators = append(creators, cs)
				}
			}
		}
		for _, cs := range creators {
			n++
			v := cs.Value()
			name := p.fnName(fn)
			uses := usesOf(p, v)
			bracketed, harmlessOnly := false, true
			var bad []string
			for _, u := range uses {
				switch x := u.(type) {
				case ssa.CallInstruction:
					key := p.calleeKey(x.Common())
					switch {
					case bracketFn[key] && len(x.Common().Args) > 0 && argIs(p, x.Common(), v) >= 0:
						bracketed = true
						harmlessOnly = false
					case key == "(*T).cleanup":
						if _, isDefer := x.(*ssa.Defer); isDefer {
							bracketed = true
						}
					case key == "(*T).Logf" || key == "(*T).Log" || key == "(*T).shouldLog" || key == "(*T).failFrom" || key == "(*T).failOnError":
					default:
						harmlessOnly = false
						// allowed only if a deferred cleanup on v dominates it in this function
						ok := false
						for _, b := range bs {
							if b.fn == fn && b.X == ssa.Value(v) && dominates(b.cleanup, x) {
								ok = true
							}
						}
						if !ok {
							bad = append(bad, key+" at "+p.pos(x.Pos()))
						}
					}
				case *ssa.Return:
					if name != "newT" {
						bad = append(bad, "returned at "+p.pos(x.Pos()))
					}
				default:
					bad = append(bad, fmt.Sprintf("%T at %s", u, p.pos(u.Pos())))
				}
			}
			switch {
			case len(bad) > 0:
				r.Fail(name+"#newT", cs.Instr.Pos(), "a T created here escapes the cleanup bracket: "+strings.Join(bad, "; ")+" — user code would run without context cancellation and cleanups")
			case bracketed:
				r.OK(name+"#newT", cs.Instr.Pos(), "T flows only into a cleanup bracket")
			case harmlessOnly:
				r.OK(name+"#newT", cs.Instr.Pos(), "T is only used for logging")
			default:
				r.Fail(name+"#newT", cs.Instr.Pos(), "T is handed on but never bracketed")
			}
		}
	}
	r.Floor("newT call sites", n, 10)
	// verdict-producing bracket: recover registered before cleanup (a panicking cleanup is still converted)
	if co := r.MustFn("checkOnce"); co != nil {
		for _, b := range bs {
			if b.fn != co {
				continue
			}
			var rec *ssa.Defer
			for _, d := range b.defers {
				if f := deferredFn(p, d); f != nil && f != b.fn {
					if len(p.callsTo(f, "builtin:recover")) > 0 {
						rec = d
					}
				}
			}
			r.Check("checkOnce#recover-outside-cleanup", b.cleanup.Pos(), rec != nil && dominates(rec, b.cleanup), "the recovering defer is registered before the cleanup defer: a panicking cleanup is converted into the verdict",
				"the cleanup defer of checkOnce is not inside the recover frame")
		}
		// the property is invoked only by checkOnce under Check/MakeFuzz
		n := 0
		for _, fn := range p.FuncList {
			for _, cs := range p.calls(fn) {
				if pr, ok := p.resolve(cs.Common.Value).(*ssa.Parameter); ok && !cs.Common.IsInvoke() && pr.Name() == "prop" && cs.Common.StaticCallee() == nil {
					n++
					r.Check(p.fnName(fn)+"#prop()", cs.Instr.Pos(), fn == co, "property function invoked by checkOnce", "the property function is invoked directly in "+p.fnName(fn)+", outside the checkOnce bracket")
				}
			}
		}
		r.Floor("direct invocations of the property function", n, 1)
	}
}

func argIs(p *Program, c *ssa.CallCommon, v ssa.Value) int {
	for i, a := range c.Args {
		if p.resolve(a) == v {
			return i
		}
	}
	return -1
}

// usesOf lists the instructions using v, looking through single-store local cells.
func usesOf(p *Program, v ssa.Value) []ssa.Instruction {
	var out []ssa.Instruction
	seen := map[ssa.Value]bool{}
	var visit func(x ssa.Value)
	visit = func(x ssa.Value) {
		if seen[x] || x.Referrers() == nil {
			return
		}
		seen[x] = true
		for _, ref := range *x.Referrers() {
			switch y := ref.(type) {
			case *ssa.DebugRef:
			case *ssa.Store:
				if y.Val == x {
					if ci := p.cellOf(y.Addr); ci != nil && !ci.escapes {
						for _, l := range ci.loads {
							visit(l)
						}
						continue
					}
				}
				out = append(out, ref)
			case *ssa.MakeInterface:
				visit(y)
			case *ssa.ChangeType:
				visit(y)
			case *ssa.Phi:
				visit(y)
			case *ssa.FieldAddr:
				// field access on the T: harmless
			case *ssa.Return:
				// returned by a transparent helper (a constructor wrapper): the uses of the call's value
				if site, ok := p.helperSite(y.Parent()).(*ssa.Call); ok && site != nil {
					followed := false
					for k, rs := range y.Results {
						if rs != x {
							continue
						}
						if len(y.Results) == 1 {
							visit(site)
							followed = true
						} else {
							for _, e := range extractsOf(site, k) {
								visit(e)
								followed = true
							}
						}
					}
					if followed {
						continue
					}
				}
				out = append(out, ref)
			case *ssa.Call:
				// argument of a transparent helper: the uses of the corresponding parameter
				if h := transparentCallee(y); h != nil {
					followed := false
					for k, a := range y.Common().Args {
						if a == x && k < len(h.Params) {
							visit(h.Params[k])
							followed = true
						}
					}
					if followed {
						continue
					}
				}
				out = append(out, ref)
			default:
				out = append(out, ref)
			}
		}
	}
	visit(v)
	return out
}

type cleanupView struct {
	fn       *ssa.Function
	ls       map[ssa.Instruction]lockState
	cancel   *callSite // dyn call of t.cancelCtx
	callback *callSite // dyn call of the popped cleanup
}

func (r *Run) viewCleanup() *cleanupView {
	p := r.P
	fn := r.MustFn("(*T).cleanup")
	if fn == nil {
		return nil
	}
	v := &cleanupView{fn: fn, ls: p.lockSets(fn)}
	for _, cs := range p.calls(fn) {
		if !strings.HasPrefix(cs.Key, "dyn:") || cs.isDefer() {
			continue
		}
		if cs.Key == "dyn:$t.cancelCtx" {
			v.cancel = cs
		} else {
			v.callback = cs
		}
	}
	if v.callback == nil {
		r.Undecided("anchor:(*T).cleanup.callback", fn.Pos(), "anchor unresolved: the cleanup-callback call in (*T).cleanup")
		return nil
	}
	return v
}

func ruleC10R2(r *Run) {
	p := r.P
	v := r.viewCleanup()
	if v == nil {
		return
	}
	if v.cancel == nil {
		r.Fail("(*T).cleanup#cancel", v.fn.Pos(), "(*T).cleanup never calls t.cancelCtx: the context stays live during and after the cleanups")
		return
	}
	// the non-nil test dominates the callback; from its true edge the callback is unreachable without passing cancel and both nil stores
	var iff *ssa.If
	edge := 0 // the successor of iff taken when t.cancelCtx != nil
	for _, g := range guardsOf(v.cancel.Instr.Block()) {
		rl := p.relOf(g)
		if rl.X == "$t.cancelCtx" && rl.Op == "!=" && rl.Y == "nil" {
			iff = g.If
			if g.Pol {
				edge = 0
			} else {
				edge = 1
			}
		}
	}
	if iff == nil {
		r.Fail("(*T).cleanup#cancel.guard", v.cancel.Instr.Pos(), "the cancel call is not guarded by t.cancelCtx != nil")
		return
	}
	r.Check("(*T).cleanup#cancel.before-callbacks", v.cancel.Instr.Pos(), dominates(iff, v.callback.Instr) && !reachable(v.callback.Instr, v.cancel.Instr, nil),
		"the context is cancelled before the callback loop and never after a callback", "the cancel test does not precede the callback loop (or is reachable again after a callback)")
	isStoreNil := func(field string) func(ssa.Instruction) bool {
		return func(in ssa.Instruction) bool {
			st, ok := in.(*ssa.Store)
			if !ok {
				return false
			}
			fa, ok := st.Addr.(*ssa.FieldAddr)
			return ok && fieldAddrName(fa) == field && p.expr(fa.X) == "$t" && isNilConst(p.resolve(st.Val))
		}
	}
	first := iff.Block().Succs[edge].Instrs[0]
	for _, f := range []string{"cancelCtx", "ctx"} {
		byp := false
		if !isStoreNil(f)(first) {
			byp = reachable(first, v.callback.Instr, isStoreNil(f))
		}
		r.Check("(*T).cleanup#clear."+f, v.cancel.Instr.Pos(), !byp, "t."+f+" is cleared before the first callback", "t."+f+" is not set to nil before the first cleanup callback: a later Context() call returns the cancelled/stale context or the next invocation inherits it")
	}
	byp := first != v.cancel.Instr.(ssa.Instruction) && reachable(first, v.callback.Instr, func(in ssa.Instruction) bool { return in == v.cancel.Instr.(ssa.Instruction) })
	r.Check("(*T).cleanup#cancel.called", v.cancel.Instr.Pos(), !byp, "cancelCtx() is called on the non-nil edge before the callbacks", "the non-nil edge reaches the callbacks without calling cancelCtx()")
	r.Check("(*T).cleanup#cancel.locked", v.cancel.Instr.Pos(), v.ls[v.cancel.Instr.(ssa.Instruction)]["&$t.mu"] == 'W', "cancel and clear happen under the write lock", "cancelCtx is called/cleared without holding t.mu for writing")
	// cleaning flag
	var setTrue, deferFalse bool
	for _, cs := range p.callsTo(v.fn, "(*sync/atomic.Bool).Store") {
		b, _ := constBool(p.resolve(cs.Arg(0)))
		if p.expr(cs.Recv()) != "&$t.cleaning" {
			continue
		}
		if cs.isDefer() && !b {
			deferFalse = true
		}
		if !cs.isDefer() && b && dominates(cs.Instr, v.cancel.Instr) && dominates(cs.Instr, v.callback.Instr) {
			setTrue = true
		}
	}
	r.Check("(*T).cleanup#cleaning", v.fn.Pos(), setTrue && deferFalse, "cleaning.Store(true) precedes cancel and callbacks, Store(false) is deferred", "cleaning flag protocol broken (set before cancel/callbacks: "+fmt.Sprint(setTrue)+", reset deferred: "+fmt.Sprint(deferFalse)+")")
}

func ruleC10R3(r *Run) {
	p := r.P
	v := r.viewCleanup()
	if v == nil {
		return
	}
	cbv := p.resolve(v.callback.Common.Value)
	ph, ok := cbv.(*ssa.Phi)
	var elem *ssa.UnOp
	okNil := true
	direct := false // the popped element is called directly (no "nil = stack empty" encoding)
	if !ok {
		if u, isLoad := cbv.(*ssa.UnOp); isLoad {
			if _, isIdx := u.X.(*ssa.IndexAddr); isIdx {
				elem, direct = u, true
				ph = &ssa.Phi{} // no edges
			}
		}
		if !direct {
			r.Undecided("(*T).cleanup#popped", v.callback.Instr.Pos(), "the invoked callback is neither a phi of {nil, popped element} nor the popped element itself: "+p.expr(v.callback.Common.Value))
			return
		}
	}
	frame, fls := v.fn, v.ls // the function in which the pop happens: cleanup itself, or a pop helper it calls
	var popCalls []*ssa.Call
	var popFn *ssa.Function
	for i, e := range ph.Edges {
		er := p.resolve(e)
		if isNilConst(er) {
			// the nil edge must be the empty-stack edge
			pred := ph.Block().Preds[i]
			iff, isIf := pred.Instrs[len(pred.Instrs)-1].(*ssa.If)
			if !isIf || !(p.relOf(guard{Cond: iff.Cond, Pol: false}).String() == "builtin:len($t.cleanups) <= 0" && pred.Succs[1] == ph.Block()) {
				okNil = false
			}
			continue
		}
		if c, ok := er.(*ssa.Call); ok {
			// pop helper: a package function called with the receiver, returning nil or the popped element
			sc := c.Common().StaticCallee()
			if sc != nil && p.inRapid(sc) && sc.Blocks != nil && !knownFuncs[p.fnName(sc)] && len(c.Common().Args) == 1 && p.expr(c.Common().Args[0]) == "$t" && (popFn == nil || cloneBase(p.fnName(popFn)) == cloneBase(p.fnName(sc))) {
				popFn = sc
				popCalls = append(popCalls, c)
				continue
			}
		}
		elem, _ = er.(*ssa.UnOp)
	}
	var elemRets []*ssa.Return
	if popFn != nil && elem == nil {
		frame, fls = popFn, p.lockSets(popFn)
		for _, ret := range returnsOf(popFn) {
			for _, a := range p.alternatives(p.res(ret, 0), 0) {
				av := p.resolve(a.Val)
				if isNilConst(av) {
					// nil is returned only when the stack was found empty (length read under the lock)
					sets := p.pathConds(popFn, ret.Block(), func(rl rel) bool { return strings.Contains(rl.X, "builtin:len($t.cleanups)") })
					for _, f := range a.Facts {
						for k := range sets {
							sets[k] = append(sets[k], f.String())
						}
					}
					if len(sets) == 0 {
						okNil = false
					}
					for _, set := range sets {
						found := false
						for _, lit := range set {
							if cleanupsEmptyLit(lit) {
								found = true
							}
						}
						if !found {
							okNil = false
						}
					}
					continue
				}
				if u, ok := av.(*ssa.UnOp); ok {
					elem = u
					elemRets = append(elemRets, ret)
				} else {
					okNil = false
				}
			}
		}
		// the helper releases the lock it takes
		released := false
		for _, cs := range p.calls(popFn) {
			if cs.Key == "(*sync.Mutex).Unlock" || cs.Key == "(*sync.RWMutex).Unlock" {
				released = true
			}
		}
		r.Check("(*T).cleanup#pop.helper-unlocks", popFn.Pos(), released, "the pop helper "+p.fnName(popFn)+" releases t.mu", "the pop helper "+p.fnName(popFn)+" never releases t.mu")
	}
	if elem == nil {
		r.Fail("(*T).cleanup#popped", v.callback.Instr.Pos(), "no popped element flows into the callback call")
		return
	}
	ia, _ := elem.X.(*ssa.IndexAddr)
	okLast := ia != nil && p.expr(ia.X) == "$t.cleanups" && p.expr(ia.Index) == "(builtin:len($t.cleanups) - 1)"
	r.Check("(*T).cleanup#pop.last", elem.Pos(), okLast, "the invoked callback is t.cleanups[len-1] (LIFO)", "the invoked callback is "+p.expr(elem)+" — not the last registered one (LIFO order broken)")
	// truncation in the same critical section, before the call
	var trunc *ssa.Store
	for _, fa := range p.fieldAccesses("T") {
		if p.within(fa.Fn, frame) && fa.Field == "cleanups" && fa.Kind == "write" {
			trunc = fa.Instr.(*ssa.Store)
		}
	}
	okTrunc := false
	if trunc != nil {
		if sl, ok := p.resolve(trunc.Val).(*ssa.Slice); ok {
			okTrunc = p.expr(sl.X) == "$t.cleanups" && sl.Low == nil && sl.High != nil && p.expr(sl.High) == "(builtin:len($t.cleanups) - 1)"
		}
	}
	r.Check("(*T).cleanup#pop.truncate", posOrFn(trunc, frame), okTrunc, "the stack is truncated to [:len-1]", "the cleanup stack is not truncated to [:len-1] when an element is popped")
	if trunc != nil {
		sameCS := fls[trunc]["&$t.mu"] == 'W' && fls[elem]["&$t.mu"] == 'W' && noUnlockBetween(p, elem, trunc) && elem.Block() == trunc.Block()
		r.Check("(*T).cleanup#pop.atomic", trunc.Pos(), sameCS, "element read and truncation happen inside one write-locked region", "reading the last callback and truncating the stack are not in one critical section: two runs of the same callback / a lost registration are possible")
		// must hold on the path: every path from elem load to callback passes trunc
		byp := false
		if frame == v.fn {
			byp = reachable(elem, v.callback.Instr, func(in ssa.Instruction) bool { return in == ssa.Instruction(trunc) })
		} else {
			for _, ret := range elemRets {
				if reachable(elem, ret, func(in ssa.Instruction) bool { return in == ssa.Instruction(trunc) }) {
					byp = true
				}
			}
		}
		r.Check("(*T).cleanup#pop.truncate-on-path", trunc.Pos(), !byp, "every path from the pop to the call truncates first", "the popped callback can be called without having been removed from the stack")
	}
	r.Check("(*T).cleanup#call-unlocked", v.callback.Instr.Pos(), len(v.ls[v.callback.Instr.(ssa.Instruction)]) == 0, "the callback is called outside the critical section (it may call t.Cleanup / t.Context)", "the cleanup callback is called while t.mu is held: a callback calling t.Cleanup or t.Failed deadlocks")
	phKey := "<none>"
	if direct {
		// the element is popped and called only when the stack was found non-empty
		cf := p.facts(elem)
		nonEmpty := holds(cf, "builtin:len($t.cleanups)", ">", "0") || holds(cf, "builtin:len($t.cleanups)", "!=", "0") || holds(cf, "builtin:len($t.cleanups)", ">=", "1")
		r.Check("(*T).cleanup#exit-only-when-empty", v.callback.Instr.Pos(), nonEmpty, "an element is popped and called only when the stack is non-empty; the loop ends when it is empty", "the callback is popped without the stack having been found non-empty")
	} else {
		phKey = p.expr(ph)
		r.Check("(*T).cleanup#exit-only-when-empty", ph.Pos(), okNil && holds(p.facts(v.callback.Instr), p.expr(ph), "!=", "nil"), "the loop ends only when the stack is empty; otherwise the popped callback is called", "the callback loop can end while callbacks remain, or a nil callback can be called")
	}
	// every return of cleanup (not only the loop exit) is reached only with an empty stack
	if direct {
		phKey = p.expr(elem) // (… or, as the nil-sentinel form always did, after popping a registered nil callback)
	}
	for _, ret := range returnsOf(v.fn) {
		sets := p.pathConds(v.fn, ret.Block(), func(rl rel) bool {
			return (rl.X == phKey && rl.Y == "nil") || strings.Contains(rl.X, "builtin:len($t.cleanups)")
		})
		okAll := len(sets) > 0
		for _, set := range sets {
			ok := false
			for _, lit := range set {
				if lit == phKey+" == nil" || cleanupsEmptyLit(lit) {
					ok = true
				}
			}
			if !ok {
				okAll = false
			}
		}
		r.Check("(*T).cleanup#return-only-when-empty", ret.Pos(), okAll, "this return is reached only after the stack was found empty", "(*T).cleanup can return on a path that never found the cleanup stack empty (early return): registered cleanups are dropped, e.g. when cleanup is re-entered after a panicking callback")
	}
	// loop: callback call returns to the pop
	loops := false
	if frame == v.fn {
		loops = reachable(v.callback.Instr, elem, nil)
	} else {
		for _, c := range popCalls {
			if reachable(v.callback.Instr, c, nil) {
				loops = true
			}
		}
	}
	r.Check("(*T).cleanup#loop", v.callback.Instr.Pos(), loops, "after a callback the next one is popped", "the callback loop does not continue after the first callback")
}

func posOrFn(in ssa.Instruction, fn *ssa.Function) token.Pos {
	if in == nil || (in != nil && fmt.Sprintf("%v", in) == "<nil>") {
		return fn.Pos()
	}
	return in.Pos()
}

func ruleC10R4(r *Run) {
	p := r.P
	v := r.viewCleanup()
	if v == nil {
		return
	}
	found := false
	for _, cs := range p.calls(v.fn) {
		d, ok := cs.Instr.(*ssa.Defer)
		if !ok || cs.Fn != v.fn {
			continue
		}
		f := deferredFn(p, d)
		if f == nil || f == v.fn {
			continue
		}
		for _, rc := range p.callsTo(f, "(*T).cleanup") {
			ls := p.lockSets(f)
			okGuard := false
			for _, g := range guardsOf(rc.Instr.Block()) {
				rl := p.relOf(g)
				if rl.X == "builtin:len($t.cleanups)" && (rl.Op == ">" || rl.Op == "!=") && rl.Y == "0" {
					if bo, ok := p.resolve(g.Cond).(*ssa.BinOp); ok {
						if ln, ok := p.resolve(bo.X).(*ssa.Call); ok {
							if ld, ok := p.resolve(ln.Common().Args[0]).(*ssa.UnOp); ok {
								okGuard = ls[ld]["&$t.mu"] != 0
							}
						}
					}
				}
			}
			found = true
			r.Check("(*T).cleanup#reenter", rc.Instr.Pos(), okGuard && p.expr(rc.Recv()) == "$t" && len(ls[rc.Instr.(ssa.Instruction)]) == 0 && dominates(d, v.callback.Instr),
				"a deferred function re-invokes cleanup while callbacks remain (length read under the lock, call outside it)", "the deferred re-entry of cleanup is not guarded by len(t.cleanups) > 0 read under the lock, or runs under the lock, or is registered after the callback loop")
		}
	}
	if !found {
		r.Fail("(*T).cleanup#reenter", v.fn.Pos(), "no deferred re-entry into cleanup: a panicking cleanup callback stops the remaining callbacks from running")
	}
}

func ruleC10R5(r *Run) {
	p := r.P
	ruleContextStoreRecheck(r)
	fn := r.MustFn("(*T).Context")
	if fn == nil {
		return
	}
	ls := p.lockSets(fn)
	nStored := 0
	for _, ret := range returnsOf(fn) {
		res := p.resolve(p.res(ret, 0))
		ex := p.expr(res)
		facts := p.facts(ret)
		switch {
		case ex == "$t.ctx":
			// on every feasible path to this return, a branch established t.ctx != nil or a WithCancel context was stored
			okPaths, nPaths := true, 0
			// a return inside an inlined helper (contextLocked, called with the lock held): the paths are the helper's,
			// starting from what is known at its call
			start, known := fn.Blocks[0], false
			if ret.Parent() != fn {
				start = ret.Parent().Blocks[0]
				if site := p.helperSite(ret.Parent()); site != nil {
					known = holds(p.facts(site), "$t.ctx", "!=", "nil")
				}
			}
			complete := p.pathsFrom(start, 400, func(cp *cfgPath, back bool) {
				if back || cp.infeasible || cp.blocks[len(cp.blocks)-1] != ret.Block() {
					return
				}
				nPaths++
				nonnil := known
				for i, b := range cp.blocks {
					for _, in := range b.Instrs {
						if st, ok := in.(*ssa.Store); ok && p.expr(st.Addr) == "&$t.ctx" {
							nonnil = strings.HasPrefix(p.expr(st.Val), "context.WithCancel(") && ls[st]["&$t.mu"] == 'W' && cancelStoredOnPath(p, cp, st)
						}
					}
					if i+1 < len(cp.blocks) {
						if iff, ok := b.Instrs[len(b.Instrs)-1].(*ssa.If); ok && b.Succs[0] != b.Succs[1] {
							rl := p.relOf(guard{Cond: iff.Cond, Pol: b.Succs[0] == cp.blocks[i+1]})
							if holds([]rel{rl}, "$t.ctx", "!=", "nil") {
								nonnil = true
							}
						}
					}
				}
				if !nonnil {
					okPaths = false
				}
			})
			r.Check("(*T).Context#return-stored", ret.Pos(), (complete && okPaths && nPaths > 0) || holds(facts, "$t.ctx", "!=", "nil"), "returns the stored context only when it was found or just set non-nil", "returns t.ctx on a path that neither checked it is non-nil nor stored a new context")
			nStored++
		case strings.HasPrefix(ex, "context.WithCancel("):
			wc := extractCall(p, res)
			cancelFn := extractOr(wc, 1)
			// either stored to t.ctx under W (with cancel stored), or cancelled before return while cleaning
			stored := false
			for _, fa := range p.fieldAccesses("T") {
				if p.within(fa.Fn, fn) && fa.Field == "ctx" && fa.Kind == "write" {
					st := fa.Instr.(*ssa.Store)
					if p.same(st.Val, res) && ls[st]["&$t.mu"] == 'W' && dominates(st, ret) {
						stored = true
					}
				}
			}
			cancelStored := false
			for _, fa := range p.fieldAccesses("T") {
				if p.within(fa.Fn, fn) && fa.Field == "cancelCtx" && fa.Kind == "write" {
					st := fa.Instr.(*ssa.Store)
					if p.same(st.Val, cancelFn) && dominates(st, ret) {
						cancelStored = true
					}
				}
			}
			cancelled := false
			for _, cs := range p.calls(fn) {
				if strings.HasPrefix(cs.Key, "dyn:") && p.same(cs.Common.Value, cancelFn) && dominates(cs.Instr, ret) {
					cancelled = true
				}
			}
			cleaning := holds(facts, "(*sync/atomic.Bool).Load(&$t.cleaning)", "==", "true") || holds(facts, "(*sync/atomic.Bool).Load(&$t.cleaning)", "!=", "false")
			switch {
			case stored && cancelStored:
				nStored++
				r.OK("(*T).Context#return-new", ret.Pos(), "the new context and its cancel function are stored under the write lock before being returned")
			case cancelled && cleaning:
				r.OK("(*T).Context#return-cancelled", ret.Pos(), "while cleaning, the returned context has already been cancelled")
			default:
				r.Fail("(*T).Context#return-new", ret.Pos(), fmt.Sprintf("a context created by WithCancel is returned without being stored with its cancel function (stored=%v cancelStored=%v) and without being cancelled under cleaning (cancelled=%v cleaning=%v): it is never cancelled, or differs between callers", stored, cancelStored, cancelled, cleaning))
			}
		default:
			r.Fail("(*T).Context#return", ret.Pos(), "Context returns "+ex+", which is neither the stored context nor a WithCancel result")
		}
	}
	r.Floor("returns of the stored/new context in Context", nStored, 2)
	// fast path read under RLock / W
	for _, fa := range p.fieldAccesses("T") {
		if p.within(fa.Fn, fn) && fa.Field == "ctx" && fa.Kind == "read" {
			r.Check("(*T).Context#read-locked", fa.Instr.Pos(), ls[fa.Instr]["&$t.mu"] != 0, "t.ctx read under the lock", "t.ctx read without the lock")
		}
	}
	// the cleaning test sits between the fast path and the slow path
	okCleaning := false
	for _, cs := range p.callsTo(fn, "(*sync/atomic.Bool).Load") {
		if p.expr(cs.Recv()) == "&$t.cleaning" {
			for _, st := range p.fieldAccesses("T") {
				var at ssa.Instruction = st.Instr
				if st.Fn != fn && p.within(st.Fn, fn) { // the store sits in an inlined helper (contextLocked): located by its call
					if l := p.liftTo(st.Instr, fn); l != nil {
						at = l
					}
				}
				if p.within(st.Fn, fn) && st.Field == "ctx" && st.Kind == "write" && dominates(cs.Instr, at) {
					okCleaning = true
					// … and it is sequenced after a locked read that found no context (or made under the write lock of the
					// store): cleanup sets cleaning before it takes the lock to cancel and clear, so "ctx == nil seen under
					// the lock, then cleaning == false" means cleanup has not cleared yet and will cancel what is stored now;
					// tested before that read, cleanup can run to completion in between and the new context is never cancelled
					after := holds(p.facts(cs.Instr), "$t.ctx", "==", "nil") || ls[cs.Instr.(ssa.Instruction)]["&$t.mu"] == 'W'
					r.Check("(*T).Context#cleaning-after-read", cs.Instr.Pos(), after, "cleaning is tested after a locked read found t.ctx == nil", "cleaning is tested before the locked read of t.ctx: a whole cleanup (set cleaning, cancel, clear) fits between the test and the read, after which Context stores a fresh context that nobody cancels and that differs from the one other goroutines got")
				}
			}
		}
	}
	r.Check("(*T).Context#cleaning-check", fn.Pos(), okCleaning, "no new context is stored once cleanup has started (cleaning is tested before the slow path)", "Context can create and store a fresh live context while cleanups run: it would never be cancelled")
}

func factContains(facts []rel, s string) bool {
	for _, f := range facts {
		if strings.Contains(f.X, s) || strings.Contains(f.Y, s) {
			return true
		}
	}
	return false
}

func extractCall(p *Program, v ssa.Value) ssa.Value {
	if e, ok := v.(*ssa.Extract); ok {
		return e.Tuple
	}
	return v
}

func ruleC10R6(r *Run) {
	p := r.P
	n := 0
	for _, fn := range p.FuncList {
		for _, b := range p.body(fn) {
			for _, in := range b.Instrs {
				if g, ok := in.(*ssa.Go); ok {
					n++
					r.Fail(p.fnName(fn)+"#go", g.Pos(), "go statement in non-test code: cleanups / invocations are no longer guaranteed to complete before the next invocation begins")
				}
			}
		}
	}
	r.OK("census", token.NoPos, fmt.Sprintf("%d functions scanned, %d go statements", len(p.FuncList), n))
	r.positiveExample("go-statement", "package pos\nfunc f() { go func() {}() }\n", func(q *Program) int {
		c := 0
		for _, fn := range q.FuncList {
			for _, b := range p.body(fn) {
				for _, in := range b.Instrs {
					if _, ok := in.(*ssa.Go); ok {
						c++
					}
				}
			}
		}
		return c
	})
}

// ---------------------------------------------------------------------------
// C11

func specC11() *propertySpec {
	return &propertySpec{
		ID: "C11",
		Explanation: "Decides that no per-test-case state of a T survives from one bracket invocation to the next: the per-case fields are derived from the field-access index " +
			"(every T field stored after construction); every call of a bracket function under Check receives a T created by newT in the same loop iteration / straight-line region with no other " +
			"bracket call on it (fresh), or every per-case field is provably reset; the failure flag is consulted after cleanup and on the skip path of the same invocation (so a failure cannot " +
			"stay pending); the random stream shared by findBug's iterations is re-initialised per case and keeps no recording. Not decided: state the user's property keeps between calls.",
		Rules: []ruleSpec{
			{"C11-R1", "fresh-or-reset: each bracket call site gets a fresh T, or every per-case field (computed from the stores to T fields) is reset before the call", ruleC11R1},
			{"C11-R2", "attributed-to-own-case: the flag is consulted after cleanup and on the skip path of the same bracket invocation (shared with C02-R2)", ruleC02R2},
			{"C11-R4", "cleanups-and-context-end-with-their-case: the context is cancelled and every registered cleanup has run when the bracket returns, even if a cleanup panics (shared with C10-R2/R3/R4)", func(r *Run) { ruleC10R2(r); ruleC10R3(r); ruleC10R4(r) }},
			{"C11-R3", "no-shared-stream-state: a stream shared between test cases is re-seeded per case and does not record; its position counter, which is not reset, is only compared with other positions of the same stream; every other T gets its own stream", ruleC11R3},
			{"C11-R5", "no-global-per-case-state: package-level variables are not written after initialisation: nothing outside the T survives from one test case to the next (shared with C15-R4)", ruleC15R4},
			{"C11-R6", "failure-identity-survives-minimisation: a test case in which nothing failed is never presented as the failing one: the traceback that identifies a failure keeps the frame that distinguishes a deferred flag consult from a plain skip (shared with C05-R3)", ruleC05R3},
			{"C11-R7", "presented-case-is-an-executed-one: the buffer Check treats as the falsifying test case is a pruned recording that was never executed in that form, so pruning must be replay-neutral: only groups of rejected attempts are discarded, nothing derived from discarded bits steers later draws, a failing attempt is not closed as discarded (shared with C04-R4.4/R4.5/R4.6/R4.7/R4.8/R5, C03-R2)", rulePruneBundle},
			{"C11-R9", "a-failing-case-leaves-no-lock-behind: user code (a function value) called with a package mutex held is covered by a deferred unlock, so a test case that fails by a panic of a Deferred constructor cannot make the next test case — the reproduction run, minimization, the final replay — block on the generator's mutex instead of getting its own verdict", ruleUserCodeUnderLock},
			{"C11-R8", "generators-carry-nothing-over: a generator outlives the test case, so a draw that stores through or hands out generator-owned storage lets one test case change what a later one draws (shared with C15-R3)", ruleC15R3},
		},
	}
}

func (r *Run) perCaseFields() []string {
	p := r.P
	set := map[string]bool{}
	for _, fa := range p.fieldAccesses("T") {
		name := p.hostName(fa.Fn)
		if name == "newT" {
			continue
		}
		if fa.Kind == "write" || strings.HasPrefix(fa.Kind, "call:(*sync/atomic.Bool).Store") {
			set[fa.Field] = true
		}
	}
	var out []string
	for f := range set {
		out = append(out, f)
	}
	sortStrings(out)
	return out
}

func sortStrings(s []string) {
	for i := range s {
		for j := i + 1; j < len(s); j++ {
			if s[j] < s[i] {
				s[i], s[j] = s[j], s[i]
			}
		}
	}
}

func ruleC11R1(r *Run) {
	p := r.P
	fields := r.perCaseFields()
	r.Floor("per-test-case fields of T (stored after construction)", len(fields), 5)
	r.OK("per-case-fields", token.NoPos, "fields of T stored after construction: "+strings.Join(fields, ", "))
	restoredByCleanup := map[string]string{
		"cleanups":  "the callback loop of cleanup exits only on an empty stack (C10-R3)",
		"ctx":       "cleared by cleanup when set (C10-R2)",
		"cancelCtx": "cleared by cleanup when set (C10-R2)",
		"cleaning":  "reset by the deferred Store(false) of cleanup (C10-R2)",
	}
	// judge one use of a T as the subject of a bracket invocation: `at` is the call (for parameter brackets) or the
	// first hand-off of the T (for local brackets)
	judge := func(construct string, fn *ssa.Function, tv ssa.Value, at ssa.Instruction, bracketKeys map[string]bool) {
		nt, isNew := tv.(*ssa.Call)
		if isNew {
			if _, isT := p.tCreator(nt); !isT {
				isNew = false
			}
		}
		fresh := false
		why := "the T is " + p.expr(tv) + " (not the result of newT in this function)"
		if isNew && p.within(nt.Parent(), fn) {
			uses := 0
			for _, u := range usesOf(p, nt) {
				if c, ok := u.(ssa.CallInstruction); ok && bracketKeys[p.calleeKey(c.Common())] {
					if _, isDefer := u.(*ssa.Defer); !isDefer || p.calleeKey(c.Common()) == "(*T).cleanup" {
						uses++
					}
				}
			}
			loopCall := innermostLoop(at)
			switch {
			case uses != 1:
				why = fmt.Sprintf("the same T is the subject of %d bracket invocations", uses)
			case loopCall != nil && !p.inLoop(loopCall, nt):
				why = "the T is created outside the loop that runs the bracket repeatedly"
			case !dominates(nt, at):
				why = "newT does not dominate the invocation"
			default:
				fresh = true
			}
		}
		if fresh {
			r.OK(construct, at.Pos(), "fresh T: created by newT in the same iteration, used for this invocation only")
			return
		}
		if isNew && p.within(nt.Parent(), fn) && strings.HasPrefix(why, "the T is created outside the loop") {
			// one object for every test case of the loop: resetting its fields is not enough, because the methods of T
			// may be called from goroutines (C14) — a goroutine left behind by one test case that signals a failure,
			// registers a cleanup or logs after the reset does it to the next test case
			r.Fail(construct, at.Pos(), why+": one T object serves all test cases of the loop, so a late Errorf/Fail/Cleanup from a goroutine started in an earlier test case lands in the current one, whatever is reset in between")
			return
		}
		for _, f := range fields {
			if reason, ok := restoredByCleanup[f]; ok {
				r.OK(construct+":"+f, at.Pos(), "reused T ("+why+"); "+f+" is restored by the bracket: "+reason)
				continue
			}
			reset := false
			zeroStore := func(g *ssa.Function, isT func(ssa.Value) bool, mustDominate ssa.Instruction) bool {
				for _, fa := range p.fieldAccesses("T") {
					if !p.within(fa.Fn, g) || fa.Field != f || fa.Kind != "write" {
						continue
					}
					st := fa.Instr.(*ssa.Store)
					if isT(p.resolve(fa.FA.X)) && overwrites(p, st, f) && (mustDominate == nil || dominates(st, mustDominate)) {
						if mustDominate == nil {
							// in a callee: the store must be on every path
							if escapesFromEntry(g, func(in ssa.Instruction) bool { return in == ssa.Instruction(st) }, false) == nil {
								return true
							}
							continue
						}
						if l := innermostLoop(mustDominate); l == nil || l.Body[st.Block()] {
							return true
						}
					}
				}
				return false
			}
			if zeroStore(fn, func(v ssa.Value) bool { return v == tv }, at) {
				reset = true
			}
			// one level of helper: a call on the T that dominates the invocation and resets the field on every path
			if !reset {
				for _, cs := range p.calls(fn) {
					sc := cs.Common.StaticCallee()
					if sc == nil || !p.inRapid(sc) || sc.Blocks == nil || cs.isDefer() || !dominates(cs.Instr, at) {
						continue
					}
					if l := innermostLoop(at); l != nil && !l.Body[cs.Instr.Block()] {
						continue
					}
					for i, a := range cs.Common.Args {
						if p.resolve(a) == tv && i < len(sc.Params) {
							pi := sc.Params[i]
							if zeroStore(sc, func(v ssa.Value) bool { return v == ssa.Value(pi) }, nil) {
								reset = true
							}
						}
					}
				}
			}
			r.Check(construct+":"+f, at.Pos(), reset, "reused T; "+f+" is reset before the invocation",
				"per-test-case field T."+f+" carries over between invocations: "+why+", and "+f+" is not reset before the invocation")
		}
	}
	bs := r.brackets()
	n := 0
	for _, b := range bs {
		if par, isParam := b.X.(*ssa.Parameter); isParam {
			// judged at every call site of the bracket function
			idx := 0
			for i, q := range b.fn.Params {
				if q == par {
					idx = i
				}
			}
			keys := map[string]bool{b.name: true}
			for _, fn := range p.FuncList {
				for _, cs := range p.callsTo(fn, b.name) {
					if b.name == "example" {
						r.OK(p.fnName(fn)+"#"+b.name, cs.Instr.Pos(), "Example path: retries on one T by design (not a Check test case)")
						continue
					}
					n++
					judge(p.fnName(fn)+"#"+b.name, fn, p.resolve(cs.Common.Args[idx]), cs.Instr, keys)
				}
			}
			continue
		}
		// local bracket: the T must be fresh in this invocation of the function
		n++
		at := ssa.Instruction(b.cleanup)
		judge(b.name, b.fn, b.X, at, map[string]bool{"(*T).cleanup": true})
	}
	r.Floor("bracket invocations judged", n, 9)
}

// overwrites: the store replaces the field by a value that does not derive from the field's previous content.
func overwrites(p *Program, st *ssa.Store, field string) bool {
	if isZero(p.resolve(st.Val)) {
		return true
	}
	derives := false
	seen := map[ssa.Value]bool{}
	var walk func(v ssa.Value, d int)
	walk = func(v ssa.Value, d int) {
		if v == nil || seen[v] || d > 8 {
			return
		}
		seen[v] = true
		if u, ok := v.(*ssa.UnOp); ok {
			if fa, ok := u.X.(*ssa.FieldAddr); ok && p.fieldAddrOwner(fa) == "T" && fieldAddrName(fa) == field {
				derives = true
			}
		}
		if in, ok := v.(ssa.Instruction); ok {
			for _, op := range in.Operands(nil) {
				if *op != nil {
					walk(*op, d+1)
				}
			}
		}
	}
	walk(st.Val, 0)
	return !derives
}

func isZero(v ssa.Value) bool {
	c, ok := v.(*ssa.Const)
	if !ok {
		return false
	}
	if c.Value == nil {
		return true
	}
	if s, ok := constString(c); ok {
		return s == ""
	}
	if i, ok := constInt(c); ok {
		return i == 0
	}
	if b, ok := constBool(c); ok {
		return !b
	}
	return false
}

func innermostLoop(in ssa.Instruction) *loopInfo {
	for i := 0; i < 6; i++ {
		var best *loopInfo
		for _, l := range loopsOf(in.Parent()) {
			if l.Body[in.Block()] && (best == nil || len(l.Body) < len(best.Body)) {
				best = l
			}
		}
		if best != nil || activeProg == nil {
			return best
		}
		// inside a transparent helper without a loop of its own: the loop around its call site
		site := activeProg.helperSite(in.Parent())
		if site == nil {
			return nil
		}
		in = site
	}
	return nil
}

func ruleC11R3(r *Run) {
	p := r.P
	ruleStreamPositionRelative(r)
	n := 0
	for _, fn := range p.FuncList {
		name := p.fnName(fn)
		for _, cs := range p.callsTo(fn, "newT") {
			if name == "newT" {
				continue
			}
			n++
			s := p.resolve(cs.Arg(1))
			sc, isCall := s.(*ssa.Call)
			construct := name + "#newT.stream"
			switch {
			case isCall && (p.calleeKey(sc.Common()) == "newBufBitStream" || p.calleeKey(sc.Common()) == "newRandomBitStream"):
				// number of newT calls using this stream object
				uses := 0
				for _, u := range usesOf(p, sc) {
					if c, ok := u.(ssa.CallInstruction); ok && p.calleeKey(c.Common()) == "newT" {
						uses++
					}
				}
				inLoop := innermostLoop(cs.Instr)
				shared := uses > 1 || (inLoop != nil && !inLoop.Body[sc.Block()])
				if !shared {
					r.OK(construct, cs.Instr.Pos(), "own stream object: "+p.calleeKey(sc.Common()))
					continue
				}
				// shared across test cases: must not record, and must be re-seeded per case (C04-R2)
				persist, okc := constBool(p.resolve(sc.Common().Args[1]))
				reseeded := false
				for _, ic := range p.callsTo(fn, "(*randomBitStream).init") {
					if p.resolve(ic.Recv()) == s && inLoop != nil && inLoop.Body[ic.Instr.Block()] {
						reseeded = true
					}
				}
				r.Check(construct, cs.Instr.Pos(), okc && !persist && reseeded, "stream shared by the iterations does not record and is re-initialised in every iteration",
					fmt.Sprintf("a stream object is shared between test cases (persist=%v, re-initialised per iteration=%v): recorded bits / PRNG state of one test case leak into the next", persist, reseeded))
			case isParamWithFreshArgs(p, s):
				r.OK(construct, cs.Instr.Pos(), "stream is a parameter of a wrapper; every caller passes a stream created for that call")
			case strings.HasSuffix(p.expr(s), ".s"):
				r.OK(construct, cs.Instr.Pos(), "nested T of a Custom generator shares the stream of the T it is drawn from (same test case) by design")
			default:
				r.Fail(construct, cs.Instr.Pos(), "stream of this T is "+p.expr(s)+": not a stream created for it")
			}
		}
	}
	r.Floor("newT call sites with a stream", n, 10)
}

// isParamWithFreshArgs: v is a parameter and every call site of its function passes a freshly constructed stream.
func isParamWithFreshArgs(p *Program, v ssa.Value) bool {
	par, ok := v.(*ssa.Parameter)
	if !ok {
		return false
	}
	fn := par.Parent()
	ci := p.callerIndex()[fn]
	if ci == nil || ci.valueUse || len(ci.sites) == 0 {
		return false
	}
	idx := -1
	for k, q := range fn.Params {
		if q == par {
			idx = k
		}
	}
	for _, site := range ci.sites {
		if idx < 0 || idx >= len(site.Common().Args) {
			return false
		}
		c, ok := p.resolve(site.Common().Args[idx]).(*ssa.Call)
		if !ok {
			return false
		}
		k := p.calleeKey(c.Common())
		if k != "newBufBitStream" && k != "newRandomBitStream" {
			return false
		}
		n := 0
		for _, u := range usesOf(p, c) {
			if _, isCall := u.(ssa.CallInstruction); isCall {
				n++
			}
		}
		if n > 1 {
			// the same stream object handed to more than one call
			uses := 0
			for _, u := range usesOf(p, c) {
				if ci2, ok := u.(ssa.CallInstruction); ok && ci2.Common().StaticCallee() != nil && p.fnName(ci2.Common().StaticCallee()) == p.fnName(fn) {
					uses++
				}
			}
			if uses > 1 {
				return false
			}
		}
	}
	return true
}

// cancelStoredOnPath: the cancel function of the WithCancel call whose context st stores is stored to t.cancelCtx on the path.
func cancelStoredOnPath(p *Program, cp *cfgPath, st *ssa.Store) bool {
	wc := extractCall(p, p.resolve(st.Val))
	if wc == nil {
		return false
	}
	cancelFn := extractOr(wc, 1)
	for _, b := range cp.blocks {
		for _, in := range b.Instrs {
			if s2, ok := in.(*ssa.Store); ok && p.expr(s2.Addr) == "&$t.cancelCtx" && p.same(s2.Val, cancelFn) {
				return true
			}
		}
	}
	return false
}

// ruleStreamPositionRelative: the position counter of a non-recording stream (recordedBits.dataLen, returned by drawn()
// and, for non-recording streams, by beginGroup()) is NOT reset by (*randomBitStream).init: on the search stream that
// findBug shares between test cases it counts the draws of all earlier test cases. It is harmless exactly as long as
// positions are only compared with other positions of the same stream (or handed back to endGroup). Any other use —
// a comparison with a constant, arithmetic flowing into a draw — makes a test case depend on its predecessors (C11),
// so that neither the printed seed (C07) nor the recorded bits (C04) reproduce it.
func ruleStreamPositionRelative(r *Run) {
	p := r.P
	isPosCall := func(v ssa.Value) bool {
		c, ok := v.(*ssa.Call)
		if !ok {
			return false
		}
		switch p.calleeKey(c.Common()) {
		case "invoke:bitStream.drawn", "(*recordedBits).drawn", "invoke:bitStream.beginGroup", "(*recordedBits).beginGroup":
			return true
		}
		return false
	}
	isDataLenLoad := func(v ssa.Value) bool {
		u, ok := v.(*ssa.UnOp)
		if !ok || u.Op != token.MUL {
			return false
		}
		fa, ok := u.X.(*ssa.FieldAddr)
		return ok && p.fieldAddrOwner(fa) == "recordedBits" && fieldAddrName(fa) == "dataLen"
	}
	posFields := map[string]bool{}
	// pre-pass: fields a position is stored into
	for _, fn := range p.FuncList {
		for _, b := range p.body(fn) {
			for _, in := range b.Instrs {
				if st, ok := in.(*ssa.Store); ok {
					if fa, ok := st.Addr.(*ssa.FieldAddr); ok && p.fieldAddrOwner(fa) != "recordedBits" && isPosCall(p.resolve(st.Val)) {
						posFields[p.fieldAddrOwner(fa)+"."+fieldAddrName(fa)] = true
					}
				}
			}
		}
	}
	// argument bound to a parameter of a function literal that is called or deferred where it is created
	var derives func(v ssa.Value, d int) bool
	derives = func(v ssa.Value, d int) bool {
		if v == nil || d > 6 {
			return false
		}
		if isPosCall(v) || isDataLenLoad(v) {
			return true
		}
		rv := p.resolve(v)
		if rv != v && (isPosCall(rv) || isDataLenLoad(rv)) {
			return true
		}
		switch x := rv.(type) {
		case *ssa.UnOp:
			// a field that holds a position (repeat.group = beginGroup(…))
			if fa, ok := x.X.(*ssa.FieldAddr); ok && x.Op == token.MUL && posFields[p.fieldAddrOwner(fa)+"."+fieldAddrName(fa)] {
				return true
			}
		case *ssa.Parameter:
			fn := x.Parent()
			if strings.HasSuffix(p.fnName(fn), ").endGroup") && p.paramName(x) == "i" {
				return true // the position handed back by the caller
			}
			if fn.Parent() == nil {
				return false
			}
			idx := -1
			for k, q := range fn.Params {
				if q == x {
					idx = k
				}
			}
			for _, b := range fn.Parent().Blocks {
				for _, in := range b.Instrs {
					c, ok := in.(ssa.CallInstruction)
					if !ok {
						continue
					}
					if mc, ok := c.Common().Value.(*ssa.MakeClosure); ok && mc.Fn == ssa.Value(fn) && idx < len(c.Common().Args) {
						return derives(c.Common().Args[idx], d+1)
					}
				}
			}
		case *ssa.Phi:
			for _, e := range x.Edges {
				if e != ssa.Value(x) && derives(e, d+1) {
					return true
				}
			}
		case *ssa.BinOp:
			if x.Op == token.ADD || x.Op == token.SUB {
				return derives(x.X, d+1) || derives(x.Y, d+1)
			}
		case *ssa.Convert:
			return derives(x.X, d+1)
		case *ssa.ChangeType:
			return derives(x.X, d+1)
		}
		return false
	}
	nSrc, nUse := 0, 0
	var visit func(src ssa.Value, v ssa.Value, fn *ssa.Function, d int, seen map[ssa.Value]bool)
	visit = func(src, v ssa.Value, fn *ssa.Function, d int, seen map[ssa.Value]bool) {
		if v.Referrers() == nil || d > 6 || seen[v] {
			return
		}
		seen[v] = true
		host := p.hostName(fn)
		for _, ref := range *v.Referrers() {
			nUse++
			bad := ""
			switch x := ref.(type) {
			case *ssa.DebugRef:
				nUse--
			case *ssa.BinOp:
				other := x.X
				if other == v {
					other = x.Y
				}
				switch x.Op {
				case token.EQL, token.NEQ, token.LSS, token.LEQ, token.GTR, token.GEQ:
					if c, isC := constInt(p.resolve(other)); isC {
						// sentinel tests ("no open group": -1) hold or fail for every real position alike
						left := x.X == v
						sign := c == 0 && ((left && (x.Op == token.GEQ || x.Op == token.LSS)) || (!left && (x.Op == token.LEQ || x.Op == token.GTR)))
						sentinel := c < 0 && (x.Op == token.EQL || x.Op == token.NEQ)
						if sign || sentinel {
							continue
						}
					}
					if !derives(other, 0) {
						bad = "is compared with " + p.expr(other) + ", which is not a position of the same stream"
					}
				case token.SUB:
					if derives(other, 0) {
						continue // a distance: history-independent
					}
					visit(src, x, fn, d+1, seen)
				case token.ADD:
					visit(src, x, fn, d+1, seen)
				default:
					bad = "is used in arithmetic " + p.expr(x)
				}
			case *ssa.Store:
				if fa, ok := x.Addr.(*ssa.FieldAddr); ok && p.fieldAddrOwner(fa) == "recordedBits" && fieldAddrName(fa) == "dataLen" {
					continue // the counter itself
				}
				if al, ok := x.Addr.(*ssa.Alloc); ok {
					// local cell (e.g. a result cell of a function with defers): follow its loads
					if al.Referrers() != nil {
						for _, r2 := range *al.Referrers() {
							if u, ok := r2.(*ssa.UnOp); ok {
								visit(src, u, fn, d+1, seen)
							}
						}
					}
					continue
				}
				if fa, ok := x.Addr.(*ssa.FieldAddr); ok {
					// a field holding the position: every read of that field is a further use
					owner, name := p.fieldAddrOwner(fa), fieldAddrName(fa)
					posFields[owner+"."+name] = true
					for _, acc := range p.fieldAccesses(owner) {
						if acc.Field == name && acc.Kind == "read" {
							if val, ok := acc.Instr.(ssa.Value); ok {
								visit(src, val, acc.Fn, d+1, seen)
							}
						}
					}
					continue
				}
				bad = "is stored to " + p.expr(x.Addr)
			case *ssa.Return:
				if strings.HasSuffix(host, ").drawn") || strings.HasSuffix(host, ").beginGroup") {
					continue
				}
				bad = "is returned by " + host
			case *ssa.Phi:
				visit(src, x, fn, d+1, seen)
			case *ssa.Convert:
				visit(src, x, fn, d+1, seen)
			case *ssa.ChangeType:
				visit(src, x, fn, d+1, seen)
			case *ssa.MakeInterface:
				// only as an argument of an assertion/panic message
				visit(src, x, fn, d+1, seen)
			case *ssa.IndexAddr:
				if x.Index == v {
					// groups[i] in the recording branch of endGroup: i is a group index there
					if strings.HasSuffix(host, ").endGroup") {
						continue
					}
					bad = "indexes " + p.expr(x.X)
				} else {
					// element of a variadic argument slice
					visit(src, x, fn, d+1, seen)
				}
			case ssa.CallInstruction:
				key := p.calleeKey(x.Common())
				switch {
				case key == "invoke:bitStream.endGroup" || key == "(*recordedBits).endGroup":
					continue
				case key == "assertf" || key == "assert" || strings.HasPrefix(key, "fmt."):
					continue
				}
				if mc, ok := x.Common().Value.(*ssa.MakeClosure); ok {
					// argument of a function literal called/deferred in place: follow the parameter
					lit := mc.Fn.(*ssa.Function)
					for k, a := range x.Common().Args {
						if a == v && k < len(lit.Params) {
							visit(src, lit.Params[k], lit, d+1, seen)
						}
					}
					continue
				}
				if sc := x.Common().StaticCallee(); sc != nil && p.transparent(sc) {
					if o := sc.Origin(); o != nil {
						sc = o
					}
					for k, a := range x.Common().Args {
						if a == v && k < len(sc.Params) {
							visit(src, sc.Params[k], sc, d+1, seen)
						}
					}
					continue
				}
				bad = "is passed to " + key
			case *ssa.If:
			default:
				if val, ok := ref.(ssa.Value); ok {
					visit(src, val, fn, d+1, seen)
				}
			}
			if bad != "" {
				r.Fail(host+"#stream-position:"+p.expr(src), ref.Pos(), "the stream position "+p.expr(src)+" "+bad+": on the stream findBug shares between test cases the position counts the draws of all earlier test cases (init does not reset it), so the test case would depend on its predecessors and be reproduced neither by its seed nor by its recording")
			}
		}
	}
	for _, fn := range p.FuncList {
		for _, b := range p.body(fn) {
			for _, in := range b.Instrs {
				v, ok := in.(ssa.Value)
				if !ok || !(isPosCall(v) || isDataLenLoad(v)) {
					continue
				}
				nSrc++
				visit(v, v, in.Parent(), 0, map[ssa.Value]bool{})
			}
		}
	}
	r.Floor("reads of the stream position (drawn / beginGroup / dataLen)", nSrc, 10)
	if nUse > 0 {
		r.OK("stream-position-census", token.NoPos, fmt.Sprintf("%d reads of the stream position, %d uses: all are comparisons between positions of one stream, endGroup arguments or assertion messages", nSrc, nUse))
	}
}

var cloneSuffixRe = regexp.MustCompile(`__[0-9]+$`)

// cloneBase strips the suffix of a per-call-site clone (clone.go).
func cloneBase(name string) string { return cloneSuffixRe.ReplaceAllString(name, "") }

// cleanupsEmptyLit: the path literal says that the cleanup stack is empty (len is a non-negative int, so the
// forms below are equivalent).
func cleanupsEmptyLit(lit string) bool {
	switch lit {
	case "builtin:len($t.cleanups) <= 0", "builtin:len($t.cleanups) == 0", "builtin:len($t.cleanups) < 1",
		"(builtin:len($t.cleanups) - 1) < 0", "(builtin:len($t.cleanups) - 1) <= -1", "(builtin:len($t.cleanups) - 1) == -1":
		return true
	}
	return false
}

// ruleNewTTB (C10-R7): (*T).Context takes its parent from t.tb when that has a Context method. *T has one. A T whose tb
// is another T therefore hands out children of that T's context: during the outer T's cleanup phase (cleaning set,
// context cancelled and cleared) outer.Context() is already cancelled, so a Custom generator drawn from a cleanup
// callback runs with a dead context for the whole call.
func ruleNewTTB(r *Run) {
	p := r.P
	n := 0
	for _, fn := range p.allFuncs() {
		for _, cs := range p.callsTo(fn, "newT") {
			n++
			bad := ""
			isT := func(v ssa.Value) {
				for i := 0; i < 4 && v != nil; i++ {
					if mi, ok := v.(*ssa.MakeInterface); ok {
						if isPtrToNamed(mi.X.Type(), "T") {
							bad = p.expr(mi.X)
						}
						return
					}
					if isPtrToNamed(v.Type(), "T") {
						bad = p.expr(v)
						return
					}
					nv := p.resolve(v)
					if nv == v {
						return
					}
					v = nv
				}
			}
			isT(cs.Common.Args[0])
			for _, a := range p.alternatives(cs.Common.Args[0], 0) {
				isT(a.Val)
			}
			r.Check(p.hostName(fn)+"#newT.tb", cs.Instr.Pos(), bad == "", "the TB of the new T is a TB that was handed in, not a T", "newT is given the T "+bad+" as its TB: Context() of the new T then derives from that T's context, which is cancelled (and replaced by an already cancelled one) as soon as that T starts its cleanup phase — a generator function drawn from a cleanup callback sees a dead context during its call")
		}
	}
	r.Floor("newT call sites", n, 5)
}
