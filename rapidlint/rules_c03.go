package main

import (
	"fmt"
	"go/ast"
	"go/constant"
	"go/token"
	"go/types"
	"strconv"
	"strings"

	"golang.org/x/tools/go/ssa"
)

func init() { register("C03", specC03) }

func specC03() *propertySpec {
	return &propertySpec{
		ID: "C03",
		Explanation: "Decides ONLY the structural part of the generator contracts, for all bitstreams: every place where a contract is enforced by a guard keeps it on every returning path " +
			"(u <= max in the integer cores, the filter predicate, the regexp re-check, find's ok), reject and accumulate are on exclusive branches of a test on the element just drawn, " +
			"indices are drawn against the length of the thing they index, an exhausted buffer raises invalidData, every loop a draw can execute makes bitstream progress or is bounded, " +
			"the reflect-kind and integer-kind tables agree with the Go types under the analysed GOARCH, range constructors store min/max into the right fields and assert min <= max, " +
			"no generator mutates its inputs, and Ptr returns nil only through the allowNil coin. NOT decided: integer arithmetic at type extremes, every float clause, UTF-8 validity " +
			"of regexp output, that Convert in Make's cast cannot panic, termination with probability 1 on the PRNG stream.",
		Rules: []ruleSpec{
			{"C03-R1", "guarded-return: values are returned only under their contract guard (u <= max; fn(v); re.Match(v); ok)", ruleC03R1},
			{"C03-R2", "reject-or-accumulate: in every rejecting loop the accumulation and repeat.reject() are on exclusive branches of a test on the element just drawn", ruleC03R2},
			{"C03-R3", "index-of-len: every index drawn by genIndex(s, len(X), ·) indexes that same X; genIndex asserts n > 0", ruleC03R3},
			{"C03-R4", "overrun-guard: bufBitStream.drawBits reads/advances buf only when non-empty; the empty edge panics with invalidData", ruleC03R4},
			{"C03-R5", "loop-progress: every loop of the generation closure (plus checkFuzz, loadFailFile) is a range loop, counted, bit-consuming, input-consuming, or a named exception", ruleC03R5},
			{"C03-R6", "kind-tables: Make's reflect.Kind switch and integerKindToInfo agree with the Go types; range constructors store min/max in the right fields and assert min <= max", ruleC03R6},
			{"C03-R7", "input-not-mutated: nothing reachable from a value/String method stores through a generator field or a package-level variable", ruleC15R3},
			{"C03-R8", "non-nil-when-disallowed: ptrGen returns nil only on the false edge of a coin whose probability is the constant 1 unless allowNil", ruleC03R8},
			{"C03-R9", "length-control: the fields of repeat are written only by newRepeat/more/reject; more forces continue below minCount and stop at maxCount; a forced stop is set only when count >= minCount, otherwise reject raises invalid data", ruleC03R9},
			{"C03-R10", "byte-budget: stringGen.value appends a rune only if its UTF-8 length is known (RuneLen >= 0: encodable, WriteRune writes exactly that many bytes) and fits into maxLen", ruleC03R10},
			{"C03-R11", "every-value-draws: each built-in generator's value method reads the bit stream at least once on every path to a normal return (Generator.value wraps it in a group and endGroup asserts that the group used data): a generator that returns its degenerate value without drawing panics with an internal assertion for exactly those inputs instead of producing the value", ruleC03R11},
		},
	}
}

func ruleC03R1(r *Run) {
	p := r.P
	maxOf := func(fn *ssa.Function) ssa.Value { return paramNamed(fn, "max") }
	// integer cores
	for _, name := range []string{"genUintNUnbiased", "genUintNBiased", "genUintNNoReject"} {
		fn := r.MustFn(name)
		if fn == nil {
			continue
		}
		max := maxOf(fn)
		nPaths, bad := 0, ""
		judge := func(cp *cfgPath, back bool) {
			if cp.infeasible || back {
				return
			}
			last := cp.blocks[len(cp.blocks)-1]
			ret, ok := last.Instrs[len(last.Instrs)-1].(*ssa.Return)
			if !ok {
				return
			}
			nPaths++
			rv := cp.onPath(p.res(ret, 0))
			if rv == max {
				return
			}
			// result of another integer core for the same max
			core := rv
			if e, ok := core.(*ssa.Extract); ok && e.Index == 0 {
				core = e.Tuple
			}
			if c, ok := core.(*ssa.Call); ok {
				switch p.calleeKey(c.Common()) {
				case "genUintNNoReject", "genUintNUnbiased", "genUintNBiased":
					if len(c.Common().Args) == 2 && p.resolve(c.Common().Args[1]) == max {
						return
					}
				}
			}
			kx, ky := cp.key(rv), cp.key(max)
			le, okLe := cp.known["("+kx+" <= "+ky+")"]
			gt, okGt := cp.known["("+kx+" > "+ky+")"]
			if (okLe && le) || (okGt && !gt) {
				return
			}
			if bad == "" {
				bad = "path " + cp.String() + " returns " + p.expr(rv) + " without having established it is <= max"
			}
		}
		complete := p.pathsFrom(fn.Blocks[0], 5000, judge)
		// … and the paths that leave a loop after at least one way round it (a loop tested after the attempt): they
		// start at the source of a back edge, so that the header's phis take the values of the attempt just made
		// (only the paths that leave the loop at its header: inside the body the values of the next attempt carry
		// the same SSA names as those of the attempt just made, and the entry enumeration covers the body already)
		for _, l := range loopsOf(fn) {
			l := l
			for _, latch := range l.Header.Preds {
				if l.Header.Dominates(latch) && complete {
					complete = p.pathsFrom(latch, 5000, func(cp *cfgPath, back bool) {
						if len(cp.blocks) < 3 || cp.blocks[1] != l.Header {
							return
						}
						for _, b := range cp.blocks[2:] {
							if l.Body[b] {
								return
							}
						}
						judge(cp, back)
					})
				}
			}
		}
		if !complete {
			// loops make the enumeration start inside: fall back to dominance facts
			bad, nPaths = "", 0
		}
		if nPaths == 0 {
			for _, ret := range returnsOf(fn) {
				nPaths++
				rv := p.res(ret, 0)
				if !holds(p.facts(ret), p.expr(rv), "<=", "$max") && p.resolve(rv) != max {
					bad = "return of " + p.expr(rv) + " is not dominated by the guard <= max"
				}
			}
		}
		r.Check(name+"#ret<=max", fn.Pos(), bad == "" && nPaths > 0, fmt.Sprintf("on all %d returning paths the result is max itself or was compared <= max", nPaths),
			name+" can return a value above max: "+bad)
	}
	// filter
	if fn := r.MustFn("(*filteredGen).maybeValue"); fn != nil {
		n := 0
		for _, ret := range returnsOf(fn) {
			okFlag, isC := constBool(p.resolve(p.res(ret, 1)))
			if !isC {
				r.Fail("(*filteredGen).maybeValue#ok", ret.Pos(), "ok result is not a constant: "+p.expr(p.res(ret, 1)))
				continue
			}
			if !okFlag {
				continue
			}
			n++
			v := p.res(ret, 0)
			good := false
			for _, g := range guardsOf(ret.Block()) {
				c, isCall := p.resolve(g.Cond).(*ssa.Call)
				if isCall && g.Pol && p.expr(c.Common().Value) == "$g.fn" && len(c.Common().Args) == 1 && p.same(c.Common().Args[0], v) {
					good = true
				}
			}
			r.Check("(*filteredGen).maybeValue#accept", ret.Pos(), good, "(v, true) is returned only when fn(v) is true for that same v", "filteredGen returns (v, true) without fn(v) being true for the returned v")
		}
		r.Floor("accepting returns of filteredGen.maybeValue", n, 1)
	}
	// regexp re-check
	for _, c := range []struct{ fn, match string }{{"(*regexpStringGen).maybeString", "(*regexp.Regexp).MatchString"}, {"(*regexpSliceGen).maybeSlice", "(*regexp.Regexp).Match"}} {
		fn := r.MustFn(c.fn)
		if fn == nil {
			continue
		}
		n := 0
		for _, ret := range returnsOf(fn) {
			okFlag, isC := constBool(p.resolve(p.res(ret, 1)))
			if !isC || !okFlag {
				if !isC {
					r.Fail(c.fn+"#ok", ret.Pos(), "ok result is not a constant")
				}
				continue
			}
			n++
			v := p.res(ret, 0)
			good := false
			for _, g := range guardsOf(ret.Block()) {
				call, isCall := p.resolve(g.Cond).(*ssa.Call)
				if isCall && g.Pol && p.calleeKey(call.Common()) == c.match && len(call.Common().Args) == 2 && p.same(call.Common().Args[1], v) &&
					strings.HasSuffix(p.expr(call.Common().Args[0]), ".re") {
					good = true
				}
			}
			r.Check(c.fn+"#accept", ret.Pos(), good, "(v, true) only when the compiled regexp matches v", c.fn+" returns (v, true) without re-checking that the regexp matches the generated value")
		}
		r.Floor("accepting returns of "+c.fn, n, 1)
	}
	// find
	if fn := r.MustFn("find"); fn != nil {
		n := 0
		for _, ret := range returnsOf(fn) {
			n++
			v := p.resolve(p.res(ret, 0))
			ex, isEx := v.(*ssa.Extract)
			good := false
			if isEx && ex.Index == 0 {
				for _, g := range guardsOf(ret.Block()) {
					// ok, or the negation of !ok (a `discard := !ok` local tested false)
					cond, pol := g.Cond, g.Pol
					for k := 0; k < 3; k++ {
						if u, isNot := p.resolve(cond).(*ssa.UnOp); isNot && u.Op == token.NOT {
							cond, pol = u.X, !pol
							continue
						}
						break
					}
					if e2, ok := p.resolve(cond).(*ssa.Extract); ok && pol && e2.Tuple == ex.Tuple && e2.Index == 1 {
						good = true
					}
				}
			}
			r.Check("find#accept", ret.Pos(), good, "find returns v only when the attempt reported ok", "find returns a value without the attempt having reported ok")
		}
		r.Floor("returns of find", n, 1)
	}
}

// dependsOnCall reports whether v's defining expression contains a call of callee (within depth).
func (p *Program) dependsOnCall(v ssa.Value, callee string, depth int, seen map[ssa.Value]bool) bool {
	if v == nil || depth > 10 || seen[v] {
		return false
	}
	seen[v] = true
	v = p.resolve(v)
	if c, ok := v.(*ssa.Call); ok && p.calleeKey(c.Common()) == callee {
		return true
	}
	// results of a transparent helper with several returns: any of the returned values
	var tuple ssa.Value = v
	if e, ok := v.(*ssa.Extract); ok {
		tuple = e.Tuple
	}
	if c, ok := tuple.(*ssa.Call); ok {
		if sc := c.Common().StaticCallee(); sc != nil && p.transparent(sc) {
			if o := sc.Origin(); o != nil {
				sc = o
			}
			for _, ret := range returnsOf(sc) {
				for i := range ret.Results {
					if p.dependsOnCall(p.res(ret, i), callee, depth+1, seen) {
						return true
					}
				}
			}
		}
	}
	// … or of a method value / literal selected locally (`entry := g.keyAndVal; if … { entry = g.valAndItsKey }`)
	if c, ok := tuple.(*ssa.Call); ok {
		for _, lc := range p.localCallees(c.Common()) {
			for _, ret := range returnsOf(lc) {
				for i := range ret.Results {
					if p.dependsOnCall(p.res(ret, i), callee, depth+1, seen) {
						return true
					}
				}
			}
		}
	}
	in, ok := v.(ssa.Instruction)
	if !ok {
		return false
	}
	for _, op := range in.Operands(nil) {
		if *op != nil && p.dependsOnCall(*op, callee, depth+1, seen) {
			return true
		}
	}
	return false
}

func negLit(s string) string {
	rl := parseRel(s)
	if rl.Op == "" {
		return ""
	}
	if rl.Y == "true" && rl.Op == "==" {
		return rl.X + " == false"
	}
	if rl.Y == "false" && rl.Op == "==" {
		return rl.X + " == true"
	}
	return rl.X + " " + negOp[rl.Op] + " " + rl.Y
}

func ruleC03R2(r *Run) {
	p := r.P
	n := 0
	for _, fn := range p.FuncList {
		name := p.fnName(fn)
		if name == "(*T).Repeat" {
			continue // state machine steps: C08-R1
		}
		for _, rj := range p.callsTo(fn, "(*repeat).reject") {
			n++
			l := innermostLoop(rj.Instr)
			if l == nil {
				r.Fail(name+"#reject", rj.Instr.Pos(), "repeat.reject() outside a loop")
				continue
			}
			// path conditions (inside the loop) under which reject is reached
			inLoop := func(rl rel) bool { return true }
			rsets := p.pathConds(fn, rj.Instr.Block(), inLoop)
			// accumulating instructions of the loop
			nAcc := 0
			for b := range l.Body {
				for _, in := range b.Instrs {
					desc := ""
					switch x := in.(type) {
					case *ssa.MapUpdate:
						desc = "map store " + p.expr(x.Map) + "[…]"
					case *ssa.Call:
						switch p.calleeKey(x.Common()) {
						case "builtin:append":
							desc = "append"
						case "(reflect.Value).SetMapIndex":
							desc = "SetMapIndex"
						case "(*strings.Builder).WriteRune", "(*bytes.Buffer).WriteRune", "reflect.Append":
							desc = p.calleeKey(x.Common())
						}
					}
					if desc == "" {
						continue
					}
					nAcc++
					var afacts []string
					for _, f := range p.facts(in) {
						afacts = append(afacts, f.String())
					}
					// exclusive within one iteration: neither is reachable from the other without passing the loop header
					hdr := l.Header.Instrs[0]
					noPath := !reachable(rj.Instr, in, func(x ssa.Instruction) bool { return x == hdr }) && !reachable(in, rj.Instr, func(x ssa.Instruction) bool { return x == hdr })
					if noPath && in.Block() != rj.Instr.Block() {
						r.OK(name+"#"+desc, in.Pos(), desc+" and repeat.reject() never happen in the same iteration")
						continue
					}
					excl := len(rsets) > 0
					for _, set := range rsets {
						found := false
						for _, lit := range set {
							nl := negLit(lit)
							for _, af := range afacts {
								if af == nl {
									found = true
								}
							}
						}
						if !found {
							excl = false
						}
					}
					r.Check(name+"#"+desc, in.Pos(), excl, desc+" happens only on the branch where the element is not rejected",
						"in "+name+" the accumulation ("+desc+") is not exclusive with repeat.reject(): an element can be both kept and rejected (or kept although the duplicate/length test failed)")
				}
			}
			r.Floor("accumulating instructions in the rejecting loop of "+name, nAcc, 1)
			// the reject condition depends on the element drawn in this iteration
			dep := false
			for _, g := range guardsOf(rj.Instr.Block()) {
				if l.Body[g.If.Block()] && p.dependsOnCall(g.Cond, "(*Generator).value", 0, map[ssa.Value]bool{}) {
					dep = true
				}
			}
			if !dep {
				rjBlock := rj.Instr.Block()
				if at := p.liftTo(rj.Instr.(ssa.Instruction), fn); at != nil {
					rjBlock = at.Block() // reject() inside an inlined helper (rejectElem): the test sits at its call
				}
				for _, pr := range rjBlock.Preds {
					if iff, ok := pr.Instrs[len(pr.Instrs)-1].(*ssa.If); ok && l.Body[pr] && p.dependsOnCall(iff.Cond, "(*Generator).value", 0, map[ssa.Value]bool{}) {
						dep = true
					}
				}
			}
			r.Check(name+"#reject-test", rj.Instr.Pos(), dep, "the rejection test is computed from the element drawn in this iteration", "the test guarding repeat.reject() in "+name+" does not depend on the element just drawn")
		}
	}
	r.Floor("repeat.reject() sites in collection generators", n, 4)
}

func ruleC03R3(r *Run) {
	p := r.P
	n := 0
	for _, fn := range p.FuncList {
		for _, cs := range p.callsTo(fn, "genIndex") {
			n++
			name := p.fnName(fn)
			ln, ok := p.resolve(cs.Arg(1)).(*ssa.Call)
			if !ok || p.calleeKey(ln.Common()) != "builtin:len" {
				r.Fail(name+"#genIndex", cs.Instr.Pos(), "genIndex is not called with len(X) but with "+p.expr(cs.Arg(1)))
				continue
			}
			X := ln.Common().Args[0]
			used, good := 0, true
			var bad string
			if cs.Value().Referrers() != nil {
				for _, ref := range *cs.Value().Referrers() {
					var base ssa.Value
					switch x := ref.(type) {
					case *ssa.IndexAddr:
						base = x.X
					case *ssa.Index:
						base = x.X
					case *ssa.DebugRef:
						continue
					default:
						continue
					}
					used++
					if !(p.same(base, X) || p.expr(base) == p.expr(X)) {
						good = false
						bad = p.expr(base)
					}
				}
			}
			if used == 0 {
				r.OK(name+"#genIndex", cs.Instr.Pos(), "index drawn against len("+p.expr(X)+") is not used directly as an index (transformed first): not decided")
				continue
			}
			r.Check(name+"#genIndex", cs.Instr.Pos(), good && used > 0, "index drawn against len("+p.expr(X)+") indexes "+p.expr(X),
				fmt.Sprintf("index drawn against len(%s) is used to index %s (uses=%d): out-of-range panic or a value outside the sampled set", p.expr(X), bad, used))
		}
	}
	r.Floor("genIndex call sites", n, 5)
	if fn := r.MustFn("genIndex"); fn != nil {
		ok := false
		for _, cs := range p.callsTo(fn, "assert") {
			if p.expr(cs.Arg(0)) == "($n > 0)" {
				ok = true
			}
		}
		r.Check("genIndex#assert", fn.Pos(), ok, "genIndex asserts n > 0", "genIndex no longer asserts n > 0")
		// through the dispatcher genUintN or directly on the cores, every draw against max = n-1
		okRange, nDraws := true, 0
		for _, cs := range p.callsTo(fn, "genUintN", "genUintNBiased", "genUintNUnbiased", "genUintNNoReject") {
			nDraws++
			if p.expr(cs.Arg(1)) != "conv<uint64>(($n - 1))" {
				okRange = false
			}
		}
		okRange = okRange && nDraws > 0
		for _, ret := range returnsOf(fn) {
			// … and what is returned is the drawn value
			rv := p.stripConv(p.resolve(p.res(ret, 0)))
			if e, isEx := rv.(*ssa.Extract); isEx {
				rv = e.Tuple
			}
			if c, isCall := rv.(*ssa.Call); !isCall || !strings.HasPrefix(p.calleeKey(c.Common()), "genUintN") {
				okRange = false
			}
		}
		r.Check("genIndex#range", fn.Pos(), okRange, "genIndex draws in [0, n-1]", "genIndex no longer draws from [0, n-1]")
	}
}

func ruleC03R4(r *Run) {
	p := r.P
	fn := r.MustFn("(*bufBitStream).drawBits")
	if fn == nil {
		return
	}
	n := 0
	for _, fa := range p.fieldAccesses("bufBitStream") {
		if !p.within(fa.Fn, fn) || fa.Field != "buf" || fa.Kind != "read" {
			continue
		}
		ld := fa.Instr.(*ssa.UnOp)
		if ld.Referrers() == nil {
			continue
		}
		for _, ref := range *ld.Referrers() {
			switch ref.(type) {
			case *ssa.IndexAddr, *ssa.Slice:
				n++
				facts := p.facts(ref)
				ok := holds(facts, "builtin:len($s.buf)", "!=", "0") || holds(facts, "builtin:len($s.buf)", ">", "0")
				r.Check("(*bufBitStream).drawBits#guarded-access", ref.Pos(), ok, "buf is indexed/resliced only when non-empty", "buf is indexed/resliced without the guard len(buf) != 0: an exhausted buffer panics with an index error instead of invalidData")
			}
		}
	}
	r.Floor("guarded accesses to buf in drawBits", n, 2)
	// the empty edge
	found := false
	for _, b := range p.body(fn) {
		iff, ok := b.Instrs[len(b.Instrs)-1].(*ssa.If)
		if !ok {
			continue
		}
		rl := p.relOf(guard{Cond: iff.Cond, Pol: true})
		var empty *ssa.BasicBlock
		switch {
		case rl.X == "builtin:len($s.buf)" && rl.Op == "==" && rl.Y == "0":
			empty = b.Succs[0]
		case rl.X == "builtin:len($s.buf)" && (rl.Op == "!=" || rl.Op == ">") && rl.Y == "0":
			empty = b.Succs[1]
		default:
			continue
		}
		found = true
		first := empty.Instrs[0]
		var exit ssa.Instruction
		if _, isRet := first.(*ssa.Return); isRet {
			exit = first
		} else {
			exit = escapesWithout(first, func(ssa.Instruction) bool { return false }, false)
		}
		okPanic := false
		for _, in := range empty.Instrs {
			if pn, ok := in.(*ssa.Panic); ok && p.typeStr(panicType(pn)) == "invalidData" {
				okPanic = true
			}
		}
		r.Check("(*bufBitStream).drawBits#empty-edge", iff.Pos(), exit == nil && okPanic, "an exhausted buffer always panics with invalidData", "on an exhausted buffer drawBits can return normally (at "+posOf(p, exit)+") or does not panic with invalidData: the draw is not rejected as invalid data")
	}
	if !found {
		r.Fail("(*bufBitStream).drawBits#empty-edge", fn.Pos(), "no test of len(buf) == 0 in drawBits")
	}
}

// ---------------------------------------------------------------------------
// loop census

// mustDraw computes the functions that consume at least one bitstream word on every returning path.
func (p *Program) mustDraw() map[*ssa.Function]bool {
	D := map[*ssa.Function]bool{}
	isDrawCall := func(in ssa.Instruction) bool {
		c, ok := in.(*ssa.Call)
		if !ok {
			return false
		}
		key := p.calleeKey(c.Common())
		if key == "invoke:bitStream.drawBits" || strings.HasSuffix(key, ").drawBits") {
			return true
		}
		if sc := c.Common().StaticCallee(); sc != nil {
			if o := sc.Origin(); o != nil {
				sc = o
			}
			return D[sc]
		}
		return false
	}
	for changed := true; changed; {
		changed = false
		for _, fn := range p.FuncList {
			if D[fn] {
				continue
			}
			if escapesFromEntry(fn, isDrawCall, false) == nil && len(returnsOf(fn)) > 0 {
				D[fn] = true
				changed = true
			}
		}
	}
	return D
}

var loopExceptions = map[string]string{
	"(*T).cleanup":     "pop loop: the cleanup stack strictly shrinks per cycle (C10-R3); callbacks may push, which is the user's termination",
	"expandRangeTable": "runs at generator construction / once per regexp class (memoised); step is the table's Stride, >= 1 by unicode.RangeTable's contract (charClassGen passes 1)",
	"(*T).Context":     "no loop",
}

func ruleC03R5(r *Run) {
	p := r.P
	roots := generationRoots(r)
	for _, n := range []string{"checkFuzz", "loadFailFile"} {
		if f := r.MustFn(n); f != nil {
			roots = append(roots, f)
		}
	}
	cl := p.closureOf(roots)
	D := p.mustDraw()
	nLoops := 0
	classes := map[string]int{}
	for _, fn := range sortedFuncs(p, cl) {
		name := p.fnName(fn)
		for li, l := range loopsOf(fn) {
			nLoops++
			construct := fmt.Sprintf("%s#loop%d", name, li)
			pos := l.Header.Instrs[0].Pos()
			if !pos.IsValid() {
				for _, in := range l.Header.Instrs {
					if in.Pos().IsValid() {
						pos = in.Pos()
						break
					}
				}
			}
			class, detail := p.classifyLoop(fn, l, D)
			if class == "" {
				if reason, ok := loopExceptions[name]; ok {
					class, detail = "exception", reason
				}
			}
			if class == "" {
				r.Fail(construct, pos, "loop in "+name+" is neither a range loop, nor counted with a constant step towards an invariant bound, nor consumes a bitstream word / input on every cycle ("+detail+"): on a finite buffer it may never terminate")
				continue
			}
			classes[class]++
			r.OK(construct, pos, class+": "+detail)
		}
	}
	r.Floor("loops in the generation closure", nLoops, 25)
	r.Floor("bit-consuming loops", classes["bit-consuming"], 8)
	r.OK("census", token.NoPos, fmt.Sprintf("%d loops in %d functions: %v", nLoops, len(cl), classes))
}

func (p *Program) classifyLoop(fn *ssa.Function, l *loopInfo, D map[*ssa.Function]bool) (string, string) {
	h := l.Header
	if strings.HasPrefix(h.Comment, "range") {
		return "range", "range loop over a finite collection (" + h.Comment + ")"
	}
	// bit-consuming: no cycle through the header avoids a drawing call
	isDraw := func(in ssa.Instruction) bool {
		c, ok := in.(*ssa.Call)
		if !ok {
			return false
		}
		key := p.calleeKey(c.Common())
		if key == "invoke:bitStream.drawBits" {
			return true
		}
		if sc := c.Common().StaticCallee(); sc != nil {
			if o := sc.Origin(); o != nil {
				sc = o
			}
			return D[sc]
		}
		return false
	}
	cycleAvoiding := func(avoid func(ssa.Instruction) bool) bool {
		// is there a path header → … → header (inside the loop) without an avoided instruction?
		seen := map[*ssa.BasicBlock]bool{}
		var dfs func(b *ssa.BasicBlock, first bool) bool
		dfs = func(b *ssa.BasicBlock, first bool) bool {
			if b == h && !first {
				return true
			}
			if seen[b] && !first {
				return false
			}
			seen[b] = true
			for _, in := range b.Instrs {
				if avoid(in) {
					return false
				}
			}
			for _, s := range b.Succs {
				if l.Body[s] && dfs(s, false) {
					return true
				}
			}
			return false
		}
		return dfs(h, true)
	}
	if !cycleAvoiding(isDraw) {
		return "bit-consuming", "every cycle passes a call that draws at least one word from the bitstream"
	}
	// counted: some exit condition compares an induction phi (constant non-zero step) with a loop-invariant bound
	for b := range l.Body {
		iff, ok := b.Instrs[len(b.Instrs)-1].(*ssa.If)
		if !ok {
			continue
		}
		exits := !l.Body[b.Succs[0]] || !l.Body[b.Succs[1]]
		if !exits || !b.Dominates(l.Latch[0]) && b != h {
			continue
		}
		bo, ok := p.resolve(iff.Cond).(*ssa.BinOp)
		if !ok {
			continue
		}
		if _, cmp := negOp[bo.Op.String()]; !cmp {
			continue
		}
		for _, side := range [][2]ssa.Value{{bo.X, bo.Y}, {bo.Y, bo.X}} {
			ph, ok := p.stripConv(side[0]).(*ssa.Phi)
			if !ok || ph.Block() != h {
				continue
			}
			// bound invariant: defined outside the loop (or constant / parameter)
			bound := p.stripConv(side[1])
			inv := true
			if bi, ok := bound.(ssa.Instruction); ok && l.Body[bi.Block()] {
				// allow pure expressions of invariants one level deep (len of invariant, j+w with invariants)
				inv = p.invariantIn(bound, l, 0)
			}
			step, okStep := int64(0), true
			for i, e := range ph.Edges {
				if !h.Dominates(h.Preds[i]) {
					continue
				}
				er := p.stripConv(e)
				sb, ok := er.(*ssa.BinOp)
				if !ok || (sb.Op != token.ADD && sb.Op != token.SUB) || p.stripConv(sb.X) != ssa.Value(ph) {
					okStep = false
					continue
				}
				c, ok := constInt(p.resolve(sb.Y))
				if !ok || c == 0 {
					okStep = false
					continue
				}
				if sb.Op == token.SUB {
					c = -c
				}
				if step != 0 && step != c {
					okStep = false
				}
				step = c
			}
			if inv && okStep && step != 0 {
				init := "?"
				for i, e := range ph.Edges {
					if !h.Dominates(h.Preds[i]) {
						init = p.expr(p.stripConv(e))
					}
				}
				return "counted", fmt.Sprintf("induction variable %s changes by %d per cycle from %s towards the loop-invariant bound %s", ph.Comment, step, init, p.expr(bound))
			}
		}
	}
	// iterator-consuming: every cycle advances an iterator whose "more" result conditions a loop exit
	isAdvance := func(in ssa.Instruction) bool {
		c, ok := in.(*ssa.Call)
		if !ok {
			return false
		}
		k := p.calleeKey(c.Common())
		return k == "(*bufio.Scanner).Scan" || k == "(*runtime.Frames).Next"
	}
	if !cycleAvoiding(isAdvance) {
		return "input-consuming", "every cycle advances a finite iterator (Scanner.Scan / Frames.Next)"
	}
	// input-consuming
	for b := range l.Body {
		iff, ok := b.Instrs[len(b.Instrs)-1].(*ssa.If)
		if !ok || (l.Body[b.Succs[0]] && l.Body[b.Succs[1]]) {
			continue
		}
		cond := p.resolve(iff.Cond)
		if c, ok := cond.(*ssa.Call); ok {
			k := p.calleeKey(c.Common())
			if k == "(*bufio.Scanner).Scan" || k == "(*runtime.Frames).Next" {
				return "input-consuming", "iterator " + k + " advances on every cycle"
			}
		}
		if bo, ok := cond.(*ssa.BinOp); ok {
			if ln, ok := p.resolve(bo.X).(*ssa.Call); ok && p.calleeKey(ln.Common()) == "builtin:len" {
				if ph, ok := p.resolve(ln.Common().Args[0]).(*ssa.Phi); ok && ph.Block() == h {
					okAdv := true
					for i, e := range ph.Edges {
						if !h.Dominates(h.Preds[i]) {
							continue
						}
						sl, ok := p.resolve(e).(*ssa.Slice)
						if !ok || p.resolve(sl.X) != ssa.Value(ph) || sl.Low == nil {
							okAdv = false
							continue
						}
						low := p.resolve(sl.Low)
						if c, ok := constInt(low); ok && c > 0 {
							continue
						}
						if cp, ok := low.(*ssa.Call); ok && p.calleeKey(cp.Common()) == "builtin:copy" && p.resolve(cp.Common().Args[1]) == ssa.Value(ph) {
							// copy into a non-empty destination from a non-empty source copies >= 1 byte
							continue
						}
						okAdv = false
					}
					if okAdv {
						return "input-consuming", "the loop runs while len(" + ph.Comment + ") > 0 and reslices it by a positive amount per cycle"
					}
				}
			}
		}
	}
	return "", "header b" + fmt.Sprint(h.Index) + " (" + h.Comment + ")"
}

func (p *Program) invariantIn(v ssa.Value, l *loopInfo, d int) bool {
	if d > 4 {
		return false
	}
	v = p.stripConv(v)
	in, ok := v.(ssa.Instruction)
	if !ok || !l.Body[in.Block()] {
		return true
	}
	switch x := v.(type) {
	case *ssa.BinOp:
		return p.invariantIn(x.X, l, d+1) && p.invariantIn(x.Y, l, d+1)
	case *ssa.Call:
		if p.calleeKey(x.Common()) == "builtin:len" {
			return p.invariantIn(x.Common().Args[0], l, d+1)
		}
	case *ssa.UnOp:
		// load of a field of a parameter that is not stored in the loop: accept loads of receiver fields
		if x.Op == token.MUL {
			if fa, ok := x.X.(*ssa.FieldAddr); ok {
				for b := range l.Body {
					for _, i2 := range b.Instrs {
						if st, ok := i2.(*ssa.Store); ok {
							if f2, ok := st.Addr.(*ssa.FieldAddr); ok && f2.Field == fa.Field && p.fieldAddrOwner(f2) == p.fieldAddrOwner(fa) {
								return false
							}
						}
					}
				}
				return true
			}
		}
	case *ssa.Phi:
		return false
	}
	return false
}

// ---------------------------------------------------------------------------
// kind tables

var kindToBasic = map[string]types.BasicKind{
	"Bool": types.Bool, "Int": types.Int, "Int8": types.Int8, "Int16": types.Int16, "Int32": types.Int32, "Int64": types.Int64,
	"Uint": types.Uint, "Uint8": types.Uint8, "Uint16": types.Uint16, "Uint32": types.Uint32, "Uint64": types.Uint64, "Uintptr": types.Uintptr,
	"Float32": types.Float32, "Float64": types.Float64, "String": types.String,
}

func (p *Program) funcDecl(name string) *ast.FuncDecl {
	for _, f := range p.Files {
		for _, d := range f.Decls {
			if fd, ok := d.(*ast.FuncDecl); ok && fd.Name.Name == name && fd.Recv == nil {
				return fd
			}
		}
	}
	return nil
}

func ruleC03R6(r *Run) {
	p := r.P
	// (i) Make's kind switch
	if fd := p.funcDecl("newMakeKindGen"); fd == nil {
		r.Undecided("anchor:newMakeKindGen", token.NoPos, "anchor unresolved: function newMakeKindGen")
	} else {
		var sw *ast.SwitchStmt
		ast.Inspect(fd.Body, func(n ast.Node) bool {
			if s, ok := n.(*ast.SwitchStmt); ok && sw == nil {
				sw = s
			}
			return true
		})
		if sw == nil {
			r.Undecided("newMakeKindGen#switch", fd.Pos(), "no switch statement in newMakeKindGen")
		} else {
			nScalar, nCases, hasDefault := 0, 0, false
			// the scalar kinds may be dispatched by a helper tried first: `if g := helper(typ.Kind()); g != nil { return g, true }`
			// with a switch of its own whose cases return <generator>.AsAny() and whose default returns nil
			type kindSwitch struct {
				sw       *ast.SwitchStmt
				castFlag *bool // the flag returned with the helper's hit
			}
			switches := []kindSwitch{{sw: sw}}
			for _, st := range fd.Body.List {
				ifs, ok := st.(*ast.IfStmt)
				if !ok || ifs.Init == nil || len(ifs.Body.List) != 1 {
					continue
				}
				as, ok := ifs.Init.(*ast.AssignStmt)
				if !ok || len(as.Lhs) != 1 || len(as.Rhs) != 1 {
					continue
				}
				ce, ok := as.Rhs[0].(*ast.CallExpr)
				if !ok {
					continue
				}
				hid, ok := ce.Fun.(*ast.Ident)
				if !ok {
					continue
				}
				cond, ok := ifs.Cond.(*ast.BinaryExpr)
				if !ok || cond.Op != token.NEQ {
					continue
				}
				rs, ok := ifs.Body.List[0].(*ast.ReturnStmt)
				if !ok || len(rs.Results) != 2 {
					continue
				}
				lhs, ok1 := as.Lhs[0].(*ast.Ident)
				ret0, ok2 := rs.Results[0].(*ast.Ident)
				if !ok1 || !ok2 || lhs.Name != ret0.Name {
					continue
				}
				hd := p.funcDecl(hid.Name)
				if hd == nil {
					continue
				}
				var hsw *ast.SwitchStmt
				ast.Inspect(hd.Body, func(n ast.Node) bool {
					if s, ok := n.(*ast.SwitchStmt); ok && hsw == nil {
						hsw = s
					}
					return true
				})
				if hsw == nil {
					continue
				}
				var flag *bool
				if tv, ok := p.Info.Types[rs.Results[1]]; ok && tv.Value != nil && tv.Value.Kind() == constant.Bool {
					b := constant.BoolVal(tv.Value)
					flag = &b
				}
				switches = append(switches, kindSwitch{sw: hsw, castFlag: flag})
			}
			for _, ks := range switches {
				sw := ks.sw
				for _, st := range sw.Body.List {
					cc := st.(*ast.CaseClause)
					if cc.List == nil {
						if ks.castFlag != nil || sw != switches[0].sw {
							continue // the helper's default hands back nil: the main switch decides
						}
						hasDefault = true
						okPanic := false
						for _, s := range cc.Body {
							if es, ok := s.(*ast.ExprStmt); ok {
								if ce, ok := es.X.(*ast.CallExpr); ok {
									if id, ok := ce.Fun.(*ast.Ident); ok && id.Name == "panic" {
										okPanic = true
									}
								}
							}
						}
						r.Check("newMakeKindGen#default", cc.Pos(), okPanic, "unsupported kinds panic", "the default case of Make's kind switch does not panic")
						continue
					}
					for _, e := range cc.List {
						nCases++
						sel, ok := e.(*ast.SelectorExpr)
						if !ok {
							continue
						}
						kind := sel.Sel.Name
						// returned generator
						var retCall *ast.CallExpr
						for _, s := range cc.Body {
							if rs, ok := s.(*ast.ReturnStmt); ok && len(rs.Results) > 0 {
								retCall, _ = rs.Results[0].(*ast.CallExpr)
							}
						}
						if retCall == nil {
							continue
						}
						// second result: a scalar generator yields the predeclared type (bool, int, …), so values for a
						// named type of that kind (type Celsius float64) must still be converted: mayNeedCast must be true;
						// the reflect-built composites already have the requested type
						var castFlag *bool
						if sw != switches[0].sw {
							castFlag = ks.castFlag
						}
						for _, s := range cc.Body {
							if rs, ok := s.(*ast.ReturnStmt); ok && len(rs.Results) == 2 {
								if tv, ok := p.Info.Types[rs.Results[1]]; ok && tv.Value != nil && tv.Value.Kind() == constant.Bool {
									b := constant.BoolVal(tv.Value)
									castFlag = &b
								}
							}
						}
						asAny, ok := retCall.Fun.(*ast.SelectorExpr)
						if !ok || asAny.Sel.Name != "AsAny" {
							continue // composite kinds
						}
						r.Check("newMakeKindGen#cast."+kind, cc.Pos(), castFlag != nil && *castFlag, "values of reflect."+kind+" generators are converted to named types of that kind", "Make does not request a conversion for reflect."+kind+" (mayNeedCast is not true): for a named type of that kind the generated value has the predeclared type and Make[V] panics in its type assertion")
						nScalar++
						tv, ok := p.Info.Types[asAny.X]
						good, got := false, "?"
						if ok {
							if pt, ok := tv.Type.(*types.Pointer); ok {
								if nt, ok := pt.Elem().(*types.Named); ok && nt.TypeArgs() != nil && nt.TypeArgs().Len() == 1 {
									got = nt.TypeArgs().At(0).String()
									if bt, ok := nt.TypeArgs().At(0).Underlying().(*types.Basic); ok {
										good = bt.Kind() == kindToBasic[kind]
									}
								}
							}
						}
						r.Check("newMakeKindGen#case."+kind, cc.Pos(), good, "reflect."+kind+" is generated by a generator of "+got, "Make maps reflect."+kind+" to a generator of "+got+": the value does not have the requested dynamic type")
					}
				}
			}
			// scalar kinds kept in a package-level table map[reflect.Kind]func() *Generator[any] instead of switch cases:
			// the same agreement per entry; the lookup site returns (table[kind](), true)
			for _, f := range p.Files {
				for _, d := range f.Decls {
					gd, ok := d.(*ast.GenDecl)
					if !ok || gd.Tok != token.VAR {
						continue
					}
					for _, sp := range gd.Specs {
						vs, ok := sp.(*ast.ValueSpec)
						if !ok || len(vs.Values) != 1 {
							continue
						}
						cl, ok := vs.Values[0].(*ast.CompositeLit)
						if !ok {
							continue
						}
						mt, ok := p.Info.Types[cl].Type.Underlying().(*types.Map)
						if !ok || mt.Key().String() != "reflect.Kind" {
							continue
						}
						// the table is consulted by newMakeKindGen, whose hit returns mayNeedCast = true
						castTrue := false
						ast.Inspect(fd.Body, func(n ast.Node) bool {
							rs, ok := n.(*ast.ReturnStmt)
							if !ok || len(rs.Results) != 2 {
								return true
							}
							ce, isCall := rs.Results[0].(*ast.CallExpr)
							tv, hasTV := p.Info.Types[rs.Results[1]]
							if isCall && hasTV && tv.Value != nil && tv.Value.Kind() == constant.Bool && constant.BoolVal(tv.Value) {
								if _, isIdent := ce.Fun.(*ast.Ident); isIdent {
									castTrue = true
								}
								if ix, isIx := ce.Fun.(*ast.IndexExpr); isIx {
									if id, ok := ix.X.(*ast.Ident); ok && len(vs.Names) == 1 && id.Name == vs.Names[0].Name {
										castTrue = true
									}
								}
							}
							return true
						})
						for _, el := range cl.Elts {
							kv, ok := el.(*ast.KeyValueExpr)
							if !ok {
								continue
							}
							sel, ok := kv.Key.(*ast.SelectorExpr)
							if !ok {
								continue
							}
							kind := sel.Sel.Name
							nCases++
							// the value: func() *Generator[any] { return X().AsAny() }
							var asAny *ast.SelectorExpr
							if fl, ok := kv.Value.(*ast.FuncLit); ok && len(fl.Body.List) == 1 {
								if rs, ok := fl.Body.List[0].(*ast.ReturnStmt); ok && len(rs.Results) == 1 {
									if ce, ok := rs.Results[0].(*ast.CallExpr); ok {
										asAny, _ = ce.Fun.(*ast.SelectorExpr)
									}
								}
							}
							// … or adapter(X) with `func adapter[V any](ctor func() *Generator[V]) func() *Generator[any] { return
							// func() *Generator[any] { return ctor().AsAny() } }`: the generator type is X's result
							var viaAdapter types.Type
							if asAny == nil {
								if ce, ok := kv.Value.(*ast.CallExpr); ok && len(ce.Args) == 1 {
									if t := p.asAnyAdapterResult(ce); t != nil {
										viaAdapter = t
									}
								}
							}
							if viaAdapter == nil && (asAny == nil || asAny.Sel.Name != "AsAny") {
								r.Fail("newMakeKindGen#case."+kind, kv.Pos(), "the table entry for reflect."+kind+" is not a function returning <generator>.AsAny()")
								continue
							}
							if viaAdapter != nil {
								r.Check("newMakeKindGen#cast."+kind, kv.Pos(), castTrue, "values of reflect."+kind+" generators are converted to named types of that kind", "Make does not request a conversion for reflect."+kind+" (the table hit does not return mayNeedCast = true)")
								nScalar++
								good, got := false, "?"
								if pt, ok := viaAdapter.(*types.Pointer); ok {
									if nt, ok := pt.Elem().(*types.Named); ok && nt.TypeArgs() != nil && nt.TypeArgs().Len() == 1 {
										got = nt.TypeArgs().At(0).String()
										if bt, ok := nt.TypeArgs().At(0).Underlying().(*types.Basic); ok {
											good = bt.Kind() == kindToBasic[kind]
										}
									}
								}
								r.Check("newMakeKindGen#case."+kind, kv.Pos(), good, "reflect."+kind+" is generated by a generator of "+got, "Make maps reflect."+kind+" to a generator of "+got+": the value does not have the requested dynamic type")
								continue
							}
							r.Check("newMakeKindGen#cast."+kind, kv.Pos(), castTrue, "values of reflect."+kind+" generators are converted to named types of that kind", "Make does not request a conversion for reflect."+kind+" (the table hit does not return mayNeedCast = true)")
							nScalar++
							tv, ok := p.Info.Types[asAny.X]
							good, got := false, "?"
							if ok {
								if pt, ok := tv.Type.(*types.Pointer); ok {
									if nt, ok := pt.Elem().(*types.Named); ok && nt.TypeArgs() != nil && nt.TypeArgs().Len() == 1 {
										got = nt.TypeArgs().At(0).String()
										if bt, ok := nt.TypeArgs().At(0).Underlying().(*types.Basic); ok {
											good = bt.Kind() == kindToBasic[kind]
										}
									}
								}
							}
							r.Check("newMakeKindGen#case."+kind, kv.Pos(), good, "reflect."+kind+" is generated by a generator of "+got, "Make maps reflect."+kind+" to a generator of "+got+": the value does not have the requested dynamic type")
						}
					}
				}
			}
			// the consumer of the flag: the kind generator is returned as it is only where no conversion was requested or
			// the type is the predeclared type of its kind (its name is the kind's name)
			if mg := r.MustFn("newMakeGen"); mg != nil {
				nRaw := 0
				for _, ret := range returnsOf(mg) {
					for _, a := range p.alternatives(p.res(ret, 0), 0) {
						rv := p.resolve(a.Val)
						if ex, isEx := rv.(*ssa.Extract); isEx && ex.Index == 0 {
							if c, ok := ex.Tuple.(*ssa.Call); ok && p.calleeKey(c.Common()) == "newMakeKindGen" && p.expr(c.Common().Args[0]) == "$typ" {
								nRaw++
								flag := p.expr(ex.Tuple) + "#1"
								exempt := func(lits []string) bool {
									for _, lit := range lits {
										if lit == flag+" == false" || lit == flag+" != true" {
											return true
										}
										if (strings.Contains(lit, " == ")) && strings.Contains(lit, "reflect.Type.String($typ)") && strings.Contains(lit, "(reflect.Kind).String(invoke:reflect.Type.Kind($typ))") {
											return true
										}
									}
									return false
								}
								var fl []string
								for _, f := range a.Facts {
									fl = append(fl, f.String())
								}
								bad := ""
								if !exempt(fl) {
									for _, set := range p.pathConds(mg, ret.Block(), nil) {
										if !exempt(append(append([]string{}, set...), fl...)) {
											bad = "{" + strings.Join(append(append([]string{}, set...), fl...), " ∧ ") + "}"
										}
									}
								}
								r.Check("newMakeGen#uncast-return", ret.Pos(), bad == "", "the kind generator is used without conversion only if none was requested or the type is the predeclared one", "newMakeGen returns the kind generator without a conversion on the path "+bad+": for a named type of a scalar kind the value has the predeclared type and Make[V] panics in its type assertion")
								continue
							}
						}
						// the converting wrapper built here from the same type
						if c, ok := rv.(*ssa.Call); ok && p.calleeKey(c.Common()) == "newGenerator" {
							okWrap := false
							if al, ok := p.resolve(c.Common().Args[0]).(*ssa.Alloc); ok && p.typeStr(al.Type()) == "*castGen" {
								okWrap = true
								for _, ref := range *al.Referrers() {
									if fa, ok := ref.(*ssa.FieldAddr); ok && fieldAddrName(fa) == "typ" {
										for _, u := range *fa.Referrers() {
											if st, ok := u.(*ssa.Store); ok && p.expr(st.Val) != "$typ" {
												okWrap = false
											}
										}
									}
								}
							}
							r.Check("newMakeGen#cast-to-requested-type", ret.Pos(), okWrap, "the converting generator converts to the requested type", "newMakeGen wraps the kind generator in "+p.expr(rv)+", which does not convert to the requested type typ")
							continue
						}
						// anything else (a cache entry, a generator built for another type) must be keyed by the type itself
						okKey := false
						if ta, ok := rv.(*ssa.TypeAssert); ok {
							if ld, ok := p.resolve(ta.X).(*ssa.Extract); ok {
								if c, ok := ld.Tuple.(*ssa.Call); ok && strings.HasPrefix(p.calleeKey(c.Common()), "(*sync.Map).Load") && len(c.Common().Args) > 1 {
									okKey = p.expr(c.Common().Args[1]) == "$typ"
								}
							}
						}
						r.Check("newMakeGen#result-built-for-typ", ret.Pos(), okKey, "a reused generator is looked up by the reflect.Type itself", "newMakeGen can return "+p.expr(rv)+", which is not built in this call from typ (nor looked up by typ itself): two distinct types that print the same (same name in two scopes or packages) get one generator, and the value does not have the requested dynamic type")
					}
				}
				r.Floor("unconverted returns of newMakeGen", nRaw, 1)
			}
			r.Floor("scalar kinds handled by Make", nScalar, 15)
			r.Floor("kinds handled by Make", nCases, 20)
			r.Check("newMakeKindGen#has-default", sw.Pos(), hasDefault, "kind switch has a default", "kind switch has no default case")
		}
	}
	// (ii) integerKindToInfo vs Go types
	kindOfCtor := map[string]types.Type{} // kind constant name -> Go type
	kindVal := map[string]string{}        // kind const name -> string value
	for _, f := range p.Files {
		ast.Inspect(f, func(n ast.Node) bool {
			ce, ok := n.(*ast.CallExpr)
			if !ok {
				return true
			}
			var fun ast.Expr = ce.Fun
			ix, ok := fun.(*ast.IndexExpr)
			if !ok {
				return true
			}
			id, ok := ix.X.(*ast.Ident)
			if !ok || !(id.Name == "newIntegerGen" || strings.HasPrefix(id.Name, "newInt") || strings.HasPrefix(id.Name, "newUint")) || len(ce.Args) == 0 {
				return true
			}
			kid, ok := ce.Args[0].(*ast.Ident)
			if !ok {
				return true
			}
			tv, ok := p.Info.Types[ix.Index]
			if !ok {
				return true
			}
			if old, dup := kindOfCtor[kid.Name]; dup && !types.Identical(old, tv.Type) {
				r.Fail("integer-ctor."+kid.Name, ce.Pos(), fmt.Sprintf("kind %s is used for both %s and %s", kid.Name, old, tv.Type))
			}
			kindOfCtor[kid.Name] = tv.Type
			if c, ok := p.Info.Types[kid]; ok && c.Value != nil {
				kindVal[kid.Name] = constant.StringVal(c.Value)
			}
			return true
		})
	}
	r.Floor("integer kinds used by public constructors", len(kindOfCtor), 12)
	sizes := types.SizesFor("gc", p.GOARCH)
	// the table literal
	var table *ast.CompositeLit
	for _, f := range p.Files {
		for _, d := range f.Decls {
			gd, ok := d.(*ast.GenDecl)
			if !ok {
				continue
			}
			for _, sp := range gd.Specs {
				vs, ok := sp.(*ast.ValueSpec)
				if !ok {
					continue
				}
				for i, nm := range vs.Names {
					if nm.Name == "integerKindToInfo" && i < len(vs.Values) {
						table, _ = vs.Values[i].(*ast.CompositeLit)
					}
				}
			}
		}
	}
	if table == nil {
		r.Undecided("anchor:integerKindToInfo", token.NoPos, "anchor unresolved: table integerKindToInfo")
	} else {
		seen := 0
		for _, el := range table.Elts {
			kv, ok := el.(*ast.KeyValueExpr)
			if !ok {
				continue
			}
			kid, ok := kv.Key.(*ast.Ident)
			if !ok {
				continue
			}
			typ, ok := kindOfCtor[kid.Name]
			if !ok {
				r.Fail("integerKindToInfo."+kid.Name, kv.Pos(), "table entry "+kid.Name+" is used by no constructor")
				continue
			}
			seen++
			bt := typ.Underlying().(*types.Basic)
			bits := sizes.Sizeof(typ) * 8
			unsigned := bt.Info()&types.IsUnsigned != 0
			fields := map[string]constant.Value{}
			if cl, ok := kv.Value.(*ast.CompositeLit); ok {
				for _, fe := range cl.Elts {
					if fkv, ok := fe.(*ast.KeyValueExpr); ok {
						if fid, ok := fkv.Key.(*ast.Ident); ok {
							if tv, ok := p.Info.Types[fkv.Value]; ok && tv.Value != nil {
								fields[fid.Name] = tv.Value
							}
						}
					}
				}
			}
			get := func(n string) constant.Value {
				if v, ok := fields[n]; ok {
					return v
				}
				if n == "signed" {
					return constant.MakeBool(false)
				}
				return constant.MakeInt64(0)
			}
			var errs []string
			if constant.BoolVal(get("signed")) == unsigned {
				errs = append(errs, fmt.Sprintf("signed=%v but %s is %s", constant.BoolVal(get("signed")), typ, map[bool]string{true: "unsigned", false: "signed"}[unsigned]))
			}
			if sz, _ := constant.Int64Val(get("size")); sz != bits/8 {
				errs = append(errs, fmt.Sprintf("size=%d but sizeof(%s)=%d on %s", sz, typ, bits/8, p.GOARCH))
			}
			if unsigned {
				want := constant.BinaryOp(constant.Shift(constant.MakeInt64(1), token.SHL, uint(bits)), token.SUB, constant.MakeInt64(1))
				if !constant.Compare(constant.ToInt(get("umax")), token.EQL, want) {
					errs = append(errs, fmt.Sprintf("umax=%s but max(%s)=%s", get("umax"), typ, want))
				}
			} else {
				hi := constant.BinaryOp(constant.Shift(constant.MakeInt64(1), token.SHL, uint(bits-1)), token.SUB, constant.MakeInt64(1))
				lo := constant.UnaryOp(token.SUB, constant.Shift(constant.MakeInt64(1), token.SHL, uint(bits-1)), 0)
				if !constant.Compare(constant.ToInt(get("smax")), token.EQL, hi) {
					errs = append(errs, fmt.Sprintf("smax=%s but max(%s)=%s", get("smax"), typ, hi))
				}
				if !constant.Compare(constant.ToInt(get("smin")), token.EQL, lo) {
					errs = append(errs, fmt.Sprintf("smin=%s but min(%s)=%s", get("smin"), typ, lo))
				}
			}
			r.Check("integerKindToInfo."+kid.Name, kv.Pos(), len(errs) == 0, fmt.Sprintf("entry %s matches Go type %s (%d bits) on %s", kid.Name, typ, bits, p.GOARCH), "integerKindToInfo["+kid.Name+"] disagrees with Go type "+typ.String()+": "+strings.Join(errs, "; "))
		}
		r.Floor("integerKindToInfo entries checked", seen, 12)
	}
	// each public constructor's type argument matches its kind constant's name (Int8() → int8Kind → int8)
	for kname, typ := range kindOfCtor {
		v := kindVal[kname]
		want, ok := kindToBasic[v]
		if v == "Byte" {
			want, ok = types.Uint8, true
		}
		bt, isB := typ.Underlying().(*types.Basic)
		r.Check("integer-ctor."+kname, token.NoPos, ok && isB && bt.Kind() == want, "kind "+v+" is instantiated with "+typ.String(), "kind "+v+" is instantiated with Go type "+typ.String())
	}
	// (iii) range constructors
	for _, c := range []struct {
		fn    string
		param string
		field string
	}{
		{"newIntRangeGen", "min", "smin"}, {"newIntRangeGen", "max", "smax"}, {"newIntMinGen", "min", "smin"}, {"newIntMaxGen", "max", "smax"},
		{"newUintRangeGen", "min", "umin"}, {"newUintRangeGen", "max", "umax"}, {"newUintMinGen", "min", "umin"}, {"newUintMaxGen", "max", "umax"},
	} {
		fn := r.MustFn(c.fn)
		if fn == nil {
			continue
		}
		par := paramNamed(fn, c.param)
		found := false
		for _, b := range p.body(fn) {
			for _, in := range b.Instrs {
				st, ok := in.(*ssa.Store)
				if !ok {
					continue
				}
				fa, ok := st.Addr.(*ssa.FieldAddr)
				if !ok {
					continue
				}
				fname := fieldAddrName(fa)
				if p.resolve(st.Val) == ssa.Value(par) {
					found = true
					r.Check(c.fn+"#store."+c.param, st.Pos(), fname == c.field, c.param+" is stored into "+c.field, "parameter "+c.param+" of "+c.fn+" is stored into field "+fname+" instead of "+c.field)
				}
			}
		}
		if !found {
			r.Fail(c.fn+"#store."+c.param, fn.Pos(), "parameter "+c.param+" of "+c.fn+" is not stored into the generator")
		}
	}
	for _, name := range []string{"newIntRangeGen", "newUintRangeGen"} {
		if fn := r.MustFn(name); fn != nil {
			ok := false
			for _, cs := range p.callsTo(fn, "assertf") {
				if p.expr(cs.Arg(0)) == "($min <= $max)" {
					ok = true
				}
			}
			r.Check(name+"#assert", fn.Pos(), ok, "asserts min <= max", name+" no longer asserts min <= max")
		}
	}
	// integerGen.value passes the stored bounds to the range cores in order
	if fn := r.MustFn("(*integerGen).value"); fn != nil {
		for _, cs := range p.callsTo(fn, "genIntRange") {
			r.Check("(*integerGen).value#signed", cs.Instr.Pos(), strings.HasSuffix(p.expr(cs.Arg(1)), ".smin") && strings.HasSuffix(p.expr(cs.Arg(2)), ".smax") && holds(p.facts(cs.Instr), "$g.integerKindInfo.signed", "==", "true"),
				"signed kinds draw from [smin, smax]", "signed draw uses "+p.expr(cs.Arg(1))+", "+p.expr(cs.Arg(2)))
		}
		for _, cs := range p.callsTo(fn, "genUintRange") {
			r.Check("(*integerGen).value#unsigned", cs.Instr.Pos(), strings.HasSuffix(p.expr(cs.Arg(1)), ".umin") && strings.HasSuffix(p.expr(cs.Arg(2)), ".umax") && holds(p.facts(cs.Instr), "$g.integerKindInfo.signed", "==", "false"),
				"unsigned kinds draw from [umin, umax]", "unsigned draw uses "+p.expr(cs.Arg(1))+", "+p.expr(cs.Arg(2)))
		}
	}
}

func ruleC03R8(r *Run) {
	p := r.P
	fn := r.MustFn("(*ptrGen).value")
	if fn == nil {
		return
	}
	n := 0
	for _, ret := range returnsOf(fn) {
		if !isNilConst(p.resolve(p.res(ret, 0))) {
			continue
		}
		n++
		// guarded by the false edge of flipBiasedCoin(s, pNonNil)
		var coin *ssa.Call
		for _, g := range guardsOf(ret.Block()) {
			if c, ok := p.resolve(g.Cond).(*ssa.Call); ok && !g.Pol && p.calleeKey(c.Common()) == "flipBiasedCoin" {
				coin = c
			}
		}
		if coin == nil {
			r.Fail("(*ptrGen).value#nil", ret.Pos(), "nil is returned on a path that is not the false edge of the non-nil coin")
			continue
		}
		// the values the non-nil probability can take (phi edges / returns of a helper), with their facts
		alts := p.alternatives(coin.Common().Args[1], 0)
		ok := len(alts) > 1
		detail := p.expr(coin.Common().Args[1])
		for _, a := range alts {
			facts := append(append([]rel{}, a.Facts...), p.facts(coin)...)
			allow := holds(facts, "$g.allowNil", "==", "true")
			c, isC := p.resolve(a.Val).(*ssa.Const)
			if !allow {
				// must be exactly 1
				if !isC || p.expr(c) != "1" {
					ok = false
					detail = "probability on the !allowNil path is " + p.expr(a.Val)
				}
			}
		}
		r.Check("(*ptrGen).value#nil", ret.Pos(), ok, "nil only through a coin whose non-nil probability is the constant 1 unless allowNil", "Ptr can return nil although allowNil is false: "+detail)
	}
	r.Floor("nil returns of ptrGen.value", n, 1)
}

// ruleRepeatOwnState (part of C03-R9; C04-R4.11 and the prune bundle): the fields of repeat are written only by
// newRepeat, more and reject. For C03 the length guarantees rest on invariants only they maintain; for C04 the only
// state derived from a rejection that may steer a later draw is the one C04-R4.4 reviews inside them (forceStop, read
// after the replay-neutral zero coin) — a generator that adjusts maxCount, count or pContinue after a rejection makes
// a stop decision that prune() cannot reproduce.
func ruleRepeatOwnState(r *Run) {
	p := r.P
	owners := map[string]bool{"newRepeat": true, "(*repeat).more": true, "(*repeat).reject": true}
	n := 0
	for _, fa := range p.fieldAccesses("repeat") {
		if fa.Kind == "read" {
			continue
		}
		n++
		name := p.hostName(fa.Fn)
		r.Check(name+"#repeat."+fa.Field+"."+fa.Kind, fa.Instr.Pos(), owners[name] && fa.Kind == "write", "length-control state is written by the repeat type itself",
			"repeat."+fa.Field+" is written ("+fa.Kind+") in "+name+": the minimum/maximum length guarantees of more()/reject() rely on invariants that only they maintain (e.g. forceStop ⇒ count >= minCount), and a stop or continue decision steered from outside them — for instance after a rejection — is not reproduced when the rejected attempt is pruned from the recording")
	}
	r.Floor("stores to repeat fields", n, 12)
}

func ruleC03R9(r *Run) {
	p := r.P
	ruleRepeatOwnState(r)
	// newRepeat reads a negative maximum as "unlimited": a maximum that is computed (len(s)-1, max-min, …) must be
	// known non-negative at the call, or the loop it bounds loses its bound for the degenerate input
	nNR := 0
	for _, fn := range p.FuncList {
		for _, cs := range p.callsTo(fn, "newRepeat") {
			nNR++
			okAll, detail := true, ""
			for _, a := range p.alternatives(cs.Arg(1), 0) {
				av := p.resolve(a.Val)
				bo, isArith := av.(*ssa.BinOp)
				if !isArith {
					continue // constant, or a limit validated where the generator was built (-1 = unlimited by contract)
				}
				facts := append(p.facts(cs.Instr), a.Facts...)
				ex := p.expr(bo)
				if !(holds(facts, ex, ">=", "0") || holds(facts, ex, ">", "0") || holds(facts, ex, ">", "-1") || nonNegDifference(p, bo, facts)) {
					okAll, detail = false, ex
				}
			}
			r.Check(p.hostName(fn)+"#newRepeat.max-non-negative", cs.Instr.Pos(), okAll, "the maximum count is a constant, a validated limit, or a computed value known to be >= 0", "the maximum count "+detail+" is computed and can be negative, which newRepeat reads as 'unlimited': for the degenerate input the loop is unbounded and the generator fails or breaks its contract")
		}
	}
	r.Floor("newRepeat call sites", nNR, 7)
	if fn := r.MustFn("(*repeat).reject"); fn != nil {
		nFS := 0
		for _, fa := range p.fieldAccesses("repeat") {
			if !p.within(fa.Fn, fn) || fa.Field != "forceStop" || fa.Kind != "write" {
				continue
			}
			nFS++
			facts := p.facts(fa.Instr)
			r.Check("(*repeat).reject#forceStop", fa.Instr.Pos(), holds(facts, "$r.count", ">=", "$r.minCount"), "a forced stop is requested only when the minimum count is already reached", "reject sets forceStop without count >= minCount: a collection can end below its minimum length")
		}
		r.Floor("forceStop stores in reject", nFS, 1)
		okPanic := false
		for _, b := range p.body(fn) {
			for _, in := range b.Instrs {
				if pn, ok := in.(*ssa.Panic); ok && p.typeStr(panicType(pn)) == "invalidData" && holds(p.facts(pn), "$r.count", "<", "$r.minCount") {
					okPanic = true
				}
			}
		}
		r.Check("(*repeat).reject#give-up", fn.Pos(), okPanic, "too many rejections below the minimum count raise invalid data", "reject no longer raises invalidData when the minimum count cannot be reached")
	}
	if fn := r.MustFn("(*repeat).more"); fn != nil {
		// the continue probability (a phi, or one coin call per case): the constant 1 below minCount, the constant 0 at maxCount
		okMin, okMax, seenMin, seenMax := true, true, false, false
		var pos token.Pos
		nAlt := 0
		// the coins of more: flipBiasedCoin(s, p) calls, or the coin written out as genFloat01(s) >= 1-p
		type coin struct {
			p  ssa.Value
			at ssa.Instruction
		}
		var coins []coin
		for _, cs := range p.callsTo(fn, "flipBiasedCoin") {
			coins = append(coins, coin{cs.Arg(1), cs.Instr})
		}
		for _, b := range p.body(fn) {
			for _, in := range b.Instrs {
				bo, ok := in.(*ssa.BinOp)
				if !ok || bo.Op != token.GEQ {
					continue
				}
				c, isCall := p.resolve(bo.X).(*ssa.Call)
				sub, isSub := p.resolve(bo.Y).(*ssa.BinOp)
				if !isCall || !isSub || p.calleeKey(c.Common()) != "genFloat01" || sub.Op != token.SUB || p.expr(sub.X) != "1" {
					continue
				}
				coins = append(coins, coin{sub.Y, in})
			}
		}
		for _, cn := range coins {
			pos = cn.at.Pos()
			for _, a := range p.alternatives(cn.p, 0) {
				nAlt++
				facts := append(append([]rel{}, a.Facts...), p.facts(cn.at)...)
				c, isC := p.resolve(a.Val).(*ssa.Const)
				if holds(facts, "$r.count", "<", "$r.minCount") {
					seenMin = true
					if !(isC && p.expr(c) == "1") {
						okMin = false
					}
				} else if holds(facts, "$r.count", ">=", "$r.maxCount") {
					seenMax = true
					if !(isC && p.expr(c) == "0") {
						okMax = false
					}
				}
			}
		}
		if nAlt < 2 {
			r.Fail("(*repeat).more#pCont", pos, "continue probability is not a choice between forced and free")
		} else {
			r.Check("(*repeat).more#below-min-continues", pos, okMin && seenMin, "below minCount the continue probability is the constant 1", "below minCount more() does not force continuation: collections can be shorter than their minimum")
			r.Check("(*repeat).more#at-max-stops", pos, okMax && seenMax, "at maxCount the continue probability is the constant 0", "at maxCount more() does not force a stop: collections can exceed their maximum")
		}
	}
	if fn := r.MustFn("flipBiasedCoin"); fn != nil {
		ok := false
		for _, ret := range returnsOf(fn) {
			if bo, isB := p.resolve(p.res(ret, 0)).(*ssa.BinOp); isB && bo.Op == token.GEQ && p.expr(bo.Y) == "(1 - $p)" {
				ok = true
			}
		}
		r.Check("flipBiasedCoin#extremes", fn.Pos(), ok, "coin = f >= 1-p: p=1 always true (f >= 0), p=0 always false (f < 1)", "flipBiasedCoin is no longer f >= 1-p: probabilities 0 and 1 are not certain")
	}
}

// ruleC03R10: the byte-length limit of StringN/StringOfN. WriteRune encodes an un-encodable rune (surrogate half,
// > MaxRune) as the 3-byte U+FFFD while RuneLen reports -1 for it, so the budget test is only meaningful together with
// the RuneLen >= 0 test; both must hold where the rune is appended.
func ruleC03R10(r *Run) {
	p := r.P
	fn := r.MustFn("(*stringGen).value")
	if fn == nil {
		return
	}
	n := 0
	for _, cs := range p.callsTo(fn, "(*strings.Builder).WriteRune", "(*strings.Builder).WriteString", "(*strings.Builder).WriteByte") {
		n++
		ru := p.expr(cs.Arg(0))
		facts := p.facts(cs.Instr)
		okLen, okBudget := false, false
		for _, f := range facts {
			if f.X == "unicode/utf8.RuneLen("+ru+")" && ((f.Op == ">=" && f.Y == "0") || (f.Op == ">" && (f.Y == "0" || f.Y == "-1"))) {
				okLen = true
			}
		}
		// structurally: a dominating guard (Len(b) + RuneLen(r)) <= / < limit
		for _, g := range guardsOf(cs.Instr.Block()) {
			rl := p.relOf(g)
			lenLeft := (rl.Op == "<=" || rl.Op == "<") && strings.Contains(rl.X, "(*strings.Builder).Len(")
			lenRight := (rl.Op == ">=" || rl.Op == ">") && strings.Contains(rl.Y, "(*strings.Builder).Len(")
			if !lenLeft && !lenRight {
				continue
			}
			cond := p.resolve(g.Cond)
			for k := 0; k < 3; k++ {
				if u, ok := cond.(*ssa.UnOp); ok && u.Op == token.NOT {
					cond = p.resolve(u.X)
				}
			}
			bo, ok := cond.(*ssa.BinOp)
			if !ok {
				continue
			}
			for si, side := range []ssa.Value{bo.X, bo.Y} {
				sum, ok := p.resolve(side).(*ssa.BinOp)
				if !ok || sum.Op != token.ADD {
					continue
				}
				// the other side is the limit itself: g.maxLen, or "unlimited" (math.MaxInt) where maxLen < 0
				limitOK := true
				for _, a := range p.alternatives([]ssa.Value{bo.Y, bo.X}[si], 0) {
					e := p.expr(a.Val)
					if _, isC := p.resolve(a.Val).(*ssa.Const); isC {
						if e != "9223372036854775807" && e != "2147483647" { // math.MaxInt of the target
							limitOK = false
						}
					} else if e != "$g.maxLen" {
						limitOK = false
					}
				}
				if !limitOK {
					continue
				}
				hasLen, hasRune := false, false
				for _, op := range []ssa.Value{sum.X, sum.Y} {
					if c, ok := p.resolve(op).(*ssa.Call); ok {
						switch p.calleeKey(c.Common()) {
						case "(*strings.Builder).Len":
							hasLen = true
						case "unicode/utf8.RuneLen":
							hasRune = p.same(c.Common().Args[0], cs.Arg(0))
						}
					}
				}
				if hasLen && hasRune {
					okBudget = true
				}
			}
		}
		r.Check("(*stringGen).value#encodable", cs.Instr.Pos(), okLen, "a rune is appended only if utf8.RuneLen(r) >= 0", "stringGen.value appends a rune without having checked utf8.RuneLen(r) >= 0: an un-encodable rune is written as the 3-byte U+FFFD while the byte accounting uses -1, so the string can exceed maxLen and contains a rune the element generator never produced")
		r.Check("(*stringGen).value#fits", cs.Instr.Pos(), okBudget, "a rune is appended only if the bytes written so far plus its length stay within maxLen", "stringGen.value appends a rune without the test b.Len()+RuneLen(r) <= maxLen: the byte-length limit of StringN/StringOfN is not enforced")
	}
	r.Floor("appends in stringGen.value", n, 1)
}

// nonNegDifference: bo is X - c for a constant c, and the facts bound X from below by c (X > k with k >= c-1,
// X >= k with k >= c, or X != 0 for a length and c == 1).
func nonNegDifference(p *Program, bo *ssa.BinOp, facts []rel) bool {
	if bo.Op != token.SUB {
		return false
	}
	c, ok := constInt(p.resolve(bo.Y))
	if !ok {
		return false
	}
	x := p.expr(bo.X)
	for _, f := range facts {
		if f.X != x {
			continue
		}
		k, err := strconv.ParseInt(f.Y, 10, 64)
		if err != nil {
			continue
		}
		switch f.Op {
		case ">":
			if k >= c-1 {
				return true
			}
		case ">=":
			if k >= c {
				return true
			}
		case "!=":
			if k == 0 && c == 1 && strings.HasPrefix(x, "builtin:len(") {
				return true
			}
		}
	}
	return false
}

// ruleC03R11: must-draw. mustDraw(f) holds when every path from f's entry to a normal return passes a drawing call:
// bitStream.drawBits itself, a rapid function for which mustDraw holds (least fixed point), the generator wrapper
// (Generator.value / Draw / an impl's value through the interface: each impl is judged on its own, assume-guarantee),
// or find(gen, …) with gen bound to a must-draw function.
func ruleC03R11(r *Run) {
	p := r.P
	must := map[*ssa.Function]bool{}
	origin := func(f *ssa.Function) *ssa.Function {
		if f == nil {
			return nil
		}
		if o := f.Origin(); o != nil {
			return o
		}
		return f
	}
	// the function a func-typed operand is bound to (closure, method value, plain function)
	var boundFn func(v ssa.Value, d int) *ssa.Function
	boundFn = func(v ssa.Value, d int) *ssa.Function {
		if d > 4 {
			return nil
		}
		switch x := v.(type) {
		case *ssa.Function:
			return origin(x)
		case *ssa.MakeClosure:
			f := origin(x.Fn.(*ssa.Function))
			// a bound method value ($bound wrapper): the method itself
			if f.Synthetic != "" && len(f.Blocks) > 0 {
				for _, b := range f.Blocks {
					for _, in := range b.Instrs {
						if c, ok := in.(*ssa.Call); ok {
							if sc := c.Common().StaticCallee(); sc != nil {
								return origin(sc)
							}
						}
					}
				}
			}
			return f
		case *ssa.ChangeType:
			return boundFn(x.X, d+1)
		}
		if rv := p.resolve(v); rv != v {
			return boundFn(rv, d+1)
		}
		return nil
	}
	draws := func(in ssa.Instruction) bool {
		c, ok := in.(ssa.CallInstruction)
		if !ok {
			return false
		}
		if _, isDefer := in.(*ssa.Defer); isDefer {
			return false
		}
		if _, isGo := in.(*ssa.Go); isGo {
			return false
		}
		cc := c.Common()
		key := p.calleeKey(cc)
		switch key {
		case "invoke:bitStream.drawBits", "invoke:generatorImpl.value", "(*Generator).value", "(*Generator).Draw":
			return true
		case "find":
			if f := boundFn(cc.Args[0], 0); f != nil && must[f] {
				return true
			}
			return false
		}
		if sc := origin(cc.StaticCallee()); sc != nil && p.inRapid(sc) {
			return must[sc]
		}
		return false
	}
	for changed := true; changed; {
		changed = false
		for _, fn := range p.FuncList {
			if must[fn] || fn.Blocks == nil {
				continue
			}
			if escapesFromEntry(fn, draws, false) == nil && len(returnsOf(fn)) > 0 {
				must[fn] = true
				changed = true
			}
		}
	}
	exempt := map[string]string{
		"(*customGen).value":       "runs the user's function: drawing is the user's obligation (the assertion message says so)",
		"(*Generator).value":       "the wrapper itself",
		"(*regexpStringGen).value": "regexpGen.build recurses over the syntax tree; that every node draws rests on an invariant of regexp/syntax (no empty concatenation), which is out of reach here — not decided",
		"(*regexpSliceGen).value":  "as regexpStringGen.value — not decided",
	}
	n := 0
	for _, fn := range p.FuncList {
		name := p.fnName(fn)
		if !strings.HasSuffix(name, ").value") || fn.Signature.Recv() == nil || fn.Blocks == nil {
			continue
		}
		if why, ok := exempt[name]; ok {
			r.OK(name+"#draws", fn.Pos(), "exempt: "+why)
			continue
		}
		n++
		esc := escapesFromEntry(fn, draws, false)
		pos := fn.Pos()
		if esc != nil {
			pos = esc.Pos()
		}
		r.Check(name+"#draws", pos, esc == nil, "every path to a return reads the bit stream", name+" can return without having read the bit stream: Generator.value's group then holds no data and endGroup panics with 'group did not use any data from bitstream' — for that input the generator fails instead of producing its (degenerate) value")
	}
	r.Floor("value methods of built-in generators", n, 18)
}

// asAnyAdapterResult: ce is adapter(X) where adapter is a function of the package of the form
// `func adapter[V any](ctor func() *Generator[V]) func() *Generator[any] { return func() *Generator[any] { return ctor().AsAny() } }`;
// returns the result type of X (the generator it constructs), or nil.
func (p *Program) asAnyAdapterResult(ce *ast.CallExpr) types.Type {
	fun := ce.Fun
	if ix, ok := fun.(*ast.IndexExpr); ok {
		fun = ix.X
	}
	id, ok := fun.(*ast.Ident)
	if !ok {
		return nil
	}
	fobj, ok := p.Info.Uses[id].(*types.Func)
	if !ok || fobj.Pkg() != p.Types {
		return nil
	}
	var decl *ast.FuncDecl
	for _, f := range p.Files {
		for _, d := range f.Decls {
			if fd, ok := d.(*ast.FuncDecl); ok && p.Info.Defs[fd.Name] == types.Object(fobj) {
				decl = fd
			}
		}
	}
	if decl == nil || decl.Body == nil || len(decl.Body.List) != 1 || decl.Type.Params == nil || len(decl.Type.Params.List) != 1 || len(decl.Type.Params.List[0].Names) != 1 {
		return nil
	}
	par := decl.Type.Params.List[0].Names[0].Name
	rs, ok := decl.Body.List[0].(*ast.ReturnStmt)
	if !ok || len(rs.Results) != 1 {
		return nil
	}
	fl, ok := rs.Results[0].(*ast.FuncLit)
	if !ok || len(fl.Body.List) != 1 {
		return nil
	}
	rs2, ok := fl.Body.List[0].(*ast.ReturnStmt)
	if !ok || len(rs2.Results) != 1 {
		return nil
	}
	outer, ok := rs2.Results[0].(*ast.CallExpr)
	if !ok {
		return nil
	}
	sel, ok := outer.Fun.(*ast.SelectorExpr)
	if !ok || sel.Sel.Name != "AsAny" {
		return nil
	}
	inner, ok := sel.X.(*ast.CallExpr)
	if !ok || len(inner.Args) != 0 {
		return nil
	}
	if cid, ok := inner.Fun.(*ast.Ident); !ok || cid.Name != par {
		return nil
	}
	tv, ok := p.Info.Types[ce.Args[0]]
	if !ok {
		return nil
	}
	sig, ok := tv.Type.Underlying().(*types.Signature)
	if !ok || sig.Results().Len() != 1 || sig.Params().Len() != 0 {
		return nil
	}
	return sig.Results().At(0).Type()
}
