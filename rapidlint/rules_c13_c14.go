package main

import (
	"fmt"
	"go/token"
	"go/types"
	"sort"
	"strings"

	"golang.org/x/tools/go/ssa"
)

func init() {
	register("C13", specC13)
	register("C14", specC14)
}

// ---------------------------------------------------------------------------
// C13

func specC13() *propertySpec {
	return &propertySpec{
		ID: "C13",
		Explanation: "Decides the shape of MakeFuzz for all byte strings: words are decoded little-endian from a fresh zeroed 8-byte array per word, " +
			"the input advances by the bytes copied and the loop runs while input remains; the property runs once on a buffer stream over exactly those words; " +
			"the verdict mapping nil → pass, invalidData → Skip, anything else → Fatal is exhaustive and exclusive; every panic is converted by the bracket; " +
			"the buffer stream consumes one word per draw and raises invalidData when exhausted, and is read nowhere else (unread words cannot matter); " +
			"no nondeterminism source in the generation closure. Not decided: termination of the user's property, the fuzzing engine.",
		Rules: []ruleSpec{
			{"C13-R1", "decode: LittleEndian.Uint64 of an 8-byte array allocated inside the loop, filled by copy(tmp[:], input); input = input[n:]; loop while len(input) > 0; stream = newBufBitStream(words, false)", ruleC13R1},
			{"C13-R2", "verdict-mapping: e == nil → no TB call; isInvalidData → Skip*; otherwise Fatal*; exhaustive", ruleC13R2},
			{"C13-R3", "reads-only-what-it-consumes: bufBitStream.buf is touched only by drawBits and the constructor; one word per call; overrun ⇒ invalidData", func(r *Run) { ruleC04R3buf(r); ruleC03R4(r) }},
			{"C13-R4", "total: panics converted (recover census), bracketed invocation, loops of the generation closure make progress", func(r *Run) { ruleC02R4(r); ruleC10R1(r); ruleC03R5(r) }},
			{"C13-R5", "deterministic: nondeterminism census of the generation closure", func(r *Run) { nondetCensus(r, "generation", []string{"<generation>"}, false) }},
			{"C13-R6", "discarded-attempt-may-be-empty: the 'group did not use any data' assertion of endGroup cannot fire for a discarded group, in either recording mode: an attempt that ran out of input (or skipped) before its first draw is rejected, not reported as a failure", ruleEndGroupAssertExempt},
			{"C13-R7", "same-generator-for-every-input: the fuzz target is called many times in one process with one set of generators: the draws are a function of the input bytes only if no draw stores through or hands out generator-owned storage (shared with C15-R3)", ruleC15R3},
			{"C13-R8", "falsified-means-failed: the fuzz target fails iff the test case is falsified: every failure signal is recorded in the flag before it panics (a recovered or superseded panic is re-raised by the deferred consult) and the flag reaches checkOnce's verdict after the cleanups on every exit (shared with C02-R1, C02-R2)", func(r *Run) { ruleC02R1(r); ruleC02R2(r) }},
			{"C13-R9", "exhaustion-stays-a-skip: running out of input is an invalidData panic raised by drawBits; no endGroup runs on the panic path (deferred), where its 'group did not use any data' assertion would replace that panic by a plain one and turn the skip into a failure", ruleNoDeferredEndGroup},
			{"C13-R10", "same-decisions-whether-recording-or-not: MakeFuzz replays on a non-recording stream, a replay of the same words for comparison records: drawn() reports the same position in both modes and runAction decides 'skipped' from it (shared with C04-R4.8)", ruleC04R48},
			{"C13-R11", "exhaustion-is-not-a-failure-in-Repeat: executeAction reaches its 'no valid action' stopTest only through the retry counter; an action skipped because the input ended is retried into the overrun that skips the fuzz input", ruleExhaustedOnlyByBudget},
		},
	}
}

func ruleC13R1(r *Run) {
	p := r.P
	fn := r.MustFn("checkFuzz")
	if fn == nil {
		return
	}
	// MakeFuzz returns a fuzz target that hands its own *testing.T and input, and the given property, to checkFuzz
	if mf := r.MustFn("MakeFuzz"); mf != nil {
		okTarget := false
		for _, ret := range returnsOf(mf) {
			mc, ok := p.resolve(p.res(ret, 0)).(*ssa.MakeClosure)
			if !ok {
				continue
			}
			lit := mc.Fn.(*ssa.Function)
			for _, cs := range p.callsTo(lit, "checkFuzz") {
				if cs.isDefer() || len(lit.Params) != 2 {
					continue
				}
				byp := escapesFromEntry(lit, func(in ssa.Instruction) bool { return in == cs.Instr }, false)
				if p.resolve(cs.Arg(0)) == ssa.Value(lit.Params[0]) && p.resolve(cs.Arg(2)) == ssa.Value(lit.Params[1]) && p.expr(cs.Arg(1)) == "$prop" && byp == nil {
					okTarget = true
				}
			}
		}
		r.Check("MakeFuzz#target", mf.Pos(), okTarget, "the fuzz target runs checkFuzz(t, prop, input) on every path", "the function returned by MakeFuzz does not run checkFuzz on its own *testing.T, the given property and its input on every path: fuzz inputs are not checked at all")
	}
	input := paramNamed(fn, "input")
	if input == nil {
		r.Undecided("anchor:checkFuzz.input", fn.Pos(), "anchor unresolved: parameter input of checkFuzz")
		return
	}
	dec := p.callsMatching(fn, func(k string) bool {
		return strings.HasPrefix(k, "(encoding/binary.") && strings.HasSuffix(k, ").Uint64")
	})
	if len(dec) != 1 {
		r.Fail("checkFuzz#decode", fn.Pos(), fmt.Sprintf("expected exactly one binary.*.Uint64 decoding call, found %d", len(dec)))
		return
	}
	d := dec[0]
	r.Check("checkFuzz#decode.endianness", d.Instr.Pos(), d.Key == "(encoding/binary.littleEndian).Uint64", "words are decoded little-endian", "words are decoded with "+d.Key+" instead of little-endian")
	loop := innermostLoop(d.Instr)
	if loop == nil {
		r.Fail("checkFuzz#decode.loop", d.Instr.Pos(), "the decoding call is not inside a loop")
		return
	}
	// the decoded array
	sl, _ := p.resolve(d.Arg(0)).(*ssa.Slice)
	var arr *ssa.Alloc
	if sl != nil {
		arr, _ = sl.X.(*ssa.Alloc)
	}
	if arr == nil {
		r.Undecided("checkFuzz#decode.array", d.Instr.Pos(), "operand of the decoding call is not a slice of a local array: "+p.expr(d.Arg(0)))
		return
	}
	at, isArr := deref(arr.Type()).Underlying().(*types.Array)
	r.Check("checkFuzz#decode.array-size", arr.Pos(), isArr && at.Len() == 8 && sl.Low == nil && sl.High == nil, "decodes a whole [8]byte", "the decoded operand is not a whole 8-byte array")
	r.Check("checkFuzz#decode.fresh-array", arr.Pos(), loop.Body[arr.Block()], "the 8-byte array is allocated (zeroed) inside the loop body: a short tail is zero-padded",
		"the 8-byte array is allocated outside the loop: bytes of the previous word leak into a short tail")
	// copy(tmp[:], input)
	var cp *callSite
	for _, cs := range p.callsTo(fn, "builtin:copy") {
		if dsl, ok := p.resolve(cs.Common.Args[0]).(*ssa.Slice); ok && dsl.X == ssa.Value(arr) && dsl.Low == nil {
			cp = cs
		}
	}
	if cp == nil {
		r.Fail("checkFuzz#copy", d.Instr.Pos(), "no copy(tmp[:], input) into the decoded array")
		return
	}
	src := p.resolve(cp.Common.Args[1])
	ph, isPhi := src.(*ssa.Phi)
	r.Check("checkFuzz#copy.order", cp.Instr.Pos(), dominates(cp.Instr, d.Instr) && loop.Body[cp.Instr.Block()], "the copy precedes the decode in the same iteration", "the copy does not dominate the decode inside the loop")
	okSrc := isPhi && ph.Block() == loop.Header
	if okSrc {
		for i, e := range ph.Edges {
			pred := ph.Block().Preds[i]
			er := p.resolve(e)
			if loop.Header.Dominates(pred) {
				adv, ok := er.(*ssa.Slice)
				if !ok || p.resolve(adv.X) != ssa.Value(ph) || adv.High != nil || adv.Low == nil || p.resolve(adv.Low) != cp.Value() {
					okSrc = false
					r.Fail("checkFuzz#advance", pred.Instrs[len(pred.Instrs)-1].Pos(), "input is advanced to "+p.expr(er)+" (expected input[n:] with n the number of bytes copied)")
				}
			} else if p.resolve(er) != ssa.Value(input) {
				okSrc = false
			}
		}
	}
	// offset form: copy(tmp[:], input[off:]) with off = 0, 8, 16, … while off < len(input)
	var offPhi *ssa.Phi
	if ssl, ok := src.(*ssa.Slice); ok && !okSrc && ssl.High == nil && ssl.Low != nil && p.resolve(ssl.X) == ssa.Value(input) {
		if op, ok := p.resolve(ssl.Low).(*ssa.Phi); ok && op.Block() == loop.Header && isArr {
			okOff := true
			for i, e := range op.Edges {
				er := p.resolve(e)
				if loop.Header.Dominates(op.Block().Preds[i]) {
					bo, ok := er.(*ssa.BinOp)
					step := int64(-1)
					if ok && bo.Op == token.ADD && p.resolve(bo.X) == ssa.Value(op) {
						step, _ = constInt(p.resolve(bo.Y))
					}
					if step != at.Len() {
						okOff = false
						r.Fail("checkFuzz#advance", op.Pos(), "the input offset advances to "+p.expr(er)+" per word (expected + the size of the decoded array)")
					}
				} else if c, ok := constInt(er); !ok || c != 0 {
					okOff = false
				}
			}
			if okOff {
				okSrc, offPhi = true, op
			}
		}
	}
	// indexed form: buf := make([]uint64, ceil(len(input)/8)); for i := range buf { copy(tmp[:], input[i*8:]); buf[i] = decode }
	var idxBuf ssa.Value
	// (the chunk may be clipped to the word size first: chunk := input[i*8:]; if len(chunk) > 8 { chunk = chunk[:8] })
	idxSrc := src
	if ph2, isPhi2 := src.(*ssa.Phi); isPhi2 && !okSrc && isArr {
		var base ssa.Value
		okClip := true
		for _, e := range ph2.Edges {
			er := p.resolve(e)
			if sl2, ok := er.(*ssa.Slice); ok && sl2.Low == nil && sl2.High != nil {
				if c, isC := constInt(p.resolve(sl2.High)); isC && c == at.Len() {
					er = p.resolve(sl2.X)
				}
			}
			if base != nil && er != base {
				okClip = false
			}
			base = er
		}
		if okClip && base != nil {
			idxSrc = base
		}
	}
	if ssl, ok := idxSrc.(*ssa.Slice); ok && !okSrc && ssl.High == nil && ssl.Low != nil && p.resolve(ssl.X) == ssa.Value(input) && isArr {
		if mul, ok := p.resolve(ssl.Low).(*ssa.BinOp); ok && mul.Op == token.MUL {
			var idx ssa.Value
			if c, isC := constInt(p.resolve(mul.Y)); isC && c == at.Len() {
				idx = p.resolve(mul.X)
			} else if c, isC := constInt(p.resolve(mul.X)); isC && c == at.Len() {
				idx = p.resolve(mul.Y)
			}
			if idx != nil {
				// the index runs 0, 1, 2, …: zero on entry, a loop-header phi advanced by one per iteration
				var iph *ssa.Phi
				switch x := idx.(type) {
				case *ssa.Phi:
					iph = x
				case *ssa.BinOp:
					iph, _ = p.resolve(x.X).(*ssa.Phi)
				}
				start, okStart := p.evalAtEntry(idx, 0)
				okStep := iph != nil && iph.Block() == loop.Header
				if okStep {
					for i, e := range iph.Edges {
						if loop.Header.Dominates(iph.Block().Preds[i]) && !isIncrementOf(p, e, iph) {
							okStep = false
						}
					}
				}
				// the word is stored at that index of a slice with ceil(len(input)/8) elements, and the loop runs while
				// the index is below its length
				for _, b := range p.body(fn) {
					for _, in := range b.Instrs {
						st, ok := in.(*ssa.Store)
						if !ok || !loop.Body[b] || p.resolve(st.Val) != d.Value() {
							continue
						}
						ia, ok := st.Addr.(*ssa.IndexAddr)
						if !ok || p.resolve(ia.Index) != idx {
							continue
						}
						mk, ok := p.resolve(ia.X).(*ssa.MakeSlice)
						var bufVal ssa.Value = mk
						if !ok {
							// nil for empty input, made otherwise
							if bph, isPhi3 := p.resolve(ia.X).(*ssa.Phi); isPhi3 {
								for _, e := range bph.Edges {
									er := p.resolve(e)
									if m2, isMk := er.(*ssa.MakeSlice); isMk && (mk == nil || mk == m2) {
										mk = m2
									} else if !isNilConst(er) {
										mk = nil
										break
									}
								}
								bufVal = bph
								ok = mk != nil
							}
						}
						if !ok {
							continue
						}
						okLen := true
						for L := int64(0); L <= 40; L++ {
							v, ok := p.evalWith(mk.Len, func(x ssa.Value) (int64, bool) {
								if p.expr(x) == "builtin:len($input)" {
									return L, true
								}
								return 0, false
							}, 0)
							if !ok || v != (L+at.Len()-1)/at.Len() {
								okLen = false
							}
						}
						okGuard := false
						for _, g := range guardsOf(d.Instr.Block()) {
							if p.relOf(g).is(p.expr(idx), "<", "builtin:len("+p.expr(bufVal)+")") {
								okGuard = true
							}
						}
						if okLen && okGuard && okStart && start == 0 && okStep {
							idxBuf = bufVal
						}
					}
				}
			}
		}
		if idxBuf != nil {
			okSrc = true
		}
	}
	r.Check("checkFuzz#copy.source", cp.Instr.Pos(), okSrc, "copies from the remaining input, which advances by the bytes copied", "the copy source is not the remaining input advancing by the copied byte count: "+p.expr(src))
	// loop condition len(input) > 0
	okCond := false
	for _, g := range guardsOf(d.Instr.Block()) {
		rl := p.relOf(g)
		if isPhi && ((rl.X == "builtin:len("+p.expr(ph)+")" && rl.Op == ">" && rl.Y == "0") || (rl.X == "builtin:len("+p.expr(ph)+")" && rl.Op == "!=" && rl.Y == "0")) {
			okCond = true
		}
	}
	if offPhi != nil {
		for _, g := range guardsOf(d.Instr.Block()) {
			rl := p.relOf(g)
			if rl.is(p.expr(offPhi), "<", "builtin:len($input)") {
				okCond = true
			}
		}
	}
	if idxBuf != nil {
		okCond = true // index below the length of a slice of ceil(len(input)/8) words (checked above)
	}
	r.Check("checkFuzz#loop-cond", loop.Header.Instrs[0].Pos(), okCond, "the loop runs while len(input) > 0", "the decode loop is not guarded by len(input) > 0")
	// words → stream → T → checkOnce
	cos := p.callsTo(fn, "checkOnce")
	if len(cos) != 1 {
		r.Fail("checkFuzz#checkOnce", fn.Pos(), fmt.Sprintf("checkFuzz invokes checkOnce %d times (expected once)", len(cos)))
		return
	}
	nt, _ := p.resolve(cos[0].Common.Args[0]).(*ssa.Call)
	okStream := false
	if nt != nil && p.calleeKey(nt.Common()) == "newT" {
		if bs, ok := p.resolve(nt.Common().Args[1]).(*ssa.Call); ok && p.calleeKey(bs.Common()) == "newBufBitStream" {
			// buffer = the append chain of decoded words
			buf := p.resolve(bs.Common().Args[0])
			if idxBuf != nil && buf == idxBuf {
				okStream = true // the pre-sized slice every element of which was stored by the decode loop
			}
			if bp, ok := buf.(*ssa.Phi); ok && idxBuf != nil && !okStream {
				// … or nil where there is no word to decode (the slice is only made for a positive word count)
				okStream = true
				for _, e := range bp.Edges {
					if er := p.resolve(e); er != idxBuf && !isNilConst(er) {
						okStream = false
					}
				}
			}
			if bp, ok := buf.(*ssa.Phi); ok && bp.Block() == loop.Header {
				okStream = true
				for i, e := range bp.Edges {
					if loop.Header.Dominates(bp.Block().Preds[i]) {
						ap, ok := p.resolve(e).(*ssa.Call)
						if !ok || p.calleeKey(ap.Common()) != "builtin:append" || p.resolve(ap.Common().Args[0]) != ssa.Value(bp) {
							okStream = false
							continue
						}
						vs := p.variadicArgs(ap.Common().Args[1])
						if len(vs) != 1 || p.resolve(vs[0]) != d.Value() {
							okStream = false
						}
					}
				}
			}
		}
	}
	r.Check("checkFuzz#stream", cos[0].Instr.Pos(), okStream, "the property runs on newBufBitStream over exactly the decoded words, in order", "the stream handed to the property is not a buffer stream over the appended decoded words")
}

func ruleC13R2(r *Run) {
	p := r.P
	fn := r.MustFn("checkFuzz")
	if fn == nil {
		return
	}
	cos := p.callsTo(fn, "checkOnce")
	if len(cos) != 1 {
		r.Fail("checkFuzz#checkOnce", fn.Pos(), "expected one checkOnce call in checkFuzz")
		return
	}
	e := cos[0].Value()
	eKey := p.expr(e)
	nSkip, nFatal := 0, 0
	for _, cs := range p.calls(fn) {
		if !strings.HasPrefix(cs.Key, "invoke:tb.") || !dominates(cos[0].Instr, cs.Instr) {
			continue
		}
		m := strings.TrimPrefix(cs.Key, "invoke:tb.")
		facts := p.facts(cs.Instr)
		nonNil := holds(facts, eKey, "!=", "nil")
		inv := holdsCallTrue(p, cs.Instr.Block(), "(*testError).isInvalidData", e)
		notInv := holdsCallFalse(p, cs.Instr.Block(), "(*testError).isInvalidData", e)
		if !notInv && holdsCallTrue(p, cs.Instr.Block(), "(*testError).isStopTest", e) && p.exclusiveTypePredicates("(*testError).isStopTest", "(*testError).isInvalidData") {
			notInv = true // a stopTest payload is not an invalidData payload
		}
		switch m {
		case "Helper", "Name":
		case "Skip", "Skipf", "SkipNow":
			nSkip++
			r.Check("checkFuzz#"+m, cs.Instr.Pos(), nonNil && inv, "skips exactly when the test case is invalid data", "tb."+m+" is reachable when the error is not known to be invalidData: "+factsStr(facts))
		case "Fatal", "Fatalf", "Error", "Errorf", "Fail", "FailNow":
			nFatal++
			r.Check("checkFuzz#"+m, cs.Instr.Pos(), nonNil && notInv, "fails exactly when the test case is falsified", "tb."+m+" is reachable on a path where the error may be nil or invalidData: "+factsStr(facts))
		default:
			r.Check("checkFuzz#"+m, cs.Instr.Pos(), nonNil, "logging call on a non-nil error path", "tb."+m+" after checkOnce on a path where the test case may have passed")
		}
	}
	r.Floor("skip calls in checkFuzz", nSkip, 1)
	r.Floor("failing calls in checkFuzz", nFatal, 1)
	// exhaustive: from the e != nil edge every path passes a Skip* or a stopping failure (Fatal*, FailNow)
	for _, b := range p.body(fn) {
		iff, ok := b.Instrs[len(b.Instrs)-1].(*ssa.If)
		if !ok {
			continue
		}
		bo, ok := p.resolve(iff.Cond).(*ssa.BinOp)
		if !ok || !(p.resolve(bo.X) == e && isNilConst(p.resolve(bo.Y))) {
			continue
		}
		nonNilSucc := b.Succs[1]
		if bo.Op == token.NEQ {
			nonNilSucc = b.Succs[0]
		}
		if len(nonNilSucc.Instrs) == 0 {
			continue
		}
		first := nonNilSucc.Instrs[0]
		through := func(in ssa.Instruction) bool {
			c, ok := in.(ssa.CallInstruction)
			if !ok {
				return false
			}
			switch p.calleeKey(c.Common()) {
			case "invoke:tb.Skip", "invoke:tb.Skipf", "invoke:tb.SkipNow", "invoke:tb.Fatal", "invoke:tb.Fatalf", "invoke:tb.FailNow":
				return true
			}
			return false
		}
		var exit ssa.Instruction
		if !through(first) {
			exit = escapesWithout(first, through, false)
			if _, isRet := first.(*ssa.Return); isRet {
				exit = first
			}
		}
		r.Check("checkFuzz#exhaustive", iff.Pos(), exit == nil, "every path with a non-nil error skips or fails the fuzz test", "checkFuzz can return normally (at "+posOf(p, exit)+") although the test case ended with a non-nil error")
	}
}

// ---------------------------------------------------------------------------
// C14

func specC14() *propertySpec {
	return &propertySpec{
		ID: "C14",
		Explanation: "Decides data-race freedom and atomicity of Helper, Name, Log/Logf, Error/Errorf, Fail, Failed, Context, Cleanup for all schedules by a lock discipline: " +
			"every read of failed/cleanups/ctx/cancelCtx happens with T.mu held (R or W) on the same receiver, every write with the write lock; the other fields are written only while the T is " +
			"constructed; cleaning is atomic; the call closure of the safe methods touches nothing else (in particular not draws) and calls only goroutine-safe external APIs; read-modify-write " +
			"sequences stay within one critical section; no callback or re-locking call happens under the lock. Not decided: safety of the wrapped testing.TB / log.Logger (trusted), liveness.",
		Assumptions: []string{"testing.TB methods, *log.Logger methods, fmt.Sprint*, context.* and sync.* are goroutine-safe as documented"},
		Rules: []ruleSpec{
			{"C14-R1", "guarded-fields: every access to T.failed/cleanups/ctx/cancelCtx is made with T.mu held in the required mode on the same receiver; addresses do not escape", func(r *Run) { ruleC14R1(r, nil) }},
			{"C14-R2", "immutable-after-construction: tb, tbLog, rawLog, s, refDraws are stored only in newT", ruleC14R2},
			{"C14-R3", "atomics: cleaning is used only through atomic.Bool methods", ruleC14R3},
			{"C14-R4", "safe-closure: the callees of the safe methods touch no other T field (not draws) and call only allow-listed external APIs", ruleC14R4},
			{"C14-R5", "atomic-updates: append to cleanups, pop in cleanup and the ctx re-check/store in Context each happen inside one write-locked region; Context returns only the published context (or a cancelled one while cleaning)", func(r *Run) { ruleC14R5(r); ruleC10R5(r) }},
			{"C14-R6", "no-callback-under-lock: no dynamic call of a user-supplied function and no call re-acquiring T.mu while T.mu is held", ruleC14R6},
			{"C14-R7", "lock-balance: every function that acquires T.mu releases it on every return path (explicitly, or by a deferred unlock of the same mode): a lock left held blocks every later Log/Failed/Cleanup call", ruleC14R7},
			{"C14-R8", "late-signals-reach-the-verdict: a non-fatal failure signalled from another goroutine up to the end of the cleanup phase (goroutines released by context cancellation, joined by a cleanup) is seen: in every bracket the flag is consulted after the cleanups (shared with C02-R2)", ruleC02R2},
			{"C14-R9", "one-context-for-all-goroutines-also-while-cleanup-starts: cleanup sets the cleaning flag before it cancels and clears the context (and resets it deferred), so that no goroutine still calling Context() in between creates a second, never cancelled one (shared with C10-R2)", ruleC10R2},
		},
	}
}

var guardedT = []string{"failed", "cleanups", "ctx", "cancelCtx"}
var immutableT = []string{"tb", "tbLog", "rawLog", "s", "refDraws"}

func ruleC14R1(r *Run, only map[string]bool) {
	p := r.P
	G := map[string]bool{}
	for _, f := range guardedT {
		if only == nil || only[f] {
			G[f] = true
		}
	}
	lsCache := map[*ssa.Function]map[ssa.Instruction]lockState{}
	n := 0
	for _, fa := range p.fieldAccesses("T") {
		if !G[fa.Field] {
			continue
		}
		name := p.hostName(fa.Fn)
		construct := name + "#" + fa.Field + "." + fa.Kind
		if fa.FA != nil && name == "newT" {
			// the freshly allocated T is not yet published
			if _, isAlloc := p.resolve(fa.FA.X).(*ssa.Alloc); isAlloc {
				continue
			}
		}
		n++
		if fa.Kind != "read" && fa.Kind != "write" {
			r.Fail(construct, fa.Instr.Pos(), "address of guarded field T."+fa.Field+" is used other than by a direct load/store ("+fa.Kind+"): accesses through it cannot be checked against the lock")
			continue
		}
		ls, ok := lsCache[fa.Fn]
		if !ok {
			ls = p.lockSets(fa.Fn)
			lsCache[fa.Fn] = ls
		}
		base := strings.TrimPrefix(p.expr(fa.Base), "&")
		lock := "&" + base + ".mu"
		mode := ls[fa.Instr][lock]
		need := "R or W"
		okMode := mode == 'R' || mode == 'W'
		if fa.Kind == "write" {
			need = "W"
			okMode = mode == 'W'
		}
		held := "not held"
		if mode != 0 {
			held = "held in mode " + string(mode)
		}
		r.Check(construct, fa.Instr.Pos(), okMode, fa.Kind+" of "+base+"."+fa.Field+" with "+lock+" held ("+string(mode)+")",
			fmt.Sprintf("%s of %s.%s in %s with %s %s (required: %s) — a data race with concurrent callers of the goroutine-safe methods", fa.Kind, base, fa.Field, name, lock, held, need))
	}
	floor := 14
	if only != nil {
		floor = 4
	}
	r.Floor("accesses to guarded T fields", n, floor)
}

func ruleC14R2(r *Run) {
	p := r.P
	imm := map[string]bool{}
	for _, f := range immutableT {
		imm[f] = true
	}
	n := 0
	for _, fa := range p.fieldAccesses("T") {
		if !imm[fa.Field] || fa.Kind == "read" {
			continue
		}
		name := p.hostName(fa.Fn)
		if fa.Kind == "nested" {
			continue
		}
		n++
		okCtor := false
		if name == "newT" {
			if _, isAlloc := p.resolve(fa.FA.X).(*ssa.Alloc); isAlloc {
				okCtor = true
			}
		}
		r.Check(name+"#"+fa.Field+"."+fa.Kind, fa.Instr.Pos(), okCtor && fa.Kind == "write", "T."+fa.Field+" initialised while the T is constructed",
			"T."+fa.Field+" is "+fa.Kind+"-accessed outside construction in "+name+": the goroutine-safe methods read it without a lock")
	}
	r.Floor("constructor stores to immutable T fields", n, 5)
}

func ruleC14R3(r *Run) {
	p := r.P
	n := 0
	for _, fa := range p.fieldAccesses("T") {
		if fa.Field != "cleaning" {
			continue
		}
		n++
		ok := strings.HasPrefix(fa.Kind, "call:(*sync/atomic.Bool).")
		r.Check(p.hostName(fa.Fn)+"#cleaning", fa.Instr.Pos(), ok, "cleaning accessed through "+strings.TrimPrefix(fa.Kind, "call:"), "T.cleaning is accessed by "+fa.Kind+" instead of an atomic.Bool method")
	}
	r.Floor("accesses to T.cleaning", n, 3)
	// type is atomic.Bool
	if obj := p.Types.Scope().Lookup("T"); obj != nil {
		st := obj.Type().Underlying().(*types.Struct)
		for i := 0; i < st.NumFields(); i++ {
			if st.Field(i).Name() == "cleaning" {
				r.Check("T.cleaning#type", st.Field(i).Pos(), p.typeStr(st.Field(i).Type()) == "atomic.Bool", "T.cleaning is an atomic.Bool", "T.cleaning has type "+p.typeStr(st.Field(i).Type()))
			}
			if st.Field(i).Name() == "mu" {
				r.Check("T.mu#type", st.Field(i).Pos(), p.typeStr(st.Field(i).Type()) == "sync.RWMutex" || p.typeStr(st.Field(i).Type()) == "sync.Mutex", "T.mu is a mutex", "T.mu has type "+p.typeStr(st.Field(i).Type()))
			}
		}
	}
}

var safeMethods = []string{"Helper", "Name", "Log", "Logf", "Error", "Errorf", "Fail", "Failed", "Context", "Cleanup"}

var safeExternalPrefixes = []string{"fmt.Sprint", "context.", "(*sync.", "(*sync/atomic.", "(*log.Logger).", "invoke:tb.", "invoke:interface{Context() context.Context}.", "builtin:", "invoke:context."}

func ruleC14R4(r *Run) {
	p := r.P
	var roots []*ssa.Function
	for _, m := range safeMethods {
		if m == "Helper" || m == "Name" {
			continue // promoted from the embedded tb: no body in the package
		}
		if f := r.MustFn("(*T)." + m); f != nil {
			roots = append(roots, f)
		}
	}
	cl := p.closureOf(roots)
	allowedField := map[string]bool{"mu": true, "cleaning": true}
	for _, f := range guardedT {
		allowedField[f] = true
	}
	for _, f := range immutableT {
		allowedField[f] = true
	}
	fns := sortedFuncs(p, cl)
	r.Floor("functions in the closure of the goroutine-safe methods", len(fns), 9)
	for _, fa := range p.fieldAccesses("T") {
		if !cl[fa.Fn] {
			continue
		}
		if !allowedField[fa.Field] {
			r.Fail(p.hostName(fa.Fn)+"#"+fa.Field, fa.Instr.Pos(), "goroutine-safe method closure touches T."+fa.Field+", which is not lock-protected, immutable or atomic")
		}
	}
	for _, fn := range fns {
		for _, cs := range p.calls(fn) {
			if sc := cs.Common.StaticCallee(); sc != nil && p.inRapid(sc) {
				continue
			}
			if strings.HasPrefix(cs.Key, "dyn:") {
				// calling the stored cancel function / tctx.Context is context API; anything else is reported by R6 when under lock
				continue
			}
			ok := false
			for _, pre := range safeExternalPrefixes {
				if strings.HasPrefix(cs.Key, pre) {
					ok = true
				}
			}
			// the TB's own Context() through an interface of any name (a locally declared `contexter` as well as the
			// anonymous interface{ Context() context.Context })
			if cs.Common.IsInvoke() && cs.Common.Method.Name() == "Context" && cs.Common.Signature().Params().Len() == 0 && cs.Common.Signature().Results().Len() == 1 && p.typeStr(cs.Common.Signature().Results().At(0).Type()) == "context.Context" {
				ok = true
			}
			r.Check(p.fnName(fn)+"#"+cs.Key, cs.Instr.Pos(), ok, "external callee is a documented goroutine-safe API", "external callee "+cs.Key+" is not in the allow-list of goroutine-safe APIs")
		}
	}
	var names []string
	for _, f := range fns {
		names = append(names, p.fnName(f))
	}
	sort.Strings(names)
	r.OK("closure", token.NoPos, "closure of the safe methods: "+strings.Join(names, ", "))
}

func ruleC14R5(r *Run) {
	p := r.P
	// Cleanup: load and store of cleanups under one W region (no unlock between)
	if fn := r.MustFn("(*T).Cleanup"); fn != nil {
		ls := p.lockSets(fn)
		var st *ssa.Store
		for _, fa := range p.fieldAccesses("T") {
			if p.within(fa.Fn, fn) && fa.Field == "cleanups" && fa.Kind == "write" {
				st = fa.Instr.(*ssa.Store)
			}
		}
		if st == nil {
			r.Fail("(*T).Cleanup#append", fn.Pos(), "(*T).Cleanup does not store to t.cleanups")
		} else {
			ap, isAppend := p.resolve(st.Val).(*ssa.Call)
			okAppend := isAppend && p.calleeKey(ap.Common()) == "builtin:append" && p.expr(ap.Common().Args[0]) == "$t.cleanups"
			okRegion := ls[st]["&$t.mu"] == 'W'
			if okAppend {
				ld := p.resolve(ap.Common().Args[0]).(*ssa.UnOp)
				okRegion = okRegion && ls[ld]["&$t.mu"] == 'W' && noUnlockBetween(p, ld, st)
			}
			r.Check("(*T).Cleanup#append", st.Pos(), okAppend && okRegion, "t.cleanups = append(t.cleanups, f) inside one write-locked region", "the read-append-write of t.cleanups is not inside one write-locked region (lost update between concurrent Cleanup calls)")
		}
	}
	// general: a value stored to a guarded field may depend on loads of guarded fields of the same T only if
	// those loads are in the same critical section as the store (no stale read-modify-write)
	G := map[string]bool{}
	for _, f := range guardedT {
		G[f] = true
	}
	lsCache := map[*ssa.Function]map[ssa.Instruction]lockState{}
	nRMW := 0
	for _, fa := range p.fieldAccesses("T") {
		if !G[fa.Field] || fa.Kind != "write" || p.hostName(fa.Fn) == "newT" {
			continue
		}
		st := fa.Instr.(*ssa.Store)
		base := p.expr(fa.Base)
		ls, ok := lsCache[fa.Fn]
		if !ok {
			ls = p.lockSets(fa.Fn)
			lsCache[fa.Fn] = ls
		}
		lock := "&" + strings.TrimPrefix(base, "&") + ".mu"
		var deps []*ssa.UnOp
		seen := map[ssa.Value]bool{}
		var walk func(v ssa.Value, d int)
		walk = func(v ssa.Value, d int) {
			if v == nil || seen[v] || d > 10 {
				return
			}
			seen[v] = true
			switch x := v.(type) {
			case *ssa.UnOp:
				if x.Op == token.MUL {
					if f2, ok := x.X.(*ssa.FieldAddr); ok && p.fieldAddrOwner(f2) == "T" && G[fieldAddrName(f2)] && p.expr(f2.X) == base {
						deps = append(deps, x)
						return
					}
					if ia, ok := x.X.(*ssa.IndexAddr); ok {
						walk(ia.X, d+1)
						walk(ia.Index, d+1)
						return
					}
					if r := p.resolve(x); r != ssa.Value(x) {
						walk(r, d+1)
					}
					return
				}
				walk(x.X, d+1)
			case *ssa.BinOp:
				walk(x.X, d+1)
				walk(x.Y, d+1)
			case *ssa.Slice:
				walk(x.X, d+1)
				walk(x.Low, d+1)
				walk(x.High, d+1)
			case *ssa.Call:
				if _, isB := x.Common().Value.(*ssa.Builtin); isB {
					for _, a := range x.Common().Args {
						walk(a, d+1)
					}
				}
				// a value computed by an inlined helper (n := t.pendingCleanups()): what it returns
				if sc := x.Common().StaticCallee(); sc != nil && p.transparent(sc) {
					if o := sc.Origin(); o != nil {
						sc = o
					}
					for _, ret := range returnsOf(sc) {
						for k := range ret.Results {
							walk(p.res(ret, k), d+1)
						}
					}
				}
			case *ssa.Parameter:
				if r := p.resolve(x); r != ssa.Value(x) {
					walk(r, d+1)
				}
			case *ssa.Phi:
				for _, e := range x.Edges {
					walk(e, d+1)
				}
			case *ssa.Convert:
				walk(x.X, d+1)
			case *ssa.ChangeType:
				walk(x.X, d+1)
			case *ssa.Extract:
				walk(x.Tuple, d+1)
			}
		}
		walk(st.Val, 0)
		for _, ld := range deps {
			nRMW++
			ok := ls[ld][lock] == 'W' && ls[st][lock] == 'W' && noUnlockBetween(p, ld, st)
			r.Check(p.hostName(fa.Fn)+"#rmw."+fa.Field, st.Pos(), ok, "the value stored to "+fa.Field+" depends on "+p.expr(ld)+" read inside the same write-locked region",
				"read-modify-write of T."+fa.Field+" in "+p.hostName(fa.Fn)+" is not atomic: the stored value depends on "+p.expr(ld)+" read at "+p.pos(ld.Pos())+" outside the critical section of the store (a concurrent Cleanup/Context call in between is lost)")
		}
	}
	r.Floor("read-modify-write dependencies on guarded T fields", nRMW, 1)
	ruleContextStoreRecheck(r)
	ruleGuardedSliceEscape(r)
}

// noUnlockBetween: no Unlock/RUnlock call is reachable after a and before b (a dominates b assumed).
func noUnlockBetween(p *Program, a, b ssa.Instruction) bool {
	ok := true
	walkFrom(a, func(in ssa.Instruction) bool {
		if in == b {
			return false
		}
		if op := p.lockOpOf(in); op != nil && (op.kind == "Unlock" || op.kind == "RUnlock") {
			// only matters if b is reachable after it
			if reachable(in, b, nil) {
				ok = false
			}
		}
		return true
	})
	return ok
}

func ruleC14R6(r *Run) {
	p := r.P
	// functions that acquire T.mu themselves
	acquires := map[*ssa.Function]bool{}
	tMu := map[string]bool{} // rendered paths of T's mutex (a generator's own mutex is not T's: user code never re-enters it through T)
	for _, fn := range p.FuncList {
		for _, b := range p.body(fn) {
			for _, in := range b.Instrs {
				if op := p.lockOpOf(in); op != nil && (op.kind == "Lock" || op.kind == "RLock") && strings.HasSuffix(op.path, ".mu") && p.lockOwnerIsT(in) {
					acquires[fn] = true
					tMu[op.path] = true
				}
			}
		}
	}
	n := 0
	for _, fn := range p.FuncList {
		if !acquires[fn] {
			continue
		}
		ls := p.lockSets(fn)
		deferredUnlock := false
		for _, cs := range p.calls(fn) {
			if cs.isDefer() && (strings.HasSuffix(cs.Key, ".Unlock") || strings.HasSuffix(cs.Key, ".RUnlock")) {
				deferredUnlock = true
			}
		}
		_ = deferredUnlock
		for _, cs := range p.calls(fn) {
			if cs.isDefer() {
				continue
			}
			held := ls[cs.Instr.(ssa.Instruction)]
			var heldMu string
			for k := range held {
				if strings.HasSuffix(k, ".mu") && tMu[k] {
					heldMu = k
				}
			}
			if heldMu == "" {
				continue
			}
			if p.lockOpOf(cs.Instr.(ssa.Instruction)) != nil {
				continue
			}
			n++
			name := p.fnName(fn)
			switch {
			case strings.HasPrefix(cs.Key, "dyn:"):
				callee := strings.TrimPrefix(cs.Key, "dyn:")
				// the stored context cancel function / the TB's Context method are context API, not user callbacks
				ok := strings.HasSuffix(callee, ".cancelCtx") || strings.Contains(callee, "context.WithCancel")
				r.Check(name+"#"+cs.Key, cs.Instr.Pos(), ok, "dynamic call under "+heldMu+" is the context cancel function (context API, never re-enters T)",
					"dynamic call of "+callee+" while "+heldMu+" is held: a user callback that calls back into T deadlocks / runs under the lock")
			default:
				sc := cs.Common.StaticCallee()
				if sc != nil && p.inRapid(sc) {
					reacq := false
					for f := range p.closureOf([]*ssa.Function{sc}) {
						if acquires[f] {
							reacq = true
						}
					}
					r.Check(name+"#"+cs.Key, cs.Instr.Pos(), !reacq, "callee under "+heldMu+" does not acquire T.mu", "call of "+cs.Key+" while "+heldMu+" is held, and the callee acquires T.mu itself: sync.RWMutex is not re-entrant")
				} else {
					r.OK(name+"#"+cs.Key, cs.Instr.Pos(), "external/builtin call under "+heldMu)
				}
			}
		}
	}
	r.Floor("calls made while T.mu is held", n, 3)
}

// exclusiveTypePredicates: both methods return the ok of a type assertion of the same receiver field to two distinct
// concrete types, so at most one of them is true.
func (p *Program) exclusiveTypePredicates(a, b string) bool {
	asserted := func(name string) (string, string) {
		fn := p.Fn(name)
		if fn == nil {
			return "", ""
		}
		rets := returnsOf(fn)
		if len(rets) != 1 || len(rets[0].Results) != 1 {
			return "", ""
		}
		ex, ok := p.resolve(p.res(rets[0], 0)).(*ssa.Extract)
		if !ok || ex.Index != 1 {
			return "", ""
		}
		ta, ok := ex.Tuple.(*ssa.TypeAssert)
		if !ok || !ta.CommaOk {
			return "", ""
		}
		if _, isIface := ta.AssertedType.Underlying().(*types.Interface); isIface {
			return "", ""
		}
		return p.expr(ta.X), p.typeStr(ta.AssertedType)
	}
	xa, ta := asserted(a)
	xb, tb := asserted(b)
	// the operands are rendered with each method's own receiver name; compare the field path after the receiver
	strip := func(s string) string {
		if i := strings.Index(s, "."); i >= 0 {
			return s[i:]
		}
		return s
	}
	return ta != "" && tb != "" && ta != tb && strip(xa) == strip(xb)
}

// ruleContextStoreRecheck: Context creates the context at most once per test case: the store to t.ctx happens only after
// t.ctx == nil was (re)checked inside the same write-locked region. Otherwise two goroutines making the first Context()
// call each create a context, only the last one stored is cancelled by cleanup (C10), and they observe different ones (C14).
func ruleContextStoreRecheck(r *Run) {
	p := r.P
	if fn := r.MustFn("(*T).Context"); fn != nil {
		ls := p.lockSets(fn)
		n := 0
		for _, fa := range p.fieldAccesses("T") {
			if !p.within(fa.Fn, fn) || fa.Field != "ctx" || fa.Kind != "write" {
				continue
			}
			n++
			st := fa.Instr.(*ssa.Store)
			ok := false
			why := "no re-check of t.ctx == nil under the write lock dominates the store"
			for _, g := range guardsOf(st.Block()) {
				rl := p.relOf(g)
				if rl.X == "$t.ctx" && rl.Op == "==" && rl.Y == "nil" {
					// the load feeding this condition must be under the W lock and no unlock until the store
					bo := p.resolve(g.Cond).(*ssa.BinOp)
					ld, isLoad := bo.X.(*ssa.UnOp)
					if !isLoad {
						ld, isLoad = p.resolve(bo.X).(*ssa.UnOp)
					}
					if isLoad && ls[ld]["&$t.mu"] == 'W' && ls[st]["&$t.mu"] == 'W' && noUnlockBetween(p, ld, st) {
						ok = true
					} else {
						why = "the t.ctx == nil check that guards the store was made outside the write-locked region of the store"
					}
				}
			}
			r.Check("(*T).Context#store-ctx", st.Pos(), ok, "t.ctx is stored only after re-checking t.ctx == nil inside the same write-locked region", why+": two goroutines can each create and observe a different context")
		}
		r.Floor("stores to t.ctx in Context", n, 1)
		// ctx and cancelCtx stored in the same region
		for _, fa := range p.fieldAccesses("T") {
			if p.within(fa.Fn, fn) && fa.Field == "cancelCtx" && fa.Kind == "write" {
				r.Check("(*T).Context#store-cancel", fa.Instr.Pos(), ls[fa.Instr]["&$t.mu"] == 'W', "cancel function stored under the write lock", "cancel function stored without the write lock")
			}
		}
		// every return value is the stored/loaded ctx or a cancelled fresh one
	}
}

// ruleC14R7: acquire/release pairing of T.mu on all exits.
func ruleC14R7(r *Run) {
	p := r.P
	n := 0
	for _, fn := range p.FuncList {
		acquires := false
		for _, b := range p.body(fn) {
			for _, in := range b.Instrs {
				if op := p.lockOpOf(in); op != nil && (op.kind == "Lock" || op.kind == "RLock") && strings.HasSuffix(op.path, ".mu") {
					acquires = true
				}
			}
		}
		if !acquires {
			continue
		}
		n++
		// deferred releases, by mode
		deferred := map[string]bool{}
		for _, b := range fn.Blocks {
			for _, in := range b.Instrs {
				d, ok := in.(*ssa.Defer)
				if !ok {
					continue
				}
				key := p.calleeKey(d.Common())
				for _, path := range p.deferredUnlocks(d) {
					mode := "W"
					if strings.HasSuffix(key, ".RUnlock") {
						mode = "R"
					}
					if mc, ok := d.Common().Value.(*ssa.MakeClosure); ok {
						mode = "W"
						if lit, ok := mc.Fn.(*ssa.Function); ok && len(p.callsTo(lit, "(*sync.RWMutex).RUnlock")) > 0 {
							mode = "R"
						}
					}
					deferred[path+"/"+mode] = true
				}
			}
		}
		ls := p.lockSets(fn)
		name := p.fnName(fn)
		okAll := true
		detail := ""
		for _, ret := range returnsOf(fn) {
			for path, mode := range ls[ret] {
				if !strings.HasSuffix(path, ".mu") {
					continue
				}
				if !deferred[path+"/"+string(mode)] {
					okAll = false
					detail = "returns at " + p.pos(ret.Pos()) + " with " + path + " held (" + string(mode) + ") and no deferred release of that mode"
				}
			}
		}
		r.Check(name+"#lock-balance", fn.Pos(), okAll, "every return releases the locks it took", name+" "+detail+": the next operation on this T blocks forever")
	}
	r.Floor("functions acquiring a T mutex", n, 6)
}

// ruleGuardedSliceEscape: a slice loaded from a guarded field of T may be read after the lock is released only if the
// field gave up the backing array in the same critical section (set to nil or to a fresh slice). Otherwise the
// unlocked reader and a concurrent writer that appends through the field share one array: no data race is
// reported (every field access is locked), but entries are overwritten (lost or run twice).
func ruleGuardedSliceEscape(r *Run) {
	p := r.P
	n := 0
	lsCache := map[*ssa.Function]map[ssa.Instruction]lockState{}
	for _, fa := range p.fieldAccesses("T") {
		if fa.Kind != "read" || fa.FA == nil {
			continue
		}
		guarded := false
		for _, g := range guardedT {
			if g == fa.Field {
				guarded = true
			}
		}
		ld, ok := fa.Instr.(*ssa.UnOp)
		if !guarded || !ok {
			continue
		}
		if _, isSlice := ld.Type().Underlying().(*types.Slice); !isSlice {
			continue
		}
		n++
		host := p.host(fa.Fn)
		ls, ok := lsCache[host]
		if !ok {
			ls = p.lockSets(host)
			lsCache[host] = ls
		}
		lock := "&" + strings.TrimPrefix(p.expr(fa.Base), "&") + ".mu"
		outside := ""
		seen := map[ssa.Value]bool{}
		var follow func(v ssa.Value, d int)
		follow = func(v ssa.Value, d int) {
			if v == nil || seen[v] || d > 6 || v.Referrers() == nil || outside != "" {
				return
			}
			seen[v] = true
			for _, ref := range *v.Referrers() {
				held := len(ls[ref]) > 0 && ls[ref][lock] != 0
				switch x := ref.(type) {
				case *ssa.DebugRef:
				case *ssa.IndexAddr, *ssa.Range, *ssa.Lookup, *ssa.Index:
					if !held {
						outside = "read at " + p.pos(ref.Pos())
					}
				case *ssa.Slice:
					if !held {
						outside = "resliced at " + p.pos(ref.Pos())
					} else {
						follow(x, d+1)
					}
				case *ssa.Phi:
					follow(x, d+1)
				case *ssa.Store:
					if x.Val != v {
						continue
					}
					if al, ok := x.Addr.(*ssa.Alloc); ok && al.Referrers() != nil {
						for _, r2 := range *al.Referrers() {
							if u, ok := r2.(*ssa.UnOp); ok {
								follow(u, d+1)
							}
						}
					}
				case ssa.CallInstruction:
					key := p.calleeKey(x.Common())
					if key == "builtin:len" || key == "builtin:cap" || key == "builtin:append" || key == "builtin:copy" || p.inRapidKey(x) || strings.HasPrefix(key, "dyn:") {
						if !held {
							outside = "used by " + key + " at " + p.pos(ref.Pos())
						}
					}
				}
			}
		}
		follow(ld, 0)
		if outside == "" {
			r.OK(p.hostName(fa.Fn)+"#slice-stays-locked."+fa.Field, ld.Pos(), "the slice loaded from T."+fa.Field+" is only used while the lock is held")
			continue
		}
		// ownership transfer in the same critical section
		transferred := false
		for _, fb := range p.fieldAccesses("T") {
			if fb.Field != fa.Field || fb.Kind != "write" || p.host(fb.Fn) != host {
				continue
			}
			st := fb.Instr.(*ssa.Store)
			fresh := isNilConst(p.resolve(st.Val))
			if _, isMake := p.resolve(st.Val).(*ssa.MakeSlice); isMake {
				fresh = true
			}
			if fresh && ls[st][lock] == 'W' && ls[ld][lock] != 0 && noUnlockBetween(p, ld, st) {
				transferred = true
			}
		}
		r.Check(p.hostName(fa.Fn)+"#slice-escapes-lock."+fa.Field, ld.Pos(), transferred, "the slice is read after unlocking, but the field was set to nil / a fresh slice in the same critical section",
			"the slice loaded from T."+fa.Field+" is "+outside+" after t.mu was released while T."+fa.Field+" still refers to the same backing array: a concurrent Cleanup appends into it and overwrites entries that are still pending (a cleanup is lost, another runs twice)")
	}
	r.Floor("loads of guarded slice fields of T", n, 3)
}

// ruleEndGroupAssertExempt: every assertion in endGroup holds trivially when discard is true.
func ruleEndGroupAssertExempt(r *Run) {
	p := r.P
	fn := r.MustFn("(*recordedBits).endGroup")
	if fn == nil {
		return
	}
	notDiscard := func(facts []rel) bool {
		return holds(facts, "$discard", "==", "false") || holds(facts, "$discard", "!=", "true")
	}
	var exempt func(v ssa.Value, facts []rel, d int) bool
	exempt = func(v ssa.Value, facts []rel, d int) bool {
		if notDiscard(facts) {
			return true
		}
		if d > 8 {
			return false
		}
		v = p.resolve(v)
		switch x := v.(type) {
		case *ssa.Const:
			b, ok := constBool(x)
			return ok && b
		case *ssa.Phi:
			for i, e := range x.Edges {
				pred := x.Block().Preds[i]
				if !exempt(e, p.facts(pred.Instrs[len(pred.Instrs)-1]), d+1) {
					return false
				}
			}
			return true
		case *ssa.Parameter:
			return p.expr(x) == "$discard"
		case ssa.Instruction:
			return notDiscard(p.facts(x))
		}
		return false
	}
	n := 0
	for _, cs := range p.callsTo(fn, "assertf", "assert") {
		n++
		r.Check("(*recordedBits).endGroup#assert-exempts-discard", cs.Instr.Pos(), exempt(cs.Arg(0), p.facts(cs.Instr), 0), "the assertion holds trivially for a discarded group", "an assertion of endGroup ("+p.expr(cs.Arg(0))+") can fail for a discarded group: an attempt that is rejected before its first draw (input exhausted inside Custom/Filter, Skip before drawing) panics with an assertion, which is reported as a failure of the test case instead of a skip — and only on the stream kind this branch serves")
	}
	r.Floor("assertions in endGroup", n, 1)
	// … and it is made in both recording modes: every path of endGroup to a return passes an assertion, unless the
	// path has established that the group is discarded. The search (findBug, MakeFuzz, the first run of every shrink
	// step) runs on non-recording streams, the reproduction and the second run of accept on recording ones: an
	// assertion made in one mode only gives the same bits two verdicts ("flaky").
	var discardPar ssa.Value
	for _, pa := range fn.Params {
		if pa.Name() == "discard" {
			discardPar = pa
		}
	}
	bad := ""
	complete := p.pathsFrom(fn.Blocks[0], 2000, func(cp *cfgPath, back bool) {
		if bad != "" || back || cp.infeasible {
			return
		}
		last := cp.blocks[len(cp.blocks)-1]
		if _, isRet := last.Instrs[len(last.Instrs)-1].(*ssa.Return); !isRet {
			return
		}
		for _, b := range cp.blocks {
			for _, in := range b.Instrs {
				if c, ok := in.(*ssa.Call); ok {
					if k := p.calleeKey(c.Common()); k == "assertf" || k == "assert" {
						return
					}
				}
			}
		}
		if discardPar != nil {
			if v, known := cp.eval(discardPar); known && v {
				return
			}
		}
		bad = cp.String()
	})
	if !complete {
		r.Undecided("(*recordedBits).endGroup#assert-in-both-modes", fn.Pos(), "too many paths in endGroup")
	} else {
		r.Check("(*recordedBits).endGroup#assert-in-both-modes", fn.Pos(), bad == "", "every path of endGroup that keeps the group passes the 'used data' assertion, whatever the recording mode",
			"endGroup returns on path "+bad+" without the 'group used data' assertion although the group is kept: a Custom function that draws nothing passes on the streams served by that path and panics on the others — the same bits get two verdicts (search vs. reproduction: 'flaky')")
	}
}

// ruleNoDeferredEndGroup: endGroup asserts that a kept group used data. Called normally it is reached only after
// the draws of the group returned; deferred (directly or inside a deferred function literal) it also runs while an
// invalidData panic of the group's first draw unwinds (input exhausted, fail file truncated at that point, Skip), and
// its assertion panic replaces that one: the test case is reported as failed instead of invalid.
func ruleNoDeferredEndGroup(r *Run) {
	p := r.P
	n := 0
	deferredLits := map[*ssa.Function]token.Pos{}
	for _, fn := range p.allFuncs() {
		for _, b := range fn.Blocks {
			for _, in := range b.Instrs {
				d, ok := in.(*ssa.Defer)
				if !ok {
					continue
				}
				if mc, ok := d.Call.Value.(*ssa.MakeClosure); ok {
					if f, ok := mc.Fn.(*ssa.Function); ok {
						deferredLits[f] = d.Pos()
					}
				} else if f, ok := d.Call.Value.(*ssa.Function); ok && f.Parent() != nil {
					deferredLits[f] = d.Pos()
				}
			}
		}
	}
	for _, fn := range p.allFuncs() {
		for _, b := range fn.Blocks {
			for _, in := range b.Instrs {
				c, ok := in.(ssa.CallInstruction)
				if !ok {
					continue
				}
				key := p.calleeKey(c.Common())
				if key != "invoke:bitStream.endGroup" && key != "(*recordedBits).endGroup" {
					continue
				}
				n++
				_, isDefer := in.(*ssa.Defer)
				_, inLit := deferredLits[fn]
				name := p.fnName(fn)
				r.Check(name+"#endGroup-not-deferred", in.Pos(), !isDefer && !inLit, "endGroup is called on the normal path only", "endGroup is deferred in "+name+": it also runs while an invalidData panic raised by the group's first draw unwinds (input exhausted, truncated fail file, Skip before drawing); the group is then empty, endGroup's assertion panics and replaces the invalidData — the test case is reported as a failure instead of being skipped / ignored")
			}
		}
	}
	r.Floor("endGroup calls", n, 8)
}

// lockOwnerIsT: the mutex locked by this call is a field of T.
func (p *Program) lockOwnerIsT(in ssa.Instruction) bool {
	c, ok := in.(*ssa.Call)
	if !ok || len(c.Common().Args) == 0 {
		return false
	}
	fa, ok := c.Common().Args[0].(*ssa.FieldAddr)
	if !ok {
		if fa2, ok2 := p.resolve(c.Common().Args[0]).(*ssa.FieldAddr); ok2 {
			fa, ok = fa2, true
		}
	}
	return ok && p.fieldAddrOwner(fa) == "T"
}
