package main

import (
	"fmt"
	"go/token"
	"strings"

	"golang.org/x/tools/go/ssa"
)

func init() { register("C04", specC04) }

func specC04() *propertySpec {
	return &propertySpec{
		ID: "C04",
		Explanation: "Decides noninterference of draws for all seeds, recordings and process histories: (a) inside the generation closure (everything a draw can execute) there is no " +
			"nondeterminism source, no go/select, no unordered map iteration feeding draws and no read of mutable package state outside a reviewed allow-list; (b) nothing derived from " +
			"discarded (rejected) bits steers later draws — the only state written after a rejection that is read elsewhere is `rejected` (→ discard flag), the net-zero `count`, and `forceStop`, " +
			"whose influenced path is replay-neutral (one zero-width word in its own group, result false, which is what a replay computes from a zero word for pContinue < 1); retry loops keep " +
			"no state across discarded attempts; a value produced in a group is used only when the group is not discarded; (c) both stream implementations return exactly the masked value they " +
			"record; prune removes exactly the discarded groups; (d) the PRNG state is fully re-initialised from the per-case seed, and Example(seed) uses the seed verbatim. " +
			"Not decided: user side effects in rejected Custom attempts; equality of verdicts beyond equality of draws.",
		Assumptions: []string{"-rapid.steps and collection minimum lengths are below 2^52 (beyond that 1-1/(1+avg) rounds to 1 and a zero coin word no longer means stop)"},
		Rules: []ruleSpec{
			{"C04-R1", "nondeterminism-census: no nondeterminism source, go/select, map iteration or unlisted global read in the generation closure; the stream position (not reset between test cases) is used only relatively (shared with C11-R3)", func(r *Run) {
				nondetCensus(r, "generation", []string{"<generation>"}, false)
				ruleStreamPositionRelative(r)
			}},
			{"C04-R2", "reseed-per-case: findBug re-initialises the shared PRNG in every iteration; jsf64ctx.init writes all state words before the first rand(); Example(seed) passes the seed verbatim", ruleC04R2},
			{"C04-R3", "draw-equals-record: both drawBits record exactly the returned value, masked by bitmask64(n); the buffer stream consumes one word per call; buf is touched nowhere else", func(r *Run) { ruleC04R3(r); ruleC04R3buf(r) }},
			{"C04-R4.4", "discard-taint: state written by (*repeat).reject influences later draws only through the discard flag, the net-zero count, or a replay-neutral forced stop", ruleC04R44},
			{"C04-R4.5", "stateless-retries: loops that discard attempts (find, genUintN*) carry no state across attempts except a bounded try counter", ruleC04R45},
			{"C04-R4.6", "discard-means-unused: at every endGroup with a computed discard flag, the value produced in the group is returned only on paths where the flag is false; the element of a rejected collection step is never accumulated (shared with C03-R2)", func(r *Run) { ruleC04R46(r); ruleC03R2(r) }},
			{"C04-R4.7", "rejected-try-leaves-no-trace: an attempt of find that may be discarded does not modify the T it is drawn from unless it aborts the test case (the verdict must not depend on discarded bits)", ruleC04R47},
			{"C04-R4.8", "retry-in-place-only-without-bits: a Repeat action is retried inside the same (kept) step only if it has drawn nothing from the bitstream; otherwise the step is rejected and discarded", ruleC04R48},
			{"C04-R4.9", "recording-only-grows: rec.data and rec.groups are shortened or replaced only by prune and its helpers; every other store appends, so drawn() = len(rec.data) is the number of words drawn in recording runs as it is (by counter) in the others", ruleC04R49},
			{"C04-R4.10", "no-failure-discarded: wherever a rejected attempt is marked as discarded (repeat.reject, endGroup with a discard flag) after user code may have run in it (generator values, function values), the failure flag is consulted first on every path: the verdict of a test case does not rest on bits that prune() removes", ruleNoFailureDiscarded},
			{"C04-R4.11", "repeat-state-owned: the fields of repeat are written only by newRepeat, more and reject — no generator adjusts the count, the limits or the continue probability after a rejection; the only rejection-derived state that steers a draw is the one R4.4 reviews (shared from C03-R9)", ruleRepeatOwnState},
			{"C04-R4.13", "state-machine-carries-no-state: the fields of stateMachine are stored only by the function that allocates it, before the step loop — nothing is carried from a step (possibly rejected and pruned) into a later one", ruleStateMachineNoState},
			{"C04-R4.12", "same-verdict-in-both-recording-modes: endGroup's 'group used data' assertion is made on every path that keeps the group, recording or not, and exempts discarded groups in both (shared with C13-R6 / C01-R10): the search runs on non-recording streams, the reproduction on recording ones", ruleEndGroupAssertExempt},
			{"C04-R7", "no-once-around-user-code: no sync.Once.Do function calls a function value (a panic there is remembered as 'done' and the same bits give another verdict afterwards)", ruleNoOnceAroundUserCode},
			{"C04-R5", "prune-removes-exactly-discards: prune removes group i only under groups[i].discard; removeGroup deletes data[g.begin:g.end] and rebases by g.end-g.begin", ruleC04R5},
			{"C04-R6", "generators-are-not-changed-by-draws: the generator is the other argument of the draw function: a value method neither stores through nor hands out data loaded from a generator field, a package-level variable or an object captured when the generator was built, so the same bits keep producing the same values (shared with C15-R3)", ruleC15R3},
		},
	}
}

func ruleC04R2(r *Run) {
	p := r.P
	if v := r.viewFindBug(); v != nil {
		if r.seedOfCase(v) {
			r.OK("findBug#reseed", v.seedSite.Instr.Pos(), "the PRNG feeding each test case is initialised inside the iteration by "+v.seedSite.Key+"("+p.expr(v.seedVal)+")")
		} else {
			r.Fail("findBug#reseed", v.checkOnce.Instr.Pos(), "no (re)initialisation of the random stream dominates checkOnce inside the loop iteration: the draws of a test case depend on all earlier test cases of the run")
		}
	}
	if fn := r.MustFn("(*jsf64ctx).init"); fn != nil {
		written := map[string]bool{}
		var firstRand ssa.Instruction
		for _, cs := range p.callsTo(fn, "(*jsf64ctx).rand") {
			if firstRand == nil || dominates(cs.Instr, firstRand) {
				firstRand = cs.Instr
			}
		}
		okSrc := true
		for _, fa := range p.fieldAccesses("jsf64ctx") {
			if !p.within(fa.Fn, fn) {
				continue
			}
			switch fa.Kind {
			case "write":
				st := fa.Instr.(*ssa.Store)
				val := p.resolve(st.Val)
				_, isConst := val.(*ssa.Const)
				if !isConst && val != ssa.Value(paramNamed(fn, "seed")) {
					okSrc = false
				}
				if firstRand == nil || dominates(st, firstRand) {
					written[fa.Field] = true
				}
			case "read":
				okSrc = false
			}
		}
		all := written["a"] && written["b"] && written["c"] && written["d"]
		r.Check("(*jsf64ctx).init#full-reset", fn.Pos(), all && okSrc && firstRand != nil, "all four state words are written from constants / the seed before the first rand(), none is read",
			fmt.Sprintf("jsf64ctx.init does not fully re-initialise the generator state from the seed (written before first rand: %v, only const/seed sources and no reads: %v): state of the previous test case leaks into the next", written, okSrc))
		// number of state words of the type
		n := 0
		for _, fa := range p.fieldAccesses("jsf64ctx") {
			if p.hostName(fa.Fn) == "(*jsf64ctx).rand" && fa.Kind == "write" {
				n++
			}
		}
		r.Floor("state-word stores in jsf64ctx.rand", n, 4)
	}
	if fn := r.MustFn("(*randomBitStream).init"); fn != nil {
		cs := p.callsTo(fn, "(*jsf64ctx).init")
		r.Check("(*randomBitStream).init", fn.Pos(), len(cs) == 1 && p.resolve(cs[0].Arg(0)) == ssa.Value(paramNamed(fn, "seed")), "passes the seed unchanged to jsf64ctx.init", "randomBitStream.init does not pass its seed unchanged to jsf64ctx.init")
	}
	if fn := r.MustFn("newRandomBitStream"); fn != nil {
		// through the stream's own init, or directly on its generator state
		cs := append(p.callsTo(fn, "(*randomBitStream).init"), p.callsTo(fn, "(*jsf64ctx).init")...)
		okInit := len(cs) == 1 && p.resolve(cs[0].Arg(0)) == ssa.Value(paramNamed(fn, "seed"))
		if okInit && cs[0].Key == "(*jsf64ctx).init" {
			fa, isFA := cs[0].Recv().(*ssa.FieldAddr)
			okInit = isFA && fieldAddrName(fa) == "ctx"
			for _, ret := range returnsOf(fn) {
				if isFA && p.resolve(p.res(ret, 0)) != p.resolve(fa.X) {
					okInit = false
				}
			}
		}
		r.Check("newRandomBitStream", fn.Pos(), okInit, "initialises the stream with the given seed", "newRandomBitStream does not initialise the stream with its seed parameter")
	}
	if fn := r.MustFn("(*Generator).Example"); fn != nil {
		cs := p.callsTo(fn, "newRandomBitStream")
		if len(cs) != 1 {
			r.Fail("(*Generator).Example#stream", fn.Pos(), "expected one newRandomBitStream call in Example")
		} else {
			ph, isPhi := p.resolve(cs[0].Arg(0)).(*ssa.Phi)
			ok := false
			why := "seed operand is " + p.expr(cs[0].Arg(0))
			if isPhi {
				for i, e := range ph.Edges {
					c, isConv := p.resolve(e).(*ssa.Convert)
					if !isConv {
						continue
					}
					src := p.expr(c.X)
					if src == "$seed[0]" {
						// the edge must come from the len(seed) > 0 branch
						pred := ph.Block().Preds[i]
						if holds(p.facts(pred.Instrs[len(pred.Instrs)-1]), "builtin:len($seed)", ">", "0") {
							ok = true
						}
					} else {
						why = "explicit seed is transformed: " + p.expr(e)
					}
				}
			}
			r.Check("(*Generator).Example#seed", cs[0].Instr.Pos(), ok, "an explicit seed is used verbatim (uint64(seed[0]))", "Example(seed) does not seed the stream with uint64(seed[0]) verbatim: "+why)
		}
	}
}

func ruleC04R3(r *Run) {
	p := r.P
	for _, name := range []string{"(*randomBitStream).drawBits", "(*bufBitStream).drawBits"} {
		fn := r.MustFn(name)
		if fn == nil {
			continue
		}
		recs := p.callsTo(fn, "(*recordedBits).record")
		if len(recs) == 0 {
			r.Fail(name+"#record", fn.Pos(), name+" never calls record")
			continue
		}
		nPar := paramNamed(fn, "n")
		// masking
		check := func(v ssa.Value, pos token.Pos, what string) {
			bo, ok := p.resolve(v).(*ssa.BinOp)
			okMask := false
			if ok && bo.Op == token.AND {
				for _, side := range []ssa.Value{bo.X, bo.Y} {
					if c, ok := p.resolve(side).(*ssa.Call); ok && p.calleeKey(c.Common()) == "bitmask64" {
						if cv, ok := p.resolve(c.Common().Args[0]).(*ssa.Convert); ok && p.resolve(cv.X) == ssa.Value(nPar) {
							okMask = true
						}
					}
				}
			}
			r.Check(name+"#mask", pos, okMask, what+" is masked with bitmask64(uint(n))", what+" is "+p.expr(v)+": not masked to n bits with bitmask64(uint(n)) — run and replay (which masks) disagree")
		}
		checked := map[*callSite]bool{}
		for _, ret := range returnsOf(fn) {
			// exactly one record on every path to this return
			var dom []*callSite
			extra := false
			for _, rec := range recs {
				if dominates(rec.Instr, ret) {
					dom = append(dom, rec)
				} else if reachable(rec.Instr, ret, nil) {
					extra = true
				}
			}
			if len(dom) != 1 || extra {
				r.Fail(name+"#record", ret.Pos(), fmt.Sprintf("on the paths to this return %s calls record %d times unconditionally (conditionally: %v); expected exactly once per draw", name, len(dom), extra))
				continue
			}
			rec := dom[0]
			rv := p.res(ret, 0)
			r.Check(name+"#return=recorded", ret.Pos(), p.same(rv, rec.Arg(0)), "the returned value is the recorded value", "drawBits returns "+p.expr(rv)+" but records "+p.expr(rec.Arg(0))+": a replay of the recording sees other bits than the original run")
			if checked[rec] {
				continue
			}
			checked[rec] = true
			for _, a := range p.alternatives(rec.Arg(0), 0) {
				facts := append(p.facts(rec.Instr), a.Facts...)
				if c, isC := p.resolve(a.Val).(*ssa.Const); isC {
					// the saturating draw (n > 64) must have all 64 bits set: replayed under the mask of any narrower
					// full-width draw it must read as that draw's maximum
					r.Check(name+"#wide", rec.Instr.Pos(), p.expr(c) == "18446744073709551615" && holds(facts, "$n", ">", "64"), "n > 64 yields all ones", "the constant drawn value is "+p.expr(c)+" under "+factsStr(facts)+" (expected all 64 bits set, only for n > 64)")
					continue
				}
				check(a.Val, rec.Instr.Pos(), "the drawn word")
			}
		}
	}
	if fn := r.MustFn("bitmask64"); fn != nil {
		ok := false
		for _, ret := range returnsOf(fn) {
			if p.expr(p.res(ret, 0)) == "((1 << $n) - 1)" {
				ok = true
			}
		}
		r.Check("bitmask64", fn.Pos(), ok, "bitmask64(n) = 1<<n - 1", "bitmask64 no longer computes 1<<n - 1")
	}
	if fn := r.MustFn("(*recordedBits).record"); fn != nil {
		okAppend, okCount := false, false
		for _, fa := range p.fieldAccesses("recordedBits") {
			if !p.within(fa.Fn, fn) || fa.Kind != "write" {
				continue
			}
			st := fa.Instr.(*ssa.Store)
			switch fa.Field {
			case "data":
				if ap, ok := p.resolve(st.Val).(*ssa.Call); ok && p.calleeKey(ap.Common()) == "builtin:append" && p.expr(ap.Common().Args[0]) == "$rec.data" {
					vs := p.variadicArgs(ap.Common().Args[1])
					if len(vs) == 1 && p.resolve(vs[0]) == ssa.Value(paramNamed(fn, "u")) && holds(p.facts(st), "$rec.persist", "==", "true") {
						okAppend = true
					}
				}
			case "dataLen":
				okCount = holds(p.facts(st), "$rec.persist", "==", "false")
			default:
				r.Fail("(*recordedBits).record#"+fa.Field, st.Pos(), "record writes recordedBits."+fa.Field)
			}
		}
		r.Check("(*recordedBits).record#append", fn.Pos(), okAppend, "a persisting stream appends exactly the recorded word", "record does not append exactly u to rec.data when persist is set")
		r.Check("(*recordedBits).record#count", fn.Pos(), okCount, "a non-persisting stream only counts", "record's non-persist path changed")
	}
}

// ruleC04R3buf: bufBitStream.buf is read only by drawBits/constructor, one word is consumed per call.
func ruleC04R3buf(r *Run) {
	p := r.P
	fn := r.MustFn("(*bufBitStream).drawBits")
	if fn == nil {
		return
	}
	n := 0
	for _, fa := range p.fieldAccesses("bufBitStream") {
		if fa.Field != "buf" {
			continue
		}
		n++
		name := p.hostName(fa.Fn)
		ok := name == "(*bufBitStream).drawBits" || name == "newBufBitStream"
		r.Check(name+"#buf."+fa.Kind, fa.Instr.Pos(), ok, "buf accessed by the stream itself", "bufBitStream.buf is accessed in "+name+": something other than drawBits depends on unread words")
	}
	r.Floor("accesses to bufBitStream.buf", n, 4)
	var adv *ssa.Store
	for _, fa := range p.fieldAccesses("bufBitStream") {
		if p.within(fa.Fn, fn) && fa.Field == "buf" && fa.Kind == "write" {
			adv = fa.Instr.(*ssa.Store)
		}
	}
	okAdv := false
	if adv != nil {
		if sl, ok := p.resolve(adv.Val).(*ssa.Slice); ok && p.expr(sl.X) == "$s.buf" && sl.High == nil && sl.Low != nil {
			c, isC := constInt(p.resolve(sl.Low))
			okAdv = isC && c == 1
		}
	}
	if adv == nil {
		r.Fail("(*bufBitStream).drawBits#advance", fn.Pos(), "drawBits does not advance buf")
		return
	}
	byp := escapesFromEntry(fn, func(in ssa.Instruction) bool { return in == ssa.Instruction(adv) }, false)
	r.Check("(*bufBitStream).drawBits#advance", adv.Pos(), okAdv && byp == nil, "every returning path consumes exactly one word (buf = buf[1:])", "drawBits does not consume exactly one word per call on every returning path")
	// the word read is buf[0]
	okRead := false
	for _, fa := range p.fieldAccesses("bufBitStream") {
		if p.within(fa.Fn, fn) && fa.Field == "buf" && fa.Kind == "read" {
			ld := fa.Instr.(*ssa.UnOp)
			if ld.Referrers() != nil {
				for _, ref := range *ld.Referrers() {
					if ia, ok := ref.(*ssa.IndexAddr); ok {
						c, isC := constInt(p.resolve(ia.Index))
						if isC && c == 0 {
							okRead = true
						} else {
							r.Fail("(*bufBitStream).drawBits#index", ia.Pos(), "drawBits reads buf["+p.expr(ia.Index)+"]")
						}
					}
				}
			}
		}
	}
	r.Check("(*bufBitStream).drawBits#word", fn.Pos(), okRead, "the word drawn is buf[0]", "drawBits does not read buf[0]")
}

// ---------------------------------------------------------------------------
// discard taint

func ruleC04R44(r *Run) {
	p := r.P
	reject := r.MustFn("(*repeat).reject")
	more := r.MustFn("(*repeat).more")
	if reject == nil || more == nil {
		return
	}
	// D: fields of repeat stored by reject
	D := map[string]bool{}
	for _, fa := range p.fieldAccesses("repeat") {
		if p.within(fa.Fn, reject) && fa.Kind == "write" {
			D[fa.Field] = true
		}
	}
	var dl []string
	for f := range D {
		dl = append(dl, f)
	}
	sortStrings(dl)
	r.Floor("fields of repeat written after a rejection", len(dl), 3)
	r.OK("reject-state", reject.Pos(), "state written after a rejection: "+strings.Join(dl, ", "))
	// reject is called only from rejecting loops (not from more)
	for _, fa := range p.fieldAccesses("repeat") {
		if !D[fa.Field] || p.within(fa.Fn, reject) || p.hostName(fa.Fn) == "newRepeat" {
			continue
		}
		name := p.hostName(fa.Fn)
		construct := name + "#" + fa.Field + "." + fa.Kind
		switch fa.Field {
		case "rejected":
			switch fa.Kind {
			case "write":
				st := fa.Instr.(*ssa.Store)
				b, ok := constBool(p.resolve(st.Val))
				r.Check(construct, st.Pos(), ok && !b, "rejected is reset to false for the next attempt", "rejected is written with "+p.expr(st.Val)+" outside reject")
			case "read":
				// may flow only into endGroup's discard operand
				ld := fa.Instr.(*ssa.UnOp)
				ok := true
				if ld.Referrers() != nil {
					for _, ref := range *ld.Referrers() {
						c, isCall := ref.(ssa.CallInstruction)
						if _, dbg := ref.(*ssa.DebugRef); dbg {
							continue
						}
						if !isCall || p.calleeKey(c.Common()) != "invoke:bitStream.endGroup" || len(c.Common().Args) < 2 || c.Common().Args[1] != ssa.Value(ld) {
							ok = false
						}
					}
				}
				r.Check(construct, ld.Pos(), ok, "rejected flows only into the discard operand of endGroup", "rejected flows somewhere other than endGroup's discard operand: rejection state can steer later draws")
			default:
				r.Fail(construct, fa.Instr.Pos(), "address of repeat.rejected escapes")
			}
		case "count":
			switch fa.Kind {
			case "write":
				st := fa.Instr.(*ssa.Store)
				ok := p.expr(st.Val) == "($r.count + 1)" && name == "(*repeat).more"
				r.Check(construct, st.Pos(), ok, "count is incremented by one on the continue edge of more (reject undoes exactly that increment: net zero for a rejected attempt)", "count is written with "+p.expr(st.Val)+" in "+name+": together with reject's decrement the net effect of a rejected attempt is no longer zero")
			case "read":
				r.OK(construct, fa.Instr.Pos(), "count read (net effect of a rejected attempt on count is zero, see the write obligations)")
			default:
				r.Fail(construct, fa.Instr.Pos(), "address of repeat.count escapes")
			}
		default:
			// rejections, forceStop, or any new field: loads outside reject must be the replay-neutral forced stop
			if fa.Kind == "write" {
				r.Fail(construct, fa.Instr.Pos(), "repeat."+fa.Field+" (rejection-derived state) is also written outside reject")
				continue
			}
			if fa.Kind != "read" {
				r.Fail(construct, fa.Instr.Pos(), "address of repeat."+fa.Field+" escapes")
				continue
			}
			ok, why := replayNeutralUse(r, fa.Fn, fa.Instr.(*ssa.UnOp))
			r.Check(construct, fa.Instr.Pos(), ok, "rejection-derived state repeat."+fa.Field+" only selects the replay-neutral forced stop: "+why,
				"rejection-derived state repeat."+fa.Field+" influences later draws in "+name+": "+why+" — the bits of rejected attempts are deleted by prune(), so a replay of the pruned recording does not see this state and diverges")
		}
	}
	// reject's own shape: count-1 (undoing the increment of more for the rejected attempt)
	nDec := 0
	for _, fa := range p.fieldAccesses("repeat") {
		if p.within(fa.Fn, reject) && fa.Field == "count" && fa.Kind == "write" {
			st := fa.Instr.(*ssa.Store)
			nDec++
			byp := escapesFromEntry(reject, func(in ssa.Instruction) bool { return in == ssa.Instruction(st) }, false)
			r.Check("(*repeat).reject#count-1", st.Pos(), p.expr(st.Val) == "($r.count - 1)" && byp == nil, "reject decrements count by one on every path", "reject writes count with "+p.expr(st.Val)+" (or not on every path): the net effect of a rejected attempt on count is not zero")
		}
	}
	if nDec != 1 {
		r.Fail("(*repeat).reject#count-1", reject.Pos(), fmt.Sprintf("reject decrements count %d times (expected exactly once): a rejected attempt changes the element count seen by later coin flips, which a pruned replay does not reproduce", nDec))
	}
	// flipBiasedCoin on a zero word: returns f >= 1-p with f drawn in one group of one word
	if fc := r.MustFn("flipBiasedCoin"); fc != nil {
		bg, eg, gf := p.callsTo(fc, "invoke:bitStream.beginGroup"), p.callsTo(fc, "invoke:bitStream.endGroup"), p.callsTo(fc, "genFloat01")
		okShape := len(bg) == 1 && len(eg) == 1 && len(gf) == 1 && len(p.callsTo(fc, "invoke:bitStream.drawBits")) == 0
		okRet := false
		for _, ret := range returnsOf(fc) {
			if strings.HasPrefix(p.expr(p.res(ret, 0)), "(genFloat01($s) >= (1 - $p))") {
				okRet = true
			}
		}
		r.Check("flipBiasedCoin#shape", fc.Pos(), okShape && okRet, "a coin is one group containing one genFloat01 word and returns f >= 1-p (a zero word means false for p < 1)", "flipBiasedCoin no longer is {one group, one word, f >= 1-p}: the zero-coin encoding of a forced stop is no longer neutral")
	}
	if gf := r.MustFn("genFloat01"); gf != nil {
		db := p.callsTo(gf, "invoke:bitStream.drawBits")
		ok := len(db) == 1
		if ok {
			for _, ret := range returnsOf(gf) {
				bo, isMul := p.resolve(p.res(ret, 0)).(*ssa.BinOp)
				if !isMul || bo.Op != token.MUL {
					ok = false
					continue
				}
				cv, isCv := p.resolve(bo.X).(*ssa.Convert)
				_, isConst := p.resolve(bo.Y).(*ssa.Const)
				if !isCv || !isConst || p.resolve(cv.X) != db[0].Value() {
					ok = false
				}
			}
		}
		r.Check("genFloat01#shape", gf.Pos(), ok, "genFloat01 = float64(one 53-bit word) * constant (a zero word gives 0)", "genFloat01 no longer maps one drawn word linearly to [0,1): a zero word may not be 0")
	}
	// pContinue < 1 at the call sites of rejecting loops
	n := 0
	for _, fn := range p.FuncList {
		rej := p.callsTo(fn, "(*repeat).reject")
		if len(rej) == 0 {
			continue
		}
		for _, nr := range p.callsTo(fn, "newRepeat") {
			n++
			avg := p.resolve(nr.Arg(2))
			ok := false
			desc := p.expr(avg)
			if c, isC := avg.(*ssa.Const); isC {
				ok = p.expr(c) == "-1"
			} else if cv, isCv := avg.(*ssa.Convert); isCv {
				ok = p.derivesFrom(cv.X, "G:flags.steps", 0)
				desc += " (does not derive from flags.steps by constant division only)"
			}
			r.Check(p.fnName(fn)+"#newRepeat.avg", nr.Instr.Pos(), ok, "average count of a rejecting loop is -1 (derived) or flags.steps: pContinue < 1", "a loop that can reject uses average count "+desc+": pContinue may be 1, for which a zero coin word means continue")
		}
	}
	r.Floor("newRepeat sites of rejecting loops", n, 5)
}

// replayNeutralUse: the loaded value only decides a branch whose "forced" edge draws exactly one
// zero-width word inside its own kept group and makes more() return false, while the other edge
// flips the ordinary coin. Works on (*repeat).more itself or on a helper extracted from it.
func replayNeutralUse(r *Run, fn *ssa.Function, ld *ssa.UnOp) (bool, string) {
	p := r.P
	if p.hostName(fn) != "(*repeat).more" {
		return false, "read outside (*repeat).more"
	}
	// follow negations to the branch
	type br struct {
		iff      *ssa.If
		forcedOn int // successor index taken when the loaded flag is true
	}
	var brs []br
	var follow func(v ssa.Value, neg bool, d int) string
	follow = func(v ssa.Value, neg bool, d int) string {
		if v.Referrers() == nil || d > 3 {
			return ""
		}
		for _, ref := range *v.Referrers() {
			switch x := ref.(type) {
			case *ssa.DebugRef:
			case *ssa.If:
				idx := 0
				if neg {
					idx = 1
				}
				brs = append(brs, br{x, idx})
			case *ssa.UnOp:
				if x.Op != token.NOT {
					return "flows into " + p.expr(x)
				}
				if why := follow(x, !neg, d+1); why != "" {
					return why
				}
			default:
				return "flows into " + strings.TrimSpace(fmt.Sprintf("%T", ref)) + " at " + p.pos(ref.Pos()) + " (" + p.expr(valueOf(ref)) + ") rather than selecting the forced-stop path"
			}
		}
		return ""
	}
	if why := follow(ld, false, 0); why != "" {
		return false, why
	}
	if len(brs) == 0 {
		return true, "unused"
	}
	isStreamCall := func(in ssa.Instruction) (string, *ssa.Call) {
		c, ok := in.(*ssa.Call)
		if !ok {
			return "", nil
		}
		k := p.calleeKey(c.Common())
		if strings.HasPrefix(k, "invoke:bitStream.") || k == "flipBiasedCoin" || k == "genFloat01" || k == "genGeom" || strings.HasPrefix(k, "genUint") {
			return k, c
		}
		return "", nil
	}
	for _, b := range brs {
		forced := b.iff.Block().Succs[b.forcedOn]
		other := b.iff.Block().Succs[1-b.forcedOn]
		nPaths := 0
		why := ""
		okEnum := p.pathsFrom(forced, 200, func(cp *cfgPath, back bool) {
			if cp.infeasible || why != "" {
				return
			}
			// the flag is read more than once (nothing in more writes it): a path on which two reads disagree does
			// not exist
			for i := 0; i+1 < len(cp.blocks); i++ {
				blk := cp.blocks[i]
				iff2, isIf := blk.Instrs[len(blk.Instrs)-1].(*ssa.If)
				if !isIf || blk.Succs[0] == blk.Succs[1] {
					continue
				}
				c, pol := ssa.Value(iff2.Cond), blk.Succs[0] == cp.blocks[i+1]
				for k := 0; k < 3; k++ {
					if u, isNot := c.(*ssa.UnOp); isNot && u.Op == token.NOT {
						c, pol = u.X, !pol
						continue
					}
					break
				}
				if l2, isLoad := c.(*ssa.UnOp); isLoad && l2.Op == token.MUL && l2 != ld && p.expr(l2) == p.expr(ld) && !pol {
					return // this path takes the flag as false after the branch under examination took it as true
				}
			}
			last := cp.blocks[len(cp.blocks)-1]
			ret, isRet := last.Instrs[len(last.Instrs)-1].(*ssa.Return)
			if !isRet {
				return // panics are not stops
			}
			nPaths++
			var keys []string
			var calls []*ssa.Call
			var collect func(in ssa.Instruction, d int)
			collect = func(in ssa.Instruction, d int) {
				if k, c := isStreamCall(in); k != "" {
					keys = append(keys, k)
					calls = append(calls, c)
					return
				}
				// a straight-line helper on the path contributes its own stream calls in order
				if h := transparentCallee(in); h != nil && d < 4 {
					for _, hb := range h.Blocks {
						if len(hb.Succs) > 1 {
							why = "the forced-stop path calls " + p.fnName(h) + ", which branches"
							return
						}
					}
					for _, hb := range h.Blocks {
						for _, hin := range hb.Instrs {
							collect(hin, d+1)
						}
					}
				}
			}
			for _, blk := range cp.blocks {
				for _, in := range blk.Instrs {
					collect(in, 0)
				}
			}
			if why != "" {
				return
			}
			// the coin group may be opened before the branch (shared with the free coin): then nothing is drawn between
			// its beginGroup and the branch
			if len(calls) >= 2 && keys[0] == "invoke:bitStream.drawBits" && keys[1] == "invoke:bitStream.endGroup" {
				if bg, isCall := p.resolve(calls[1].Common().Args[0]).(*ssa.Call); isCall && p.calleeKey(bg.Common()) == "invoke:bitStream.beginGroup" && dominates(bg, b.iff) {
					clean := true
					for _, blk := range p.body(fn) {
						for _, in := range blk.Instrs {
							if k, _ := isStreamCall(in); k != "" && in != ssa.Instruction(bg) && reachable(bg, in, nil) && reachable(in, b.iff, nil) {
								clean = false
							}
						}
					}
					if clean {
						keys = append([]string{"invoke:bitStream.beginGroup"}, keys...)
						calls = append([]*ssa.Call{bg}, calls...)
					}
				}
			}
			if len(calls) < 3 || keys[0] != "invoke:bitStream.beginGroup" || keys[1] != "invoke:bitStream.drawBits" || keys[2] != "invoke:bitStream.endGroup" {
				why = "the forced-stop path makes the bitstream calls " + strings.Join(keys, ", ") + " (expected beginGroup, drawBits(0), endGroup first)"
				return
			}
			if w, ok := constInt(p.resolve(calls[1].Common().Args[0])); !ok || w != 0 {
				why = "the forced-stop path draws " + p.expr(calls[1].Common().Args[0]) + " bits instead of a zero-width word"
				return
			}
			if p.resolve(calls[2].Common().Args[0]) != ssa.Value(calls[0]) {
				why = "the forced-stop word is not enclosed in its own group"
				return
			}
			if d, ok := constBool(p.resolve(calls[2].Common().Args[1])); !ok || d {
				why = "the forced-stop group is discarded"
				return
			}
			for i := 3; i < len(calls); i++ {
				// afterwards only the closing of the repeat group, as on an ordinary stop
				d, isC := constBool(p.resolve(calls[i].Common().Args[len(calls[i].Common().Args)-1]))
				if keys[i] != "invoke:bitStream.endGroup" || !isC || d {
					why = "after the zero-width word the forced-stop path also calls " + keys[i]
					return
				}
			}
			if v, isC := constBool(cp.onPath(p.res(ret, 0))); !isC || v {
				why = "the forced-stop path does not yield false (" + p.expr(cp.onPath(p.res(ret, 0))) + ")"
				return
			}
		})
		if !okEnum {
			return false, "too many paths"
		}
		if why != "" {
			return false, why
		}
		if nPaths == 0 {
			return false, "the forced-stop path never returns"
		}
		// the helper's result is what more() returns
		if host := p.host(fn); host != fn {
			okRet := false
			for _, hret := range returnsOf(host) {
				v := p.res(hret, 0)
				for i := 0; i < 4; i++ {
					if c, ok := v.(*ssa.Call); ok {
						if h := transparentCallee(c); h != nil && p.within(fn, h) {
							okRet = true
						}
					}
					nv := p.resolve(v)
					if nv == v {
						break
					}
					v = nv
				}
			}
			if !okRet {
				// or it decides a branch of the host: with the helper returning false (checked above), the host may
				// only close the repeat group and return false
				site, _ := p.helperSite(fn).(*ssa.Call)
				if site == nil || site.Parent() != host {
					return false, "the value computed by " + p.fnName(fn) + " is not what more() returns"
				}
				nCont, whyC := 0, ""
				okC := p.pathsFrom(site.Block(), 200, func(cp *cfgPath, back bool) {
					if cp.infeasible || whyC != "" || back {
						return
					}
					if v, known := cp.eval(site); known && v {
						return // the path on which the helper returned true
					}
					last := cp.blocks[len(cp.blocks)-1]
					hret, isRet := last.Instrs[len(last.Instrs)-1].(*ssa.Return)
					if !isRet {
						return
					}
					nCont++
					after := false
					for bi, blk := range cp.blocks {
						for _, in := range blk.Instrs {
							if bi == 0 && !after {
								if in == ssa.Instruction(site) {
									after = true
								}
								continue
							}
							if k, c := isStreamCall(in); k != "" {
								d, isC := constBool(p.resolve(c.Common().Args[len(c.Common().Args)-1]))
								if k != "invoke:bitStream.endGroup" || !isC || d {
									whyC = "after the forced stop decided by " + p.fnName(fn) + " the path also calls " + k
								}
							}
						}
					}
					if v, isC := constBool(cp.onPath(p.res(hret, 0))); !isC || v {
						whyC = "after " + p.fnName(fn) + " returned false more() does not return false (" + p.expr(cp.onPath(p.res(hret, 0))) + ")"
					}
				})
				if !okC || whyC != "" || nCont == 0 {
					if whyC == "" {
						whyC = "the value computed by " + p.fnName(fn) + " is not what more() returns"
					}
					return false, whyC
				}
			}
		}
		// the other edge flips the ordinary coin
		if len(other.Instrs) == 0 {
			return false, "empty uninfluenced edge"
		}
		// (flipBiasedCoin, or its body written out: one genFloat01 word compared with 1-p — the comparison itself is
		// checked by C03-R9)
		isCoin := func(in ssa.Instruction) bool {
			c, ok := in.(*ssa.Call)
			return ok && (p.calleeKey(c.Common()) == "flipBiasedCoin" || p.calleeKey(c.Common()) == "genFloat01")
		}
		noCoin := ""
		okEnum2 := p.pathsFrom(other, 400, func(cp *cfgPath, back bool) {
			if cp.infeasible || back || noCoin != "" {
				return
			}
			last := cp.blocks[len(cp.blocks)-1]
			if _, isRet := last.Instrs[len(last.Instrs)-1].(*ssa.Return); !isRet {
				return
			}
			// a later read of the flag taken as true contradicts this edge
			for i := 0; i+1 < len(cp.blocks); i++ {
				blk := cp.blocks[i]
				iff2, isIf := blk.Instrs[len(blk.Instrs)-1].(*ssa.If)
				if !isIf || blk.Succs[0] == blk.Succs[1] {
					continue
				}
				c, pol := ssa.Value(iff2.Cond), blk.Succs[0] == cp.blocks[i+1]
				for k := 0; k < 3; k++ {
					if u, isNot := c.(*ssa.UnOp); isNot && u.Op == token.NOT {
						c, pol = u.X, !pol
						continue
					}
					break
				}
				if l2, isLoad := c.(*ssa.UnOp); isLoad && l2.Op == token.MUL && l2 != ld && p.expr(l2) == p.expr(ld) && pol {
					return
				}
			}
			for _, blk := range cp.blocks {
				for _, in := range blk.Instrs {
					if isCoin(in) {
						return
					}
				}
			}
			noCoin = cp.String()
		})
		if !okEnum2 || noCoin != "" {
			return false, "the uninfluenced edge does not flip the ordinary coin"
		}
	}
	return true, "its forced edge records one zero-width word in its own kept group and yields false; the other edge flips the ordinary coin, which reads a zero word as false for pContinue < 1"
}

func valueOf(in ssa.Instruction) ssa.Value {
	if v, ok := in.(ssa.Value); ok {
		return v
	}
	return nil
}

// discardSites lists the endGroup calls whose discard operand is not a constant.
func (r *Run) discardSites() []*callSite {
	p := r.P
	var out []*callSite
	for _, fn := range p.FuncList {
		for _, cs := range p.callsTo(fn, "invoke:bitStream.endGroup") {
			// a computed flag, or the constant true (an exit of its own for the rejected attempt)
			if bv, isC := constBool(p.resolve(cs.Arg(1))); !isC || bv {
				out = append(out, cs)
			}
		}
	}
	return out
}

func ruleC04R45(r *Run) {
	p := r.P
	sites := r.discardSites()
	r.Floor("endGroup sites that can discard", len(sites), 4)
	for _, cs := range sites {
		name := p.fnName(cs.Fn)
		if name == "(*repeat).more" {
			r.OK(name+"#endGroup", cs.Instr.Pos(), "discard flag is repeat.rejected (state handled by C04-R4.4)")
			continue
		}
		l := innermostLoop(cs.Instr)
		if l == nil {
			r.Fail(name+"#endGroup", cs.Instr.Pos(), "a discarding endGroup outside a retry loop")
			continue
		}
		// loop-carried values: header phis
		okState := true
		var carried []string
		counters := map[ssa.Value]bool{}
		for _, in := range l.Header.Instrs {
			ph, ok := in.(*ssa.Phi)
			if !ok {
				break
			}
			// a phi whose back-edge operands are itself is loop-invariant (not state)
			inv := true
			counter := true
			for i, e := range ph.Edges {
				if !l.Header.Dominates(l.Header.Preds[i]) {
					continue
				}
				er := p.resolve(e)
				if er == ssa.Value(ph) {
					continue
				}
				inv = false
				// a try counter counts up or down by one
				bo, ok := er.(*ssa.BinOp)
				if !(ok && (bo.Op == token.ADD || bo.Op == token.SUB) && p.resolve(bo.X) == ssa.Value(ph) && isConstOne(p.resolve(bo.Y))) {
					counter = false
				}
			}
			if inv {
				continue
			}
			// a variable that an attempt only overwrites: nothing inside the loop reads the value carried in (it is read
			// after the loop, or decides in the loop condition whether another attempt is made)
			deadInBody := ph.Referrers() != nil
			if deadInBody {
				for _, ref := range *ph.Referrers() {
					if !l.Body[ref.Block()] {
						continue
					}
					if ref.Block() != l.Header {
						deadInBody = false
						continue
					}
					switch x := ref.(type) {
					case *ssa.If, *ssa.DebugRef:
					case *ssa.UnOp:
						if x.Op != token.NOT || x.Referrers() == nil {
							deadInBody = false
							continue
						}
						for _, r2 := range *x.Referrers() {
							if _, isIf := r2.(*ssa.If); !isIf || r2.Block() != l.Header {
								deadInBody = false
							}
						}
					default:
						deadInBody = false
					}
				}
			}
			if deadInBody {
				continue
			}
			carried = append(carried, ph.Comment)
			if !counter {
				okState = false
				continue
			}
			counters[ph] = true
			// the counter may be used only in comparisons, its own increment and message formatting
			if ph.Referrers() != nil {
				for _, ref := range *ph.Referrers() {
					switch x := ref.(type) {
					case *ssa.BinOp:
						if _, cmp := negOp[x.Op.String()]; !cmp && x.Op != token.ADD && !(x.Op == token.SUB && x.X == ssa.Value(ph)) {
							okState = false
						}
					case *ssa.DebugRef, *ssa.MakeInterface, *ssa.Phi:
					default:
						okState = false
					}
				}
			}
		}
		// no stores to fields inside the loop body (direct)
		for b := range l.Body {
			for _, in := range b.Instrs {
				if st, ok := in.(*ssa.Store); ok {
					if _, isFA := st.Addr.(*ssa.FieldAddr); isFA {
						okState = false
						carried = append(carried, "store "+p.expr(st.Addr))
					}
				}
			}
		}
		// when the try counter runs out, the attempt must be abandoned as invalid data: returning anything after
		// a number of discarded attempts makes the outcome depend on how many attempts were discarded
		for b := range l.Body {
			iff, ok := b.Instrs[len(b.Instrs)-1].(*ssa.If)
			if !ok {
				continue
			}
			for si, succ := range b.Succs {
				if l.Body[succ] {
					continue
				}
				bo, isB := p.resolve(iff.Cond).(*ssa.BinOp)
				if !isB {
					continue
				}
				if !counters[p.stripConv(bo.X)] && !counters[p.stripConv(bo.Y)] {
					continue // not the counter exit
				}
				_ = si
				okExit := true
				seen := map[*ssa.BasicBlock]bool{}
				var walk func(x *ssa.BasicBlock)
				walk = func(x *ssa.BasicBlock) {
					if seen[x] {
						return
					}
					seen[x] = true
					switch t := x.Instrs[len(x.Instrs)-1].(type) {
					case *ssa.Return:
						okExit = false
					case *ssa.Panic:
						if p.typeStr(panicType(t)) != "invalidData" {
							okExit = false
						}
					}
					for _, y := range x.Succs {
						walk(y)
					}
				}
				walk(succ)
				r.Check(name+"#retry-exhausted", iff.Pos(), okExit, "when the try counter runs out the draw is abandoned as invalid data", "when the try counter of "+name+" runs out the function still returns a value: the result depends on the number of discarded attempts, which a pruned replay does not reproduce")
			}
		}
		r.Check(name+"#retry-state", cs.Instr.Pos(), okState, "the retry loop carries no state across attempts except a try counter ("+strings.Join(carried, ",")+")",
			"the retry loop of "+name+" carries state across discarded attempts ("+strings.Join(carried, ", ")+"): a replay without the discarded bits computes something else")
	}
}

func isConstOne(v ssa.Value) bool {
	c, ok := constInt(v)
	return ok && c == 1
}

func ruleC04R46(r *Run) {
	p := r.P
	for _, cs := range r.discardSites() {
		name := p.fnName(cs.Fn)
		if name == "(*repeat).more" {
			continue
		}
		l := innermostLoop(cs.Instr)
		start := cs.Fn.Blocks[0]
		if l != nil {
			start = l.Header
		}
		d := cs.Arg(1)
		nPaths, bad := 0, ""
		complete := p.pathsFrom(start, 4000, func(cp *cfgPath, back bool) {
			if back || cp.infeasible || !cp.contains(cs.Instr) {
				return
			}
			last := cp.blocks[len(cp.blocks)-1]
			if _, isRet := last.Instrs[len(last.Instrs)-1].(*ssa.Return); !isRet {
				return
			}
			nPaths++
			v, known := cp.eval(d)
			if !known || v {
				if bad == "" {
					bad = fmt.Sprintf("on path %s the function returns a value although the discard flag %s is %s", cp, p.expr(d), map[bool]string{true: "true", false: "not provably false"}[known && v])
				}
			}
		})
		constTrue := false
		if bv, isC := constBool(p.resolve(d)); isC && bv {
			constTrue = true
		}
		if constTrue && complete && nPaths == 0 {
			// the rejected attempt has an exit of its own: no returning path of this iteration passes it
			r.OK(name+"#discard-unused", cs.Instr.Pos(), "no returning path of the attempt passes this unconditional discard")
			continue
		}
		if complete && nPaths == 0 && l != nil {
			// a loop whose exit test follows the attempt (`for !ok { … }`): the returning paths pass the header a second
			// time; enumerate them from the block of the endGroup itself
			complete = p.pathsFrom(cs.Instr.Block(), 4000, func(cp *cfgPath, back bool) {
				if back || cp.infeasible {
					return
				}
				last := cp.blocks[len(cp.blocks)-1]
				if _, isRet := last.Instrs[len(last.Instrs)-1].(*ssa.Return); !isRet {
					return
				}
				nPaths++
				v, known := cp.eval(d)
				if !known || v {
					if bad == "" {
						bad = fmt.Sprintf("on path %s the function returns a value although the discard flag %s is %s", cp, p.expr(d), map[bool]string{true: "true", false: "not provably false"}[known && v])
					}
				}
			})
		}
		if !complete {
			r.Undecided(name+"#discard-unused", cs.Instr.Pos(), "too many paths to enumerate")
			continue
		}
		r.Check(name+"#discard-unused", cs.Instr.Pos(), bad == "" && nPaths > 0, fmt.Sprintf("on all %d returning paths through this endGroup the discard flag is false", nPaths),
			"a value produced inside a discarded group is used: "+bad+" — prune() deletes the bits this value was drawn from")
	}
}

func ruleC04R5(r *Run) {
	p := r.P
	if fn := r.MustFn("(*recordedBits).prune"); fn != nil {
		n := 0
		for _, cs := range p.callsTo(fn, "(*recordedBits).removeGroup") {
			n++
			idx := p.expr(cs.Arg(0))
			r.Check("(*recordedBits).prune#removeGroup", cs.Instr.Pos(), holds(p.facts(cs.Instr), "$rec.groups["+idx+"].discard", "==", "true"),
				"removeGroup(i) only under groups[i].discard", "prune removes group "+idx+" without the guard groups["+idx+"].discard: kept bits are deleted (or discarded ones kept): "+factsStr(p.facts(cs.Instr)))
		}
		r.Floor("removeGroup calls in prune", n, 1)
		// the non-discard edge advances
		for _, cs := range p.callsTo(fn, "(*recordedBits).removeGroup") {
			l := innermostLoop(cs.Instr)
			if l == nil {
				continue
			}
			for _, in := range l.Header.Instrs {
				// the loop index: what removeGroup is called with
				ph, ok := in.(*ssa.Phi)
				if !ok || p.resolve(cs.Arg(0)) != ssa.Value(ph) {
					continue
				}
				// net change of the index per way round the loop (a post statement i++ after an i-- in the removing branch
				// is "stays"): unfolded through merge-block phis, each with the facts of the edge it comes from
				type step struct {
					d     int64
					facts []rel
					pos   token.Pos
					ok    bool
				}
				var unfold func(v ssa.Value, from, to *ssa.BasicBlock, d int) []step
				unfold = func(v ssa.Value, from, to *ssa.BasicBlock, d int) []step {
					v = p.resolve(v)
					facts := p.facts(from.Instrs[len(from.Instrs)-1])
					if iff, ok := from.Instrs[len(from.Instrs)-1].(*ssa.If); ok && from.Succs[0] != from.Succs[1] {
						facts = append(append([]rel{}, facts...), p.relOf(guard{Cond: iff.Cond, Pol: from.Succs[0] == to}))
					}
					if v == ssa.Value(ph) {
						return []step{{0, facts, from.Instrs[0].Pos(), true}}
					}
					if d > 4 {
						return []step{{0, facts, from.Instrs[0].Pos(), false}}
					}
					switch x := v.(type) {
					case *ssa.BinOp:
						if c, isC := constInt(p.resolve(x.Y)); isC && (x.Op == token.ADD || x.Op == token.SUB) {
							if x.Op == token.SUB {
								c = -c
							}
							var out []step
							for _, s := range unfold(x.X, from, to, d+1) {
								s.d += c
								out = append(out, s)
							}
							return out
						}
					case *ssa.Phi:
						if x.Block() != l.Header && l.Body[x.Block()] {
							var out []step
							for k, e := range x.Edges {
								out = append(out, unfold(e, x.Block().Preds[k], x.Block(), d+1)...)
							}
							return out
						}
					}
					return []step{{0, facts, from.Instrs[0].Pos(), false}}
				}
				for i, e := range ph.Edges {
					pred := l.Header.Preds[i]
					if !l.Header.Dominates(pred) {
						continue
					}
					for _, s := range unfold(e, pred, l.Header, 0) {
						switch {
						case s.ok && s.d == 0:
							r.Check("(*recordedBits).prune#stay", s.pos, factContains(s.facts, ".discard") && holdsSuffix(s.facts, ".discard", "true"), "index stays after a removal", "index stays without a removal")
						default:
							r.Check("(*recordedBits).prune#advance", s.pos, s.ok && s.d == 1 && holdsSuffix(s.facts, ".discard", "false"), "index advances past kept groups", "index update of prune changed: "+p.expr(e))
						}
					}
				}
			}
		}
	}
	if fn := r.MustFn("(*recordedBits).removeGroup"); fn != nil {
		okData, okN := false, false
		for _, fa := range p.fieldAccesses("recordedBits") {
			if p.within(fa.Fn, fn) && fa.Field == "data" && fa.Kind == "write" {
				ex := p.expr(fa.Instr.(*ssa.Store).Val)
				okData = ex == "builtin:append($rec.data[:copy($rec.groups[$i]).begin], $rec.data[copy($rec.groups[$i]).end:])"
				if !okData {
					r.Fail("(*recordedBits).removeGroup#data", fa.Instr.Pos(), "removeGroup rewrites data as "+ex+" (expected append(data[:g.begin], data[g.end:]...))")
				}
			}
		}
		// g is groups[i]
		okG := false
		for _, b := range p.body(fn) {
			for _, in := range b.Instrs {
				if st, ok := in.(*ssa.Store); ok && p.expr(st.Addr) == "&copy($rec.groups[$i])" && p.expr(st.Val) == "$rec.groups[$i]" {
					okG = true
				}
				if bo, ok := in.(*ssa.BinOp); ok && p.expr(bo) == "(copy($rec.groups[$i]).end - copy($rec.groups[$i]).begin)" {
					okN = true
				}
			}
		}
		// the groups removed together with group i are exactly its descendants: the scan starts at i+1 and goes on
		// exactly while j < len(groups) && groups[j].end <= g.end (open children, end == -1, included)
		for _, fa := range p.fieldAccesses("recordedBits") {
			if !p.within(fa.Fn, fn) || fa.Field != "groups" || fa.Kind != "write" {
				continue
			}
			ap, ok := p.resolve(fa.Instr.(*ssa.Store).Val).(*ssa.Call)
			if !ok || p.calleeKey(ap.Common()) != "builtin:append" {
				continue
			}
			tail, ok := p.resolve(ap.Common().Args[1]).(*ssa.Slice)
			head, okH := p.resolve(ap.Common().Args[0]).(*ssa.Slice)
			okShape := ok && okH && tail.Low != nil && tail.High == nil && head.Low == nil && head.High != nil && p.expr(head.High) == "$i" && p.expr(head.X) == "$rec.groups" && p.expr(tail.X) == "$rec.groups"
			r.Check("(*recordedBits).removeGroup#groups", fa.Instr.Pos(), okShape, "the group list becomes groups[:i] followed by groups[j:]", "removeGroup rewrites the group list as "+p.expr(fa.Instr.(*ssa.Store).Val)+" (expected append(groups[:i], groups[j:]...)): later prune steps use wrong group boundaries and delete live bits")
			if !okShape {
				continue
			}
			// the start of the kept tail: the scan index itself, or (a search helper with early return) the scan index on
			// the edge that found a group ending outside and len(groups) where the scan ran off the end
			var jp *ssa.Phi
			okAlts := true
			type lenAlt struct{ facts []rel }
			var lenAlts []lenAlt
			// (helper returns are unfolded, phis are not: the phi is the scan index we are looking for)
			var unfold func(v ssa.Value, facts []rel, d int) []alt
			unfold = func(v ssa.Value, facts []rel, d int) []alt {
				v = p.resolve(v)
				if c, ok := v.(*ssa.Call); ok && d < 4 {
					if sc := c.Common().StaticCallee(); sc != nil && p.transparent(sc) && sc.Signature.Results().Len() == 1 {
						if o := sc.Origin(); o != nil {
							sc = o
						}
						var out []alt
						for _, ret := range returnsOf(sc) {
							out = append(out, unfold(p.res(ret, 0), append(append([]rel{}, facts...), p.facts(ret)...), d+1)...)
						}
						if len(out) > 0 {
							return out
						}
					}
				}
				return []alt{{Val: v, Facts: facts}}
			}
			for _, a := range unfold(tail.Low, nil, 0) {
				av := p.resolve(a.Val)
				if ph, isPhi := av.(*ssa.Phi); isPhi {
					if jp != nil && jp != ph {
						okAlts = false
					}
					jp = ph
					continue
				}
				if p.expr(av) == "builtin:len($rec.groups)" {
					lenAlts = append(lenAlts, lenAlt{a.Facts})
					continue
				}
				okAlts = false
			}
			if jp != nil {
				for _, la := range lenAlts {
					if !rel0(la.facts, p.expr(jp), ">=", "builtin:len($rec.groups)") {
						okAlts = false
					}
				}
			}
			if jp == nil || !okAlts {
				r.Fail("(*recordedBits).removeGroup#span", fa.Instr.Pos(), "the groups kept after the removed one start at "+p.expr(tail.Low)+", which is not a scan index")
				continue
			}
			J, G2 := p.expr(jp), "copy($rec.groups[$i])"
			okInit, okStep := false, false
			var contFacts []rel
			for k, e := range jp.Edges {
				pred := jp.Block().Preds[k]
				if jp.Block().Dominates(pred) {
					if isIncrementOf(p, e, jp) {
						okStep = true
						contFacts = p.facts(pred.Instrs[len(pred.Instrs)-1])
						if iff, ok := pred.Instrs[len(pred.Instrs)-1].(*ssa.If); ok && pred.Succs[0] != pred.Succs[1] {
							contFacts = append(contFacts, p.relOf(guard{Cond: iff.Cond, Pol: pred.Succs[0] == jp.Block()}))
						}
					}
				} else if p.expr(e) == "($i + 1)" {
					okInit = true
				}
			}
			nJ, okLen, okEnd := 0, false, false
			for _, f := range contFacts {
				if !strings.Contains(f.X, J) && !strings.Contains(f.Y, J) {
					continue
				}
				nJ++
				if f.is(J, "<", "builtin:len($rec.groups)") {
					okLen = true
				}
				if f.is("$rec.groups["+J+"].end", "<=", G2+".end") || f.is("$rec.groups["+J+"].end", "<=", "$rec.groups[$i].end") {
					okEnd = true // (read through the copy or, before the groups are modified, directly)
				}
			}
			r.Check("(*recordedBits).removeGroup#span", fa.Instr.Pos(), okInit && okStep && okLen && okEnd && nJ == 2, "the descendants of the removed group are the groups after it that end inside it (open ones included)",
				"the scan for the descendants of the removed group is not `j := i+1; for j < len(groups) && groups[j].end <= g.end` ("+factsStr(contFacts)+"): groups inside the removed span survive with stale offsets and are pruned a second time from shifted data")
		}
		r.Check("(*recordedBits).removeGroup#slice", fn.Pos(), okData && okG, "deletes exactly data[g.begin:g.end] of g = groups[i]", "removeGroup does not delete exactly data[g.begin:g.end] of groups[i]")
		// rebasing stores subtract n
		n := 0
		for _, b := range p.body(fn) {
			for _, in := range b.Instrs {
				st, ok := in.(*ssa.Store)
				if !ok {
					continue
				}
				a := p.expr(st.Addr)
				if strings.HasSuffix(a, "].begin") || strings.HasSuffix(a, "].end") {
					n++
					field := a[strings.LastIndex(a, ".")+1:]
					want := "(" + strings.TrimPrefix(a, "&") + " - (copy($rec.groups[$i]).end - copy($rec.groups[$i]).begin))"
					guardOK := holds(p.facts(st), strings.TrimPrefix(a, "&"), ">=", "copy($rec.groups[$i]).end")
					r.Check("(*recordedBits).removeGroup#rebase."+field, st.Pos(), p.expr(st.Val) == want && guardOK && okN, "offsets at or after the removed span are rebased by its length", "rebasing of "+field+" changed: "+p.expr(st.Val)+" under "+factsStr(p.facts(st)))
				}
			}
		}
		r.Floor("rebasing stores in removeGroup", n, 2)
	}
}

func holdsSuffix(facts []rel, suffix, val string) bool {
	for _, f := range facts {
		if strings.HasSuffix(f.X, suffix) && f.Op == "==" && f.Y == val {
			return true
		}
	}
	return false
}

func ruleC04R47(r *Run) {
	p := r.P
	// attempt functions: everything bound to find's gen parameter
	find := r.MustFn("find")
	if find == nil {
		return
	}
	var gens []*ssa.Function
	for _, f := range p.funcValuesOf(paramNamed(find, "gen"), 0, map[ssa.Value]bool{}) {
		if strings.HasSuffix(f.Name(), "$bound") {
			for _, cs := range p.calls(f) {
				if sc := cs.Common.StaticCallee(); sc != nil && p.inRapid(sc) {
					if o := sc.Origin(); o != nil {
						sc = o
					}
					gens = append(gens, sc)
				}
			}
			continue
		}
		gens = append(gens, f)
	}
	r.Floor("attempt functions passed to find", len(gens), 4)
	for _, g := range gens {
		name := p.fnName(g)
		// the T parameter the attempt is drawn from
		var outer *ssa.Parameter
		for _, pa := range g.Params {
			if isPtrToNamed(pa.Type(), "T") {
				outer = pa
			}
		}
		if outer == nil {
			continue
		}
		n := 0
		for _, cs := range p.calls(g) {
			sc := cs.Common.StaticCallee()
			if sc == nil || !strings.HasPrefix(p.fnName(sc), "(*T).") {
				continue
			}
			if p.resolve(cs.Recv()) != ssa.Value(outer) {
				continue
			}
			n++
			key := p.fnName(sc)
			switch key {
			case "(*T).Logf", "(*T).Log", "(*T).shouldLog":
				r.OK(name+"#outer."+key, cs.Instr.Pos(), "logging only")
			default:
				// allowed only if the callee never returns after modifying the T: its (*T).fail calls are fatal
				ok, why := true, ""
				mods := 0
				if o := sc.Origin(); o != nil {
					sc = o
				}
				for f := range p.closureOf([]*ssa.Function{sc}) {
					for _, fa := range p.fieldAccesses("T") {
						if p.within(fa.Fn, f) && fa.Kind == "write" {
							mods++
						}
					}
				}
				nonFatal := false
				for _, fc := range p.callsTo(sc, "(*T).fail") {
					now, isC := constBool(p.resolve(fc.Arg(0)))
					if !isC || !now {
						nonFatal = true
					}
				}
				if nonFatal && !p.findConsultsBeforeDiscard() {
					ok, why = false, key+" transfers the failure non-fatally (fail(false, …)) and returns, and find does not consult the failure flag before it discards a rejected attempt"
				}
				if nonFatal && ok {
					r.OK(name+"#outer."+key, cs.Instr.Pos(), "the transfer is non-fatal, and find consults the failure flag before it discards a rejected attempt (C04-R4.10): the attempt's bits are kept")
					continue
				}
				if mods > 0 && len(p.callsTo(sc, "(*T).fail")) == 0 {
					ok, why = false, key+" modifies the T and returns"
				}
				r.Check(name+"#outer."+key, cs.Instr.Pos(), ok, "the only change to the T the attempt is drawn from aborts the test case (fatal transfer): a discarded attempt leaves no trace",
					"an attempt of find can be rejected (its bits discarded) after "+why+": the verdict then depends on bits that prune() deletes, so the reported (pruned) test case does not reproduce the failure")
			}
		}
		_ = n
		// direct stores to fields of the outer T
		for _, fa := range p.fieldAccesses("T") {
			if p.within(fa.Fn, g) && fa.Kind == "write" && p.resolve(fa.FA.X) == ssa.Value(outer) {
				r.Fail(name+"#outer-store."+fa.Field, fa.Instr.Pos(), "an attempt of find stores to "+fa.Field+" of the T it is drawn from")
			}
		}
	}
}

func ruleC04R48(r *Run) {
	p := r.P
	cl := p.Fn("runAction$1")
	ex := r.MustFn("(*stateMachine).executeAction")
	if cl == nil || ex == nil {
		if cl == nil {
			r.Undecided("anchor:runAction$1", token.NoPos, "anchor unresolved: the deferred closure of runAction")
		}
		return
	}
	ra := r.MustFn("runAction")
	if ra == nil {
		return
	}
	var posBefore []ssa.Value
	// skipped must imply "stream position unchanged"
	okPos := false
	for _, b := range p.body(cl) {
		for _, in := range b.Instrs {
			if st, ok := in.(*ssa.Store); ok && p.resultCellIndex(st.Addr, cl.Parent()) == 1 { // the 'skipped' result of runAction
				// path-sensitively: every way for the stored value to be true passes the position comparison
				okPos = true
				var must func(v ssa.Value, d int) bool
				must = func(v ssa.Value, d int) bool {
					v = p.resolve(v)
					if d > 6 {
						return false
					}
					switch x := v.(type) {
					case *ssa.Const:
						bv, isB := constBool(x)
						return isB && !bv
					case *ssa.BinOp:
						k, bef, ok := runActionCmp(p, x, cl, ra)
						if ok && k == "drawn" {
							posBefore = append(posBefore, bef)
							return true
						}
						return false
					case *ssa.Phi:
						for i, e := range x.Edges {
							if must(e, d+1) {
								continue
							}
							// an edge that does not itself establish it must come from a block guarded by it
							pred := x.Block().Preds[i]
							guarded := false
							gs := guardsOf(pred)
							if iff, ok := pred.Instrs[len(pred.Instrs)-1].(*ssa.If); ok && pred.Succs[0] != pred.Succs[1] {
								gs = append(gs, guard{Cond: iff.Cond, Pol: pred.Succs[0] == x.Block(), If: iff})
							}
							for _, g := range gs {
								if bo, ok := p.resolve(g.Cond).(*ssa.BinOp); ok && g.Pol {
									if k, bef, ok := runActionCmp(p, bo, cl, ra); ok && k == "drawn" {
										posBefore = append(posBefore, bef)
										guarded = true
									}
								}
							}
							if !guarded {
								return false
							}
						}
						return true
					}
					return false
				}
				if !must(st.Val, 0) {
					okPos = false
				}
				r.Check("runAction#skipped-means-no-bits", st.Pos(), okPos, "an action counts as skipped (retried in place) only if the stream position has not moved since it started",
					"runAction derives 'skipped' without comparing the bitstream position ("+p.expr(st.Val)+"): an action that consumed bits in rejected (discarded) attempts — e.g. a Filter that ran out of tries — is retried inside the kept step, and the pruned recording replays against other bits")
			}
		}
	}
	// the capture is the stream position before the action
	{
		okCap := len(posBefore) > 0
		for _, a := range p.calls(ra) {
			if !strings.HasPrefix(a.Key, "dyn:") {
				continue
			}
			for _, bv := range posBefore {
				if bi, isIn := bv.(ssa.Instruction); !isIn || !dominates(bi, a.Instr) {
					okCap = false
				}
			}
		}
		r.Check("runAction#position-captured", ra.Pos(), okCap, "the stream position is captured when the action starts", "runAction does not capture the stream position before the action")
	}
	if fn := r.MustFn("(*recordedBits).drawn"); fn != nil {
		ok := true
		for _, ret := range returnsOf(fn) {
			// the result may be a variable assigned per mode (a phi): every alternative with the facts of its edge
			for _, lf := range p.alternatives(p.res(ret, 0), 0) {
				ex := p.expr(lf.Val)
				facts := append(append([]rel{}, lf.Facts...), p.facts(ret)...)
				switch {
				case ex == "builtin:len($rec.data)":
					ok = ok && holds(facts, "$rec.persist", "==", "true")
				case ex == "$rec.dataLen":
					ok = ok && holds(facts, "$rec.persist", "==", "false")
				default:
					ok = false
				}
			}
		}
		r.Check("(*recordedBits).drawn", fn.Pos(), ok, "drawn() is the number of words drawn (len(data) when recording, dataLen otherwise)", "drawn() no longer reports the number of words drawn for both recording modes")
	}
}

// isIncrementOf: v is ph + 1.
func isIncrementOf(p *Program, v ssa.Value, ph *ssa.Phi) bool {
	bo, ok := p.resolve(v).(*ssa.BinOp)
	if !ok || bo.Op != token.ADD || p.resolve(bo.X) != ssa.Value(ph) {
		return false
	}
	c, ok := constInt(p.resolve(bo.Y))
	return ok && c == 1
}

// rel0: some fact is the given relation (in either orientation).
func rel0(facts []rel, x, op, y string) bool {
	for _, f := range facts {
		if f.is(x, op, y) {
			return true
		}
	}
	return false
}

// rulePruneBundle: everything that makes prune() replay-neutral. The buffer that Check presents, saves and replays is
// a pruned recording that was never executed in that form; it falsifies the property only if dropping the discarded
// groups changes neither the drawn values nor the verdict. Shared by C01-R3, C05-R7 and C11-R7.
func rulePruneBundle(r *Run) {
	ruleC04R44(r)
	ruleC04R45(r)
	ruleC04R46(r)
	ruleC04R47(r)
	ruleC04R48(r)
	ruleC04R49(r)
	ruleNoFailureDiscarded(r)
	ruleRepeatOwnState(r)
	ruleC04R5(r)
	ruleC03R2(r)
}

// ruleC04R49: while a test case runs, the recording only grows. rec.data and rec.groups are shortened or replaced only
// by prune (and helpers only prune calls) or by the function that allocates the recording; every other store appends to
// the field's own value. drawn() is len(rec.data) for recording streams but a counter for the others: a recording
// shortened during the run (e.g. a discarded group dropped eagerly in endGroup) moves drawn() backwards in recording runs
// only, runAction takes 'skipped' there and nowhere else, and what is recorded is not what replays.
func ruleC04R49(r *Run) {
	p := r.P
	pr := r.MustFn("(*recordedBits).prune")
	if pr == nil {
		return
	}
	allowed := map[*ssa.Function]bool{pr: true}
	cg := p.CallGraph()
	for changed := true; changed; {
		changed = false
		for fn, node := range cg.Nodes {
			if fn == nil || allowed[fn] || !p.inRapid(fn) {
				continue
			}
			if len(node.In) == 0 {
				// a promoted-method wrapper nobody calls (bufBitStream / randomBitStream embed *recordedBits)
				if fn.Synthetic != "" {
					allowed[fn] = true
					changed = true
				}
				continue
			}
			all := true
			for _, e := range node.In {
				if !allowed[e.Caller.Func] {
					all = false
				}
			}
			if all {
				allowed[fn] = true
				changed = true
			}
		}
	}
	n := 0
	for _, fa := range p.fieldAccesses("recordedBits") {
		if fa.Kind != "write" || (fa.Field != "data" && fa.Field != "groups") {
			continue
		}
		st, isSt := fa.Instr.(*ssa.Store)
		if !isSt {
			continue
		}
		n++
		name := p.hostName(fa.Fn)
		construct := name + "#recordedBits." + fa.Field + ".grows"
		if allowed[fa.Fn] || allowed[p.host(fa.Fn)] {
			r.OK(construct, st.Pos(), "prune (or a helper only prune calls) rewrites the recording after the run")
			continue
		}
		if al, ok := p.resolve(addrRoot(fa.FA)).(*ssa.Alloc); ok && al.Parent() == fa.Fn {
			r.OK(construct, st.Pos(), "initialised by the function that allocates the recording")
			continue
		}
		ok := false
		if c, isC := p.resolve(st.Val).(*ssa.Call); isC && p.calleeKey(c.Common()) == "builtin:append" {
			if ld, isL := p.resolve(c.Common().Args[0]).(*ssa.UnOp); isL && ld.Op == token.MUL {
				if fa2, isF := ld.X.(*ssa.FieldAddr); isF && fa2.Field == fa.FA.Field && p.same(fa2.X, fa.FA.X) {
					ok = true
				}
			}
		}
		r.Check(construct, st.Pos(), ok, "rec."+fa.Field+" = append(rec."+fa.Field+", …): the recording only grows while the test case runs",
			"rec."+fa.Field+" is replaced by "+p.expr(st.Val)+" in "+name+", outside prune: a recording shortened during the run moves drawn() = len(rec.data) backwards in recording runs only (runAction then decides 'skipped' differently when recording and when replaying), and the recorded words are not the ones a replay reads")
	}
	r.Floor("stores to recordedBits.data/groups", n, 3)
}

// ruleStateMachineNoState (C04-R4.13): the stateMachine value of a Repeat call is configuration — invariant, key
// generator, action table —, initialised once by the function that allocates it, before the step loop. A field that is
// stored later (a retry counter kept across steps, a memo of the last action) carries information out of steps that are
// afterwards rejected: their groups are discarded and pruned, the stored value is not, so what happens later (which
// action runs, when "can't find a valid action" is raised) is no longer a function of the kept bits.
func ruleStateMachineNoState(r *Run) {
	p := r.P
	n := 0
	for _, fa := range p.fieldAccesses("stateMachine") {
		if fa.Kind == "read" {
			continue
		}
		n++
		name := p.hostName(fa.Fn)
		ok := false
		if fa.Kind == "write" && fa.FA != nil {
			if al, isA := p.resolve(addrRoot(fa.FA)).(*ssa.Alloc); isA && al.Parent() == fa.Fn && innermostLoop(fa.Instr) == nil {
				ok = true
			}
		}
		r.Check(name+"#stateMachine."+fa.Field+"."+fa.Kind, fa.Instr.Pos(), ok, "initialised once by the function that allocates the state machine, before the step loop",
			"stateMachine."+fa.Field+" is stored ("+fa.Kind+") in "+name+" after construction: state kept across the steps of Repeat survives the rejection of a step, whose bits are discarded and pruned — the pruned recording then replays to other actions or another verdict (e.g. a retry counter that is not reset per step makes 'can't find a valid action' depend on skips inside rejected steps)")
	}
	r.Floor("initialising stores to stateMachine fields", n, 3)
}
