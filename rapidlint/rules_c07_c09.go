package main

import (
	"fmt"
	"go/constant"
	"go/token"
	"go/types"
	"strings"

	"golang.org/x/tools/go/ssa"
)

func init() {
	register("C07", specC07)
	register("C09", specC09)
}

// ---------------------------------------------------------------------------
// shared view of findBug

type findBugView struct {
	fn        *ssa.Function
	checkOnce *callSite // the per-iteration checkOnce call
	loop      *loopInfo // loop containing it
	seedVal   ssa.Value // the value the PRNG of that test case is initialised with
	seedSite  *callSite // init / constructor call that seeds it
	validPhi  *ssa.Phi  // counters (from the loop predicate)
	invPhi    *ssa.Phi  //
	errVal    ssa.Value // checkOnce result
	failRets  []*ssa.Return
	otherRets []*ssa.Return
}

func (r *Run) viewFindBug() *findBugView {
	p := r.P
	fn := r.MustFn("findBug")
	if fn == nil {
		return nil
	}
	v := &findBugView{fn: fn}
	cos := p.callsTo(fn, "checkOnce")
	if len(cos) != 1 {
		r.Undecided("findBug#checkOnce", fn.Pos(), fmt.Sprintf("expected exactly one checkOnce call in findBug, found %d", len(cos)))
		return nil
	}
	v.checkOnce = cos[0]
	v.errVal = cos[0].Value()
	for _, l := range loopsOf(fn) {
		if l.Body[cos[0].Instr.Block()] {
			if v.loop == nil || len(l.Body) < len(v.loop.Body) {
				v.loop = l
			}
		}
	}
	if v.loop == nil {
		r.Undecided("findBug#loop", fn.Pos(), "checkOnce call of findBug is not inside a loop")
		return nil
	}
	for _, ret := range returnsOf(fn) {
		if p.nres(ret) != 5 {
			r.Undecided("findBug#results", ret.Pos(), "findBug no longer returns 5 results")
			return nil
		}
		if isNilConst(p.resolve(p.res(ret, 4))) {
			v.otherRets = append(v.otherRets, ret)
		} else {
			v.failRets = append(v.failRets, ret)
		}
	}
	return v
}

// seedOfCase finds the value the random stream of the T passed to checkOnce is (re)initialised with
// inside the loop iteration: either the stream is constructed in the iteration, or an init call
// on it dominates checkOnce inside the loop.
func (r *Run) seedOfCase(v *findBugView) bool {
	p := r.P
	tArg := p.resolve(v.checkOnce.Common.Args[0])
	nt, ok := tArg.(*ssa.Call)
	if !ok || p.calleeKey(nt.Common()) != "newT" {
		r.Undecided("findBug#checkOnce.T", v.checkOnce.Instr.Pos(), "T operand of checkOnce is not the result of newT: "+p.expr(tArg))
		return false
	}
	stream := p.resolve(nt.Common().Args[1])
	sc, ok := stream.(*ssa.Call)
	if !ok || p.calleeKey(sc.Common()) != "newRandomBitStream" {
		r.Undecided("findBug#stream", nt.Pos(), "stream of the per-case T is not a newRandomBitStream result: "+p.expr(stream))
		return false
	}
	if v.loop.Body[sc.Block()] && dominates(sc, v.checkOnce.Instr) {
		v.seedVal = sc.Common().Args[0]
		v.seedSite = &callSite{Fn: v.fn, Instr: sc, Common: sc.Common(), Key: "newRandomBitStream"}
		return true
	}
	for _, cs := range p.callsTo(v.fn, "(*randomBitStream).init") {
		if p.resolve(cs.Recv()) == stream && v.loop.Body[cs.Instr.Block()] && dominates(cs.Instr, v.checkOnce.Instr) {
			v.seedVal = cs.Arg(0)
			v.seedSite = cs
			return true
		}
	}
	return false
}

// ---------------------------------------------------------------------------
// C07

func specC07() *propertySpec {
	return &propertySpec{
		ID: "C07",
		Explanation: "Decides the seed identity chain for all seeds and all positions of the failing test case: " +
			"-rapid.seed flag → baseSeed → doCheck → findBug; the value that initialises the PRNG of a test case is the value " +
			"returned with its failure, re-run by doCheck, returned to checkTB and printed after '-rapid.seed='; the first test " +
			"case of a run uses the base seed unchanged; and the run contains no nondeterminism source other than the listed " +
			"time-dependent constructs. Not decided: equality of minimised results when a deadline interrupts minimisation.",
		Assumptions: []string{"user property is a deterministic function of its draws"},
		Rules: []ruleSpec{
			{"C07-R1", "init-is-reported: the value initialising the per-case PRNG is result #3 of findBug's failure return; other returns carry 0", ruleC07R1},
			{"C07-R2", "first-case-is-base: per-case seed = accumulated seed + (valid+invalid), which is the seed parameter unchanged in iteration 0", ruleC07R2},
			{"C07-R3", "chain: flags.seed → baseSeed → checkTB → doCheck → findBug → reproduce run → returned → printed with -rapid.seed=%d", ruleC07R3},
			{"C07-R4", "whole-run-determinism: no nondeterminism source in the closure of doCheck except the listed time-dependent constructs; the stream position (which counts draws of earlier test cases) is used only relatively (shared with C11-R3)", func(r *Run) { ruleC07R4(r); ruleStreamPositionRelative(r) }},
			{"C07-R5", "no-run-history-in-globals: package-level variables (the parsed flags included) are not written after initialisation, so a test case cannot depend on the test cases run before it (shared with C15-R4)", ruleC15R4},
			{"C07-R6", "seed-determines-the-stream: the per-case PRNG is re-initialised from the seed alone (init writes every state word before the first output), so the first test case under -rapid.seed=S draws what the failing case drew (shared with C04-R2)", ruleC04R2},
			{"C07-R7", "same-generator-in-the-rerun: the run started with the printed seed draws from generators in their constructed state, the failing test case drew from them after all earlier test cases of its run: the values agree only if no draw stores through or hands out generator-owned storage (shared with C15-R3)", ruleC15R3},
			{"C07-R8", "generators-are-built-deterministically: the tables a generator draws from (rune lists, weights, kind tables) are built when it is constructed, in every run anew: a constructor that iterates over a map or reads a nondeterminism source builds another table in the run started with the printed seed, and the same bits select other values", ruleConstructionCensus},
			{"C07-R9", "same-decisions-whether-recording-or-not: the search does not record, the reproduction does: drawn() reports the same position in both modes and runAction decides 'skipped' from it (shared with C04-R4.8)", ruleC04R48},
		},
	}
}

func ruleC07R1(r *Run) {
	p := r.P
	v := r.viewFindBug()
	if v == nil {
		return
	}
	if !r.seedOfCase(v) {
		r.Fail("findBug#reseed", v.checkOnce.Instr.Pos(), "no (re)initialisation of the random stream dominates checkOnce inside the loop iteration: test cases are not seeded individually")
		return
	}
	r.OK("findBug#reseed", v.seedSite.Instr.Pos(), "per-case PRNG initialised with "+p.expr(v.seedVal)+" by "+v.seedSite.Key)
	r.Floor("failure returns of findBug", len(v.failRets), 1)
	for _, ret := range v.failRets {
		r.Check("findBug#return-failure.seed", ret.Pos(), p.same(p.res(ret, 3), v.seedVal),
			"failure return reports the initialising value "+p.expr(v.seedVal),
			"failure return reports "+p.expr(p.res(ret, 3))+" but the PRNG of the failing test case was initialised with "+p.expr(v.seedVal))
		r.Check("findBug#return-failure.err", ret.Pos(), p.same(p.res(ret, 4), v.errVal),
			"failure return carries the error of this iteration's checkOnce",
			"failure return carries "+p.expr(p.res(ret, 4))+" instead of this iteration's checkOnce result")
	}
	for _, ret := range v.otherRets {
		c, ok := constInt(p.resolve(p.res(ret, 3)))
		r.Check("findBug#return-nofailure.seed", ret.Pos(), ok && c == 0, "non-failure return carries seed 0", "non-failure return carries seed "+p.expr(p.res(ret, 3)))
	}
}

func ruleC07R2(r *Run) {
	p := r.P
	v := r.viewFindBug()
	if v == nil || !r.seedOfCase(v) {
		if v != nil {
			r.Fail("findBug#reseed", v.checkOnce.Instr.Pos(), "no per-case seed found")
		}
		return
	}
	seedParam := paramNamed(v.fn, "seed")
	if seedParam == nil {
		r.Undecided("anchor:findBug.seed", v.fn.Pos(), "anchor unresolved: parameter seed of findBug")
		return
	}
	x := p.resolve(v.seedVal)
	// x must be: base (+ addend)*, where base is the seed parameter on the first iteration and addend folds to 0 on the first iteration
	base, addends := splitSum(p, x)
	okBase := false
	detail := p.expr(base)
	switch b := base.(type) {
	case *ssa.Parameter:
		okBase = b == seedParam
	case *ssa.Phi:
		okBase = true
		for i, e := range b.Edges {
			pred := b.Block().Preds[i]
			er := p.resolve(e)
			if b.Block().Dominates(pred) { // back edge: accumulated seed or itself or the parameter
				if er != x && er != ssa.Value(b) && er != ssa.Value(seedParam) {
					okBase = false
					detail = "back-edge operand of the seed phi is " + p.expr(e) + " (expected the per-case seed " + p.expr(x) + ")"
				}
			} else if er != ssa.Value(seedParam) {
				okBase = false
				detail = "entry operand of the seed phi is " + p.expr(e) + " (expected parameter seed)"
			}
		}
	}
	r.Check("findBug#seed-base", v.seedSite.Instr.Pos(), okBase,
		"per-case seed "+p.expr(x)+" starts from the seed parameter", "per-case seed does not start from the seed parameter: "+detail)
	for i, a := range addends {
		c, ok := p.evalAtEntry(a, 0)
		r.Check(fmt.Sprintf("findBug#seed-addend[%d]", i), v.seedSite.Instr.Pos(), ok && c == 0,
			"addend "+p.expr(a)+" is 0 in the first iteration: the first test case uses the base seed itself",
			fmt.Sprintf("addend %s is not 0 in the first iteration (folds to %d, foldable=%v): the first test case of a run does not use the seed given with -rapid.seed", p.expr(a), c, ok))
	}
}

// splitSum decomposes v = base + a1 + a2 ... (left-assoc ADD chain); base is the leftmost non-ADD leaf
// that is a parameter or phi.
func splitSum(p *Program, v ssa.Value) (ssa.Value, []ssa.Value) {
	v = p.resolve(v)
	if b, ok := v.(*ssa.BinOp); ok && b.Op == token.ADD {
		lb, la := splitSum(p, b.X)
		switch lb.(type) {
		case *ssa.Parameter, *ssa.Phi:
			return lb, append(la, b.Y)
		}
		rb, ra := splitSum(p, b.Y)
		return rb, append(ra, b.X)
	}
	return v, nil
}

func ruleC07R3(r *Run) {
	p := r.P
	// baseSeed
	if bs := r.MustFn("baseSeed"); bs != nil {
		n := 0
		for _, ret := range returnsOf(bs) {
			// (the value on each path: separate returns, or one return of a variable assigned on the paths)
			for _, a := range p.alternatives(p.res(ret, 0), 0) {
				res := p.resolve(a.Val)
				facts := append(append([]rel{}, p.facts(ret)...), a.Facts...)
				if p.expr(res) == "G:flags.seed" {
					n++
					r.Check("baseSeed#return-flag", ret.Pos(), holds(facts, "G:flags.seed", "!=", "0"),
						"returns flags.seed under flags.seed != 0", "returns flags.seed without the guard flags.seed != 0: "+factsStr(facts))
				} else {
					r.Check("baseSeed#return-random", ret.Pos(), holds(facts, "G:flags.seed", "==", "0"),
						"the non-flag return is taken only when flags.seed == 0", "a return not carrying flags.seed is reachable with a non-zero -rapid.seed: "+factsStr(facts))
				}
			}
		}
		r.Floor("returns of flags.seed in baseSeed", n, 1)
	}
	// checkTB → doCheck
	ct := r.MustFn("checkTB")
	dc := r.MustFn("doCheck")
	if ct == nil || dc == nil {
		return
	}
	dcs := p.callsTo(ct, "doCheck")
	if len(dcs) != 1 {
		r.Undecided("checkTB#doCheck", ct.Pos(), fmt.Sprintf("expected one doCheck call in checkTB, found %d", len(dcs)))
		return
	}
	seedArg := p.resolve(dcs[0].Arg(3))
	isBS := false
	if c, ok := seedArg.(*ssa.Call); ok && p.calleeKey(c.Common()) == "baseSeed" {
		isBS = true
	}
	r.Check("checkTB#doCheck.seed", dcs[0].Instr.Pos(), isBS, "doCheck receives baseSeed() unmodified", "doCheck receives "+p.expr(seedArg)+" instead of baseSeed()")
	r.Check("checkTB#baseSeed-once", ct.Pos(), len(p.callsTo(ct, "baseSeed")) == 1, "baseSeed() called once per Check", "baseSeed() not called exactly once in checkTB")

	// doCheck → findBug
	fbs := p.callsTo(dc, "findBug")
	if len(fbs) != 1 {
		r.Undecided("doCheck#findBug", dc.Pos(), fmt.Sprintf("expected one findBug call in doCheck, found %d", len(fbs)))
		return
	}
	fb := fbs[0]
	r.Check("doCheck#findBug.seed", fb.Instr.Pos(), p.resolve(fb.Arg(3)) == ssa.Value(paramNamed(dc, "seed")),
		"findBug receives doCheck's seed parameter unmodified", "findBug receives "+p.expr(fb.Arg(3))+" instead of the seed parameter")
	// reproduce run
	n := 0
	for _, cs := range p.callsTo(dc, "newRandomBitStream") {
		if !dominates(fb.Instr, cs.Instr) {
			continue
		}
		n++
		r.Check("doCheck#reproduce.seed", cs.Instr.Pos(), p.isResultOf(cs.Arg(0), fb.Value(), 3),
			"the reproduce run is seeded with findBug's reported seed", "the reproduce run is seeded with "+p.expr(cs.Arg(0))+" instead of the seed findBug reported")
		b, ok := constBool(p.resolve(cs.Arg(1)))
		r.Check("doCheck#reproduce.persist", cs.Instr.Pos(), ok && b, "the reproduce run records its bits", "the reproduce run does not record (persist != true)")
	}
	r.Floor("reproduce streams in doCheck", n, 1)
	// returns after findBug on failure carry the seed
	for _, ret := range returnsOf(dc) {
		if !dominates(fb.Instr, ret) {
			continue
		}
		if holds(p.facts(ret), p.expr(extractOr(fb.Value(), 4)), "==", "nil") {
			c, ok := constInt(p.resolve(p.res(ret, 3)))
			r.Check("doCheck#return-pass.seed", ret.Pos(), ok && c == 0, "passing return carries seed 0", "passing return carries seed "+p.expr(p.res(ret, 3)))
			continue
		}
		r.Check("doCheck#return-failure.seed", ret.Pos(), p.isResultOf(p.res(ret, 3), fb.Value(), 3),
			"failure return carries findBug's reported seed", "failure return carries "+p.expr(p.res(ret, 3))+" instead of findBug's reported seed")
	}
	// printed: every string built in checkTB that mentions -rapid.seed= continues with doCheck's seed result in
	// decimal (decided on string shapes: Sprintf, concatenation, strconv and helpers are the same thing)
	n = 0
	seedExpr := p.expr(extractOr(dcs[0].Value(), 3))
	for _, b := range p.body(ct) {
		for _, in := range b.Instrs {
			v, ok := in.(ssa.Value)
			if !ok || !isStringTyped(v) {
				continue
			}
			switch x := in.(type) {
			case *ssa.BinOp:
				if x.Op != token.ADD {
					continue
				}
			case *ssa.Call:
				if p.calleeKey(x.Common()) != "fmt.Sprintf" {
					continue
				}
			default:
				continue
			}
			// maximal: not itself an operand of a longer concatenation / format
			inner := false
			if refs := v.Referrers(); refs != nil {
				for _, u := range *refs {
					if bo, ok := u.(*ssa.BinOp); ok && bo.Op == token.ADD {
						inner = true
					}
				}
			}
			if inner {
				continue
			}
			parts := p.strShape(v)
			for k, q := range parts {
				if q.Kind != "lit" || !strings.Contains(q.Lit, "-rapid.seed=") {
					continue
				}
				n++
				okv := strings.HasSuffix(q.Lit, "-rapid.seed=") && strings.Count(q.Lit, "-rapid.seed=") == 1 && k+1 < len(parts) && parts[k+1].Kind == "int" && parts[k+1].Base == 10 && parts[k+1].Expr == seedExpr
				got := "<nothing>"
				if k+1 < len(parts) {
					got = parts[k+1].Expr
				}
				r.Check("checkTB#hint.seed", in.Pos(), okv, "the text after -rapid.seed= is doCheck's seed result in decimal",
					fmt.Sprintf("the reproduction hint prints %s after -rapid.seed= (expected result #3 of doCheck, in decimal)", got))
			}
		}
	}
	r.Floor("-rapid.seed= hints in checkTB", n, 1)
}

func extractOr(call ssa.Value, k int) ssa.Value {
	es := extractsOf(call, k)
	if len(es) > 0 {
		return es[0]
	}
	return call
}

// ---------------------------------------------------------------------------
// C09

func specC09() *propertySpec {
	return &propertySpec{
		ID: "C09",
		Explanation: "Decides, for every N and every skip pattern, the loop bound, the counters and the verdict predicate of Check: " +
			"the random phase continues exactly while valid < N and invalid < N*10; each iteration runs the property once and increments " +
			"exactly one counter by 1 according to the classification of its result, the third outcome returns; the pass verdict is " +
			"reachable only under no error and (valid == N or (early exit and valid > 0)), otherwise Errorf; a failed Check ends in FailNow; " +
			"no property invocation happens after a passing random phase. Not decided: wall-clock behaviour of the early exit.",
		Rules: []ruleSpec{
			{"C09-R1", "loop-predicate: findBug's loop runs exactly while valid < checks && invalid < checks*invalidChecksMult (=10), counters start at 0", ruleC09R1},
			{"C09-R2", "counters: one checkOnce per iteration; valid+1 exactly on err==nil, invalid+1 exactly on isInvalidData, else return", ruleC09R2},
			{"C09-R3", "verdict: 'OK, passed' only under err1==nil ∧ err2==nil ∧ (valid==checks ∨ (earlyExit ∧ valid>0)); otherwise a failing TB call; checks derives from flags.checks", ruleC09R3},
			{"C09-R4", "failnow: tb.FailNow() under tb.Failed() post-dominates every tb.Errorf of checkTB; Check/MakeCheck do nothing after checkTB", ruleC09R4},
			{"C09-R5", "no-extra-invocations: after findBug returned nil nothing invokes the property; earlyExit is true only on the deadline return", ruleC09R5},
			{"C09-R6", "deadline-source: checkDeadline returns the test's own deadline only where Deadline() reported one (ok == true), otherwise now + maxTestTimeout: a zero deadline would end the random phase after the first test case", ruleC09R6},
			{"C09-R7", "skips-invalidate-the-case: a skip raised by the invariant (not by an action) is not absorbed as a rejected step, it ends the test case as invalid; only executeAction's actions run under the invalidData filter (shared with C08-R1)", ruleC08R1},
		},
	}
}

func ruleC09R1(r *Run) {
	p := r.P
	v := r.viewFindBug()
	if v == nil {
		return
	}
	checks := paramNamed(v.fn, "checks")
	if checks == nil {
		r.Undecided("anchor:findBug.checks", v.fn.Pos(), "anchor unresolved: parameter checks of findBug")
		return
	}
	kObj := p.Types.Scope().Lookup("invalidChecksMult")
	kc, ok := kObj.(*types.Const)
	if !ok {
		r.Undecided("anchor:invalidChecksMult", token.NoPos, "anchor unresolved: constant invalidChecksMult")
		return
	}
	k, _ := constant.Int64Val(kc.Val())
	r.Check("invalidChecksMult", kc.Pos(), k == 10, "invalid-case budget multiplier is 10", fmt.Sprintf("invalid-case budget multiplier is %d, the documented budget is 10*N", k))

	// facts at the checkOnce call
	var fValid, fInv bool
	var gl []string
	for _, g := range guardsOf(v.checkOnce.Instr.Block()) {
		if !v.loop.Body[g.If.Block()] {
			continue
		}
		b, okb := p.resolve(g.Cond).(*ssa.BinOp)
		if !okb {
			continue
		}
		rl := p.relOf(g)
		gl = append(gl, rl.String())
		x, y, op := p.resolve(b.X), p.resolve(b.Y), rl.Op
		if op == ">" { // normalise to x < y
			x, y, op = y, x, "<"
		}
		if op != "<" {
			continue
		}
		ph, isPhi := x.(*ssa.Phi)
		if !isPhi || ph.Block() != v.loop.Header {
			continue
		}
		if y == ssa.Value(checks) {
			fValid, v.validPhi = true, ph
		} else if m, okm := y.(*ssa.BinOp); okm && m.Op == token.MUL {
			a, bb := p.resolve(m.X), p.resolve(m.Y)
			if c, okc := constInt(bb); okc && a == ssa.Value(checks) && c == k {
				fInv, v.invPhi = true, ph
			} else if c, okc := constInt(a); okc && bb == ssa.Value(checks) && c == k {
				fInv, v.invPhi = true, ph
			}
		}
	}
	r.Check("findBug#loop.valid-bound", v.loop.Header.Instrs[0].Pos(), fValid,
		"checkOnce runs only under valid < checks", "checkOnce is not guarded by valid < checks (loop facts: "+strings.Join(gl, "; ")+")")
	r.Check("findBug#loop.invalid-bound", v.loop.Header.Instrs[0].Pos(), fInv,
		fmt.Sprintf("checkOnce runs only under invalid < checks*%d", k), fmt.Sprintf("checkOnce is not guarded by invalid < checks*%d (loop facts: %s)", k, strings.Join(gl, "; ")))
	// the bounded counters are the ones findBug reports: result #0 (valid) is the one compared with checks, result #1
	// (invalid) the one compared with checks*k — two different counters
	if v.validPhi != nil && v.invPhi != nil {
		okPos := false
		for _, ret := range returnsOf(v.fn) {
			if len(ret.Results) >= 2 && p.resolve(p.res(ret, 0)) == ssa.Value(v.validPhi) && p.resolve(p.res(ret, 1)) == ssa.Value(v.invPhi) {
				okPos = true
			}
		}
		r.Check("findBug#loop.bounds-on-own-counters", v.loop.Header.Instrs[0].Pos(), v.validPhi != v.invPhi && okPos, "valid (result #0) is bounded by checks, invalid (result #1) by checks*k",
			"the loop bounds are not on the counters findBug reports as (valid, invalid): "+strings.Join(gl, "; ")+" — e.g. with the skip budget tested on the valid counter a property that always skips is invoked without end instead of failing with 'only generated'")
	}
	for name, ph := range map[string]*ssa.Phi{"valid": v.validPhi, "invalid": v.invPhi} {
		if ph == nil {
			continue
		}
		c, okc := p.evalAtEntry(ph, 0)
		r.Check("findBug#"+name+".init", ph.Pos(), okc && c == 0, name+" starts at 0", fmt.Sprintf("%s does not start at 0 (folds to %d, ok=%v)", name, c, okc))
	}
	// exits: every edge leaving the loop is the false edge of one of the two bounds, or leads only to returns that
	// are a failure return or the early-exit return
	for b := range v.loop.Body {
		for si, s := range b.Succs {
			if v.loop.Body[s] {
				continue
			}
			iff, isIf := b.Instrs[len(b.Instrs)-1].(*ssa.If)
			desc := "b" + fmt.Sprint(b.Index) + "→b" + fmt.Sprint(s.Index)
			if isIf {
				rl := p.relOf(guard{Cond: iff.Cond, Pol: si == 0})
				desc = rl.String()
				// the edge is taken exactly when one of the two counters has reached its bound (in whatever way the
				// comparison is written: operands swapped, loop condition negated into a break)
				isCounter := func(s string) bool {
					return (v.validPhi != nil && s == p.expr(v.validPhi)) || (v.invPhi != nil && s == p.expr(v.invPhi))
				}
				if (isCounter(rl.X) && rl.Op == ">=") || (isCounter(rl.Y) && rl.Op == "<=") {
					r.OK("findBug#loop.exit", iff.Pos(), "loop exit on "+desc)
					continue
				}
			}
			// must lead only to early-exit/failure returns
			bad := ""
			seen := map[*ssa.BasicBlock]bool{}
			var walk func(x *ssa.BasicBlock)
			walk = func(x *ssa.BasicBlock) {
				if seen[x] || v.loop.Body[x] {
					if v.loop.Body[x] {
						bad = "re-enters the loop"
					}
					return
				}
				seen[x] = true
				if ret, okr := x.Instrs[len(x.Instrs)-1].(*ssa.Return); okr {
					ee, _ := constBool(p.resolve(p.res(ret, 2)))
					if !ee && isNilConst(p.resolve(p.res(ret, 4))) {
						bad = "reaches a plain return at " + p.pos(ret.Pos())
					}
				}
				for _, y := range x.Succs {
					walk(y)
				}
			}
			walk(s)
			r.Check("findBug#loop.exit", b.Instrs[len(b.Instrs)-1].Pos(), bad == "",
				"other loop exit ("+desc+") leads only to the early-exit or failure return",
				"loop can be left on "+desc+" which "+bad+": the run ends before the promised number of valid test cases")
		}
	}
}

func ruleC09R2(r *Run) {
	p := r.P
	v := r.viewFindBug()
	if v == nil {
		return
	}
	// property invocations per iteration
	n := 0
	for _, cs := range p.calls(v.fn) {
		if v.loop.Body[cs.Instr.Block()] || true {
			if cs.Key == "checkOnce" || strings.HasPrefix(cs.Key, "dyn:") {
				n++
			}
		}
	}
	r.Check("findBug#one-invocation", v.checkOnce.Instr.Pos(), n == 1, "exactly one property invocation (checkOnce) per iteration", fmt.Sprintf("%d invoking call sites in findBug", n))

	// find counter phis at loop header: integer phis whose entry value is 0 and that are incremented
	errKey := p.expr(v.errVal)
	type upd struct {
		phi  *ssa.Phi
		name string
	}
	var counters []upd
	for _, in := range v.loop.Header.Instrs {
		ph, ok := in.(*ssa.Phi)
		if !ok {
			break
		}
		// the counters are identified by the result they are returned as: findBug returns (valid, invalid, …)
		for _, ret := range returnsOf(v.fn) {
			done := false
			for k, name := range []string{"valid", "invalid"} {
				if k < len(ret.Results) && p.resolve(p.res(ret, k)) == ssa.Value(ph) {
					dup := false
					for _, c := range counters {
						if c.phi == ph {
							dup = true
						}
					}
					if !dup {
						counters = append(counters, upd{ph, name})
					}
					done = true
				}
			}
			if done {
				break
			}
		}
	}
	if len(counters) != 2 {
		r.Undecided("anchor:findBug.counters", v.fn.Pos(), "anchor unresolved: loop counters valid/invalid of findBug")
		return
	}
	// per back edge: exactly one counter incremented by one. A back edge that comes from a merge block (the post
	// statement of a three-clause loop, a shared loop tail) is split into the edges entering that block, so that each
	// outcome of the test case is judged with its own counter updates and facts
	type backEdge struct {
		vals []ssa.Value
		from *ssa.BasicBlock
	}
	var backEdges []backEdge
	for i, pred := range v.loop.Header.Preds {
		if !v.loop.Header.Dominates(pred) {
			continue
		}
		vals := make([]ssa.Value, len(counters))
		var merge *ssa.BasicBlock
		for k, c := range counters {
			vals[k] = p.resolve(c.phi.Edges[i])
			if ph, ok := vals[k].(*ssa.Phi); ok && ph.Block() != v.loop.Header && v.loop.Body[ph.Block()] && ph != c.phi {
				if merge == nil || merge == ph.Block() {
					merge = ph.Block()
				}
			}
		}
		if merge == nil {
			backEdges = append(backEdges, backEdge{vals, pred})
			continue
		}
		for k2, mp := range merge.Preds {
			vs := make([]ssa.Value, len(counters))
			for k := range counters {
				vs[k] = vals[k]
				if ph, ok := vals[k].(*ssa.Phi); ok && ph.Block() == merge {
					vs[k] = p.resolve(ph.Edges[k2])
				}
			}
			backEdges = append(backEdges, backEdge{vs, mp})
		}
	}
	for _, be := range backEdges {
		pred := be.from
		incs := map[string]int64{}
		okEdge := true
		for ci, c := range counters {
			e := be.vals[ci]
			switch {
			case e == ssa.Value(c.phi):
				incs[c.name] = 0
			default:
				bo, okb := e.(*ssa.BinOp)
				if okb && bo.Op == token.ADD && p.resolve(bo.X) == ssa.Value(c.phi) {
					if k, okk := constInt(p.resolve(bo.Y)); okk {
						incs[c.name] = k
						continue
					}
				}
				okEdge = false
				r.Fail("findBug#counter."+c.name, pred.Instrs[len(pred.Instrs)-1].Pos(), "counter "+c.name+" is updated to "+p.expr(e)+" on a back edge (expected unchanged or +1)")
			}
		}
		if !okEdge {
			continue
		}
		facts := p.facts(pred.Instrs[len(pred.Instrs)-1])
		if iff, isIf := pred.Instrs[len(pred.Instrs)-1].(*ssa.If); isIf && len(pred.Succs) == 2 && pred.Succs[0] != pred.Succs[1] {
			// the back edge leaves a test directly: its own outcome belongs to the facts of the edge
			for si, su := range pred.Succs {
				if su == v.loop.Header {
					facts = append(append([]rel{}, facts...), p.relOf(guard{Cond: iff.Cond, Pol: si == 0}))
				}
			}
		}
		if _, infeasible := p.enumSelection(facts); infeasible {
			continue // the edge past the last case of a switch over every constant of a classification helper
		}
		nilFact := holds(facts, errKey, "==", "nil")
		invFact := holds(facts, "(*testError).isInvalidData("+argOf(errKey)+")", "==", "true") || holdsCallTrue(p, pred, "(*testError).isInvalidData", v.errVal)
		switch {
		case incs["valid"] == 1 && incs["invalid"] == 0:
			r.Check("findBug#valid++", pred.Instrs[len(pred.Instrs)-1].Pos(), nilFact,
				"valid is incremented exactly on the err == nil edge", "valid is incremented on an edge where the test case's error is not known to be nil: "+factsStr(facts))
		case incs["valid"] == 0 && incs["invalid"] == 1:
			r.Check("findBug#invalid++", pred.Instrs[len(pred.Instrs)-1].Pos(), invFact && !nilFact,
				"invalid is incremented exactly on the isInvalidData edge", "invalid is incremented on an edge where the error is not known to be invalidData: "+factsStr(facts))
		default:
			r.Fail("findBug#counter-step", pred.Instrs[len(pred.Instrs)-1].Pos(), fmt.Sprintf("back edge changes counters by valid+%d, invalid+%d (expected exactly one +1)", incs["valid"], incs["invalid"]))
		}
	}
	// third outcome returns with that error
	r.Floor("failure returns of findBug", len(v.failRets), 1)
	for _, ret := range v.failRets {
		facts := p.facts(ret)
		r.Check("findBug#return-failure.guard", ret.Pos(), holds(facts, errKey, "!=", "nil") && holdsCallFalse(p, ret.Block(), "(*testError).isInvalidData", v.errVal),
			"failure return is taken exactly when the error is non-nil and not invalidData", "failure return is not guarded by err != nil ∧ !isInvalidData: "+factsStr(facts))
	}
}

func argOf(s string) string { return s }

// holdsCallTrue: some guard of block b is `callee(arg) == true` with arg the given value.
func holdsCallTrue(p *Program, b *ssa.BasicBlock, callee string, arg ssa.Value) bool {
	return holdsCall(p, b, callee, arg, true)
}
func holdsCallFalse(p *Program, b *ssa.BasicBlock, callee string, arg ssa.Value) bool {
	return holdsCall(p, b, callee, arg, false)
}
func holdsCall(p *Program, b *ssa.BasicBlock, callee string, arg ssa.Value, want bool) bool {
	return guardsHaveCall(p, append(append([]guard{}, guardsOf(b)...), p.enumGuards(b)...), callee, arg, want)
}

// guardsHaveCall: one of the guards is callee(arg) with the wanted outcome.
func guardsHaveCall(p *Program, gs []guard, callee string, arg ssa.Value, want bool) bool {
	for _, g := range gs {
		cond, pol := g.Cond, g.Pol
		for {
			c := p.resolve(cond)
			if u, ok := c.(*ssa.UnOp); ok && u.Op == token.NOT {
				cond, pol = u.X, !pol
				continue
			}
			cond = c
			break
		}
		c, ok := cond.(*ssa.Call)
		if !ok || p.calleeKey(c.Common()) != callee || pol != want {
			continue
		}
		if len(c.Common().Args) > 0 && p.same(c.Common().Args[0], arg) {
			return true
		}
	}
	return false
}

func ruleC09R3(r *Run) {
	p := r.P
	ct := r.MustFn("checkTB")
	if ct == nil {
		return
	}
	dcs := p.callsTo(ct, "doCheck")
	if len(dcs) != 1 {
		r.Undecided("checkTB#doCheck", ct.Pos(), "expected one doCheck call in checkTB")
		return
	}
	dc := dcs[0]
	res := func(k int) string { return p.expr(extractOr(dc.Value(), k)) }
	checksVal := p.resolve(dc.Arg(2))
	checksKey := p.expr(checksVal)

	// checks derives from flags.checks by at most a testing.Short()-guarded division
	okDerive, why := true, ""
	var visit func(v ssa.Value, depth int)
	visit = func(v ssa.Value, depth int) {
		v = p.resolve(v)
		if depth > 6 {
			okDerive, why = false, "too deep"
			return
		}
		switch x := v.(type) {
		case *ssa.Phi:
			for _, e := range x.Edges {
				visit(e, depth+1)
			}
		case *ssa.BinOp:
			if x.Op != token.QUO {
				okDerive, why = false, "operator "+x.Op.String()+" in "+p.expr(x)
				return
			}
			if _, ok := constInt(p.resolve(x.Y)); !ok {
				okDerive, why = false, "non-constant divisor"
			}
			if !holds(p.facts(x), "testing.Short()", "==", "true") {
				okDerive, why = false, "division not guarded by testing.Short()"
			}
			visit(x.X, depth+1)
		case *ssa.UnOp:
			if p.expr(x) != "G:flags.checks" {
				okDerive, why = false, "source "+p.expr(x)
			}
		default:
			okDerive, why = false, "source "+p.expr(v)
		}
	}
	visit(checksVal, 0)
	r.Check("checkTB#checks-source", dc.Instr.Pos(), okDerive, "number of checks derives from -rapid.checks (only the testing.Short() division)", "number of checks passed to doCheck does not derive purely from flags.checks: "+why)

	// OK-log
	var okLog *callSite
	for _, cs := range p.callsTo(ct, "invoke:tb.Logf", "invoke:tb.Log") {
		if f, ok := constString(p.resolve(cs.Arg(0))); ok && strings.Contains(f, "OK, passed") {
			okLog = cs
		}
	}
	if okLog == nil {
		r.Undecided("anchor:checkTB.ok-log", ct.Pos(), "anchor unresolved: the '[rapid] OK, passed' log call of checkTB")
		return
	}
	paths := p.pathConds(ct, okLog.Instr.Block(), func(rl rel) bool { return strings.Contains(rl.X, "doCheck(") || strings.Contains(rl.Y, "doCheck(") })
	has := func(set []string, x, op, y string) bool {
		var fs []rel
		for _, s := range set {
			parts := strings.SplitN(s, " ", 3)
			// rel strings are "X op Y" but X may contain spaces; parse from known operators
			fs = append(fs, parseRel(s))
			_ = parts
		}
		return holds(fs, x, op, y)
	}
	allOK := len(paths) > 0
	for _, set := range paths {
		ok := has(set, res(6), "==", "nil") && has(set, res(7), "==", "nil") &&
			(has(set, res(0), "==", checksKey) || (has(set, res(2), "==", "true") && has(set, res(0), ">", "0")))
		if !ok {
			allOK = false
			r.Fail("checkTB#ok-path", okLog.Instr.Pos(), "the pass verdict is reachable on a path with only {"+strings.Join(set, " ∧ ")+"}: required err1==nil ∧ err2==nil ∧ (valid==checks ∨ (earlyExit ∧ valid>0))")
		}
	}
	if allOK {
		r.OK("checkTB#ok-path", okLog.Instr.Pos(), fmt.Sprintf("all %d path classes to the pass verdict satisfy err1==nil ∧ err2==nil ∧ (valid==checks ∨ (earlyExit ∧ valid>0))", len(paths)))
	}
	// complementary: every path to the exit passes the OK log or a failing TB call
	isVerdict := func(in ssa.Instruction) bool {
		if in == okLog.Instr.(ssa.Instruction) {
			return true
		}
		if c, ok := in.(ssa.CallInstruction); ok {
			switch p.calleeKey(c.Common()) {
			case "invoke:tb.Errorf", "invoke:tb.Error", "invoke:tb.Fatalf", "invoke:tb.Fatal", "invoke:tb.Fail", "invoke:tb.FailNow":
				return true
			}
		}
		return false
	}
	exit := escapesFromEntry(ct, isVerdict, false)
	r.Check("checkTB#verdict-total", ct.Pos(), exit == nil, "every path through checkTB passes the pass log or a failing TB call",
		"checkTB can return without logging a pass and without failing the TB (exit at "+posOf(p, exit)+")")
}

func posOf(p *Program, in ssa.Instruction) string {
	if in == nil {
		return "-"
	}
	return p.pos(in.Pos())
}

// parseRel splits "X op Y" produced by rel.String() at the top-level comparison operator.
func parseRel(s string) rel {
	depth := 0
	for i := 0; i < len(s); i++ {
		switch s[i] {
		case '(':
			depth++
		case ')':
			depth--
		case ' ':
			if depth != 0 {
				continue
			}
			for _, op := range []string{"==", "!=", "<=", ">=", "<", ">"} {
				if strings.HasPrefix(s[i+1:], op+" ") {
					return rel{s[:i], op, s[i+1+len(op)+1:]}
				}
			}
		}
	}
	return rel{s, "", ""}
}

func ruleC09R4(r *Run) {
	p := r.P
	ct := r.MustFn("checkTB")
	if ct == nil {
		return
	}
	// the FailNow guard
	var failedIf *ssa.If
	for _, cs := range p.callsTo(ct, "invoke:tb.Failed") {
		if cs.Value() == nil || cs.Value().Referrers() == nil {
			continue
		}
		for _, ref := range *cs.Value().Referrers() {
			if iff, ok := ref.(*ssa.If); ok {
				// true successor must call FailNow before anything else of note
				for _, in := range iff.Block().Succs[0].Instrs {
					if c, ok := in.(ssa.CallInstruction); ok && p.calleeKey(c.Common()) == "invoke:tb.FailNow" {
						failedIf = iff
					}
				}
			}
		}
	}
	if failedIf == nil {
		r.Fail("checkTB#failnow", ct.Pos(), "checkTB has no `if tb.Failed() { tb.FailNow() }`: a failed Check does not stop the enclosing test")
		return
	}
	r.OK("checkTB#failnow", failedIf.Pos(), "tb.FailNow() is called when tb.Failed()")
	n := 0
	for _, cs := range p.callsTo(ct, "invoke:tb.Errorf", "invoke:tb.Error", "invoke:tb.Fail") {
		n++
		exit := escapesWithout(cs.Instr, func(in ssa.Instruction) bool { return in == ssa.Instruction(failedIf) }, false)
		r.Check("checkTB#errorf→failnow", cs.Instr.Pos(), exit == nil, "every path from this failing TB call passes the Failed/FailNow check",
			"checkTB can return after this tb.Errorf without passing `if tb.Failed() { tb.FailNow() }`")
	}
	r.Floor("failing TB calls in checkTB", n, 4)
	for _, name := range []string{"Check", "MakeCheck$1"} {
		fn := r.MustFn(name)
		if fn == nil {
			continue
		}
		cts := p.callsTo(fn, "checkTB")
		if len(cts) != 1 {
			r.Fail(name+"#checkTB", fn.Pos(), fmt.Sprintf("%s calls checkTB %d times (expected once)", name, len(cts)))
			continue
		}
		after := 0
		walkFrom(cts[0].Instr, func(in ssa.Instruction) bool {
			if _, ok := in.(ssa.CallInstruction); ok {
				after++
			}
			return true
		})
		r.Check(name+"#nothing-after-checkTB", cts[0].Instr.Pos(), after == 0, name+" does nothing after checkTB", fmt.Sprintf("%s makes %d calls after checkTB returned", name, after))
	}
}

func ruleC09R5(r *Run) {
	p := r.P
	dc := r.MustFn("doCheck")
	fbFn := r.MustFn("findBug")
	if dc == nil || fbFn == nil {
		return
	}
	fbs := p.callsTo(dc, "findBug")
	if len(fbs) != 1 {
		r.Undecided("doCheck#findBug", dc.Pos(), "expected one findBug call in doCheck")
		return
	}
	fb := fbs[0]
	errKey := p.expr(extractOr(fb.Value(), 4))
	n := 0
	for _, cs := range p.calls(dc) {
		if !dominates(fb.Instr, cs.Instr) && !reachable(fb.Instr, cs.Instr, nil) {
			continue
		}
		if cs.Instr == fb.Instr {
			continue
		}
		invoking := cs.Key == "checkOnce" || cs.Key == "shrink" || cs.Key == "findBug" || cs.Key == "checkFailFile" || cs.Key == "captureTestOutput" || strings.HasPrefix(cs.Key, "dyn:")
		if !invoking {
			continue
		}
		n++
		r.Check("doCheck#after-findBug."+cs.Key, cs.Instr.Pos(), holds(p.facts(cs.Instr), errKey, "!=", "nil"),
			cs.Key+" after the random phase runs only if findBug reported a failure", cs.Key+" can run although findBug returned no failure: the property is invoked beyond the promised N test cases")
	}
	r.Floor("property-invoking calls after findBug in doCheck", n, 2)
	// passing return right after findBug
	okPass := false
	for _, ret := range returnsOf(dc) {
		if holds(p.facts(ret), errKey, "==", "nil") && dominates(fb.Instr, ret) {
			okPass = p.isResultOf(p.res(ret, 0), fb.Value(), 0) && p.isResultOf(p.res(ret, 1), fb.Value(), 1) && p.isResultOf(p.res(ret, 2), fb.Value(), 2) &&
				isNilConst(p.resolve(p.res(ret, 6))) && isNilConst(p.resolve(p.res(ret, 7)))
			r.Check("doCheck#return-pass", ret.Pos(), okPass, "passing return hands findBug's valid/invalid/earlyExit on with nil errors", "passing return does not hand on findBug's counters with nil errors")
		}
	}
	// earlyExit true only on the deadline return
	n = 0
	for _, ret := range returnsOf(fbFn) {
		ee, isConst := constBool(p.resolve(p.res(ret, 2)))
		if !isConst {
			r.Fail("findBug#earlyExit", ret.Pos(), "earlyExit result is not a constant: "+p.expr(p.res(ret, 2)))
			continue
		}
		if !ee {
			continue
		}
		n++
		okD := false
		for _, f := range p.facts(ret) {
			if strings.Contains(f.X+f.Y, "$deadline") {
				okD = true
			}
		}
		r.Check("findBug#earlyExit-guard", ret.Pos(), okD && isNilConst(p.resolve(p.res(ret, 4))), "earlyExit=true only on the return guarded by the deadline test", "earlyExit=true is returned on a path not guarded by the deadline: "+factsStr(p.facts(ret)))
	}
	r.Floor("early-exit returns in findBug", n, 1)
}

func ruleC07R4(r *Run) {
	nondetCensus(r, "doCheck", []string{"doCheck", "<generation>"}, true)
}

// ruleC09R6: the check deadline decides how many test cases run (findBug exits early when it is near). With no test
// deadline (-timeout=0) Deadline() returns the zero time and ok == false; using that value ends the run after one case.
func ruleC09R6(r *Run) {
	p := r.P
	fn := r.MustFn("checkDeadline")
	if fn == nil {
		return
	}
	n := 0
	for _, ret := range returnsOf(fn) {
		for _, a := range p.alternatives(p.res(ret, 0), 0) {
			n++
			facts := append(append([]rel{}, a.Facts...), p.facts(ret)...)
			av := p.resolve(a.Val)
			ex := p.expr(av)
			switch {
			case strings.HasPrefix(ex, "(time.Time).Add(time.Now(), "):
				d, okc := int64(0), false
				if c, isCall := av.(*ssa.Call); isCall {
					d, okc = constInt(p.resolve(c.Common().Args[1]))
				}
				r.Check("checkDeadline#default", ret.Pos(), okc && d >= int64(60e9), "without a test deadline the check deadline is now + a long constant", "the default check deadline is now + "+fmt.Sprint(d)+"ns")
			case strings.Contains(ex, ").Deadline("):
				okFlag := false
				if e, isEx := av.(*ssa.Extract); isEx && e.Index == 0 {
					okFlag = holds(facts, p.expr(e.Tuple)+"#1", "==", "true")
				}
				r.Check("checkDeadline#own-deadline-only-if-set", ret.Pos(), okFlag, "the test's own deadline is used only when Deadline() reports one", "checkDeadline returns the value of Deadline() without its ok result being true: without a test deadline (-timeout=0) that is the zero time, the random phase stops after the first test case and Check passes with 1 test instead of N")
			default:
				r.Fail("checkDeadline#source", ret.Pos(), "checkDeadline returns "+ex+", which is neither the test's deadline nor now + maxTestTimeout")
			}
		}
	}
	r.Floor("deadline sources of checkDeadline", n, 2)
}

// ruleConstructionCensus: no nondeterminism source in the closure of the functions that build generators.
func ruleConstructionCensus(r *Run) {
	names := generatorConstructors(r)
	r.Floor("generator constructors", len(names), 40)
	nondetCensus(r, "construction", names, false)
}
