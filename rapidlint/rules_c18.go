package main

import (
	"fmt"
	"go/constant"
	"go/token"
	"go/types"
	"math"
	"sort"
	"strings"

	"golang.org/x/tools/go/ssa"
)

func init() { register("C18", specC18) }

func specC18() *propertySpec {
	return &propertySpec{
		ID: "C18",
		Explanation: "Decides (a) that without -rapid.seed the base seed comes from a run-time entropy source and not from a constant, and that the per-case seeds within a run are pairwise " +
			"different (strictly positive accumulated increment); (b) for the biased integer core genUintNBiased, by folding its branch conditions for every bit length L = 1..64 and solving " +
			"the resulting one-unknown interval constraints over the geometric draw n >= 1: a full-width draw exists for every L (so with the acceptance test every value of the top bit band " +
			"is producible), the forced-maximum path exists, and for L >= 2 a narrower draw exists (small values / minimum of an offset range); the sign split of mixed ranges uses a probability " +
			"strictly between 0 and 1; (c) the float core pins both significand ranges to the bound's own parts on exponent overflow. NOT decided: frequencies ('within a few thousand draws'), " +
			"exhaustive reachability of every float, distribution and cross-process independence of seeds.",
		Rules: []ruleSpec{
			{"C18-R1", "entropy: the non-flag return of baseSeed derives from a run-time entropy source (fresh maphash.Hash / crypto/rand / time) and from no constant alone", ruleC18R1},
			{"C18-R2", "distinct-case-seeds: the per-case seed recurrence adds valid+invalid, exactly one of which grows by one per iteration, and the addend is positive once a counter is (shared with C07-R2, C09-R2)", func(r *Run) { ruleC07R2(r); ruleC09R2(r); ruleC18R2(r) }},
			{"C18-R3", "bit-band table: for every L in 1..64 the full-width, forced-max and (L>=2) narrow draw of genUintNBiased are satisfiable; mixed-sign ranges split with 0 < pNeg < 1", ruleC18R3},
			{"C18-R4", "float-pins: on exponent overflow the significand ranges of genUfloatRange are degenerate at the bound's own parts", ruleC18R4},
			{"C18-R5", "all-fractions-reachable: the loop of genUfloatRange that clears trailing fraction bits runs maxR - r times with r drawn from 0..maxR, so that for r = maxR nothing is cleared and every value of the fraction range stays reachable", ruleC18R5},
			{"C18-R6", "lexicographic-float-bounds: a float is the triple (exponent, integer part, fraction) compared lexicographically, so a part of the lower (upper) bound may restrict a draw only where every higher-order part is pinned to that bound's value: otherwise in-range floats with a larger integer part and a smaller fraction than min (or the mirror image at max) are never produced", ruleC18R6},
		},
	}
}

var entropyCallees = map[string]string{
	"(*hash/maphash.Hash).Sum64": "a maphash.Hash that was never seeded explicitly picks a random per-process seed",
	"hash/maphash.MakeSeed":      "random seed",
	"crypto/rand.Read":           "OS entropy",
	"crypto/rand.Int":            "OS entropy",
	"math/rand/v2.Uint64":        "runtime-seeded global source",
	"math/rand/v2.Int64":         "runtime-seeded global source",
	"runtime.fastrand64":         "runtime entropy",
}

// Not accepted: the wall clock (time.Now) as the only source — test case i is seeded with base + i(i+1)/2, so two Checks
// started within a few microseconds of each other (parallel subtests, CI shards) explore overlapping sequences.
// Not accepted: the global source of math/rand (rand.Uint64, rand.Int63, …). It is runtime-seeded by default, but any
// rand.Seed(k) in the user's test code (common in tests) or GODEBUG=randautoseed=0 makes it a fixed sequence: every
// Check then explores the same test cases (seed C18gB). math/rand/v2's global source cannot be reseeded.

func ruleC18R1(r *Run) {
	p := r.P
	fn := r.MustFn("baseSeed")
	if fn == nil {
		return
	}
	n := 0
	for _, ret := range returnsOf(fn) {
		rv := p.resolve(p.res(ret, 0))
		if p.expr(rv) == "G:flags.seed" {
			continue
		}
		n++
		src, why := "", ""
		seen := map[ssa.Value]bool{}
		constOnly := true
		var walk func(v ssa.Value, d int)
		walk = func(v ssa.Value, d int) {
			if v == nil || seen[v] || d > 8 {
				return
			}
			seen[v] = true
			v = p.resolve(v)
			switch x := v.(type) {
			case *ssa.Const:
				return
			case *ssa.Call:
				k := p.calleeKey(x.Common())
				if reason, ok := entropyCallees[k]; ok {
					src, why = k, reason
					constOnly = false
					// a maphash.Hash must be fresh and never SetSeed
					if k == "(*hash/maphash.Hash).Sum64" {
						recv := p.resolve(x.Common().Args[0])
						if _, isAlloc := recv.(*ssa.Alloc); !isAlloc {
							src = ""
						}
						for _, cs := range p.calls(fn) {
							if strings.HasSuffix(cs.Key, ").SetSeed") {
								src = ""
							}
						}
					}
					return
				}
				constOnly = false
				for _, a := range x.Common().Args {
					walk(a, d+1)
				}
			default:
				constOnly = false
				if in, ok := v.(ssa.Instruction); ok {
					for _, op := range in.Operands(nil) {
						if *op != nil {
							walk(*op, d+1)
						}
					}
				}
			}
		}
		walk(rv, 0)
		r.Check("baseSeed#entropy", ret.Pos(), src != "" && !constOnly, "the base seed derives from "+src+" ("+why+")", "without -rapid.seed the base seed is "+p.expr(rv)+", which does not derive from a run-time entropy source: every run explores the same sequence of test cases")
	}
	r.Floor("non-flag returns of baseSeed", n, 1)
	// used once per Check
	if ct := r.MustFn("checkTB"); ct != nil {
		r.Check("checkTB#baseSeed", ct.Pos(), len(p.callsTo(ct, "baseSeed")) == 1, "each Check draws its own base seed", "checkTB does not call baseSeed exactly once")
	}
	// not cached in a package-level variable
	for _, g := range p.FuncList {
		for _, cs := range p.callsTo(g, "baseSeed") {
			if cs.Value() == nil || cs.Value().Referrers() == nil {
				continue
			}
			for _, ref := range *cs.Value().Referrers() {
				if st, ok := ref.(*ssa.Store); ok {
					if gl := rootGlobal(st.Addr); gl != nil {
						r.Fail(p.fnName(g)+"#baseSeed-cached", st.Pos(), "the base seed is cached in package-level variable "+gl.Name()+": later Checks repeat it")
					}
				}
			}
		}
	}
}

// ---------------------------------------------------------------------------
// numeric folding with one bound variable

type num struct {
	isF bool
	i   int64
	f   float64
}

func (n num) float() float64 {
	if n.isF {
		return n.f
	}
	return float64(n.i)
}

// foldNum evaluates a side-effect-free numeric SSA expression under env (values bound to numbers).
func (p *Program) foldNum(v ssa.Value, env map[ssa.Value]num, d int) (num, bool) {
	if d > 20 {
		return num{}, false
	}
	if n, ok := env[v]; ok {
		return n, true
	}
	v = p.resolve(v)
	if n, ok := env[v]; ok {
		return n, true
	}
	switch x := v.(type) {
	case *ssa.Const:
		if x.Value == nil {
			return num{}, false
		}
		switch x.Value.Kind() {
		case constant.Int:
			if i, exact := constant.Int64Val(x.Value); exact {
				return num{i: i}, true
			}
		case constant.Float:
			f, _ := constant.Float64Val(x.Value)
			return num{isF: true, f: f}, true
		}
		return num{}, false
	case *ssa.Convert:
		a, ok := p.foldNum(x.X, env, d+1)
		if !ok {
			return num{}, false
		}
		bt, isB := x.Type().Underlying().(*types.Basic)
		if !isB {
			return num{}, false
		}
		if bt.Info()&types.IsFloat != 0 {
			return num{isF: true, f: a.float()}, true
		}
		if bt.Info()&types.IsInteger != 0 {
			if a.isF {
				return num{i: int64(a.f)}, true // truncation toward zero, as Go's conversion
			}
			return a, true
		}
	case *ssa.BinOp:
		a, ok1 := p.foldNum(x.X, env, d+1)
		b, ok2 := p.foldNum(x.Y, env, d+1)
		if !ok1 || !ok2 {
			return num{}, false
		}
		if a.isF || b.isF {
			fa, fb := a.float(), b.float()
			switch x.Op {
			case token.ADD:
				return num{isF: true, f: fa + fb}, true
			case token.SUB:
				return num{isF: true, f: fa - fb}, true
			case token.MUL:
				return num{isF: true, f: fa * fb}, true
			case token.QUO:
				return num{isF: true, f: fa / fb}, true
			}
			return num{}, false
		}
		switch x.Op {
		case token.ADD:
			return num{i: a.i + b.i}, true
		case token.SUB:
			return num{i: a.i - b.i}, true
		case token.MUL:
			return num{i: a.i * b.i}, true
		case token.QUO:
			if b.i == 0 {
				return num{}, false
			}
			return num{i: a.i / b.i}, true
		}
	case *ssa.Call:
		k := p.calleeKey(x.Common())
		if k == "math.Max" || k == "math.Min" {
			a, ok1 := p.foldNum(x.Common().Args[0], env, d+1)
			b, ok2 := p.foldNum(x.Common().Args[1], env, d+1)
			if !ok1 || !ok2 {
				return num{}, false
			}
			if k == "math.Max" {
				return num{isF: true, f: math.Max(a.float(), b.float())}, true
			}
			return num{isF: true, f: math.Min(a.float(), b.float())}, true
		}
	}
	return num{}, false
}

type edgeCond struct {
	cond ssa.Value
	pol  bool
}

func ruleC18R3(r *Run) {
	p := r.P
	fn := r.MustFn("genUintNBiased")
	if fn == nil {
		return
	}
	// anchors: L = bits.Len64(max); n = conv<int>(genGeom(...)+1); the drawBits width phi
	var Lval ssa.Value
	for _, cs := range p.callsTo(fn, "math/bits.Len64") {
		if p.expr(cs.Arg(0)) == "$max" {
			Lval = cs.Value()
		}
	}
	dbs := p.callsTo(fn, "invoke:bitStream.drawBits")
	// (several draw sites are one choice of width if they all draw the same value)
	for len(dbs) > 1 && p.resolve(dbs[len(dbs)-1].Arg(0)) == p.resolve(dbs[0].Arg(0)) {
		dbs = dbs[:len(dbs)-1]
	}
	if Lval == nil || len(dbs) != 1 {
		r.Undecided("genUintNBiased#anchors", fn.Pos(), "anchor unresolved: bits.Len64(max) / the single drawBits call of genUintNBiased")
		return
	}
	// the bit-length choices: the edges of a phi, or the returns of an inlined helper that computes the width
	type choice struct {
		val   ssa.Value
		conds []edgeCond
	}
	var choices []choice
	var widthPos token.Pos
	var collect func(v ssa.Value, base []edgeCond, d int) bool
	collect = func(v ssa.Value, base []edgeCond, d int) bool {
		if d > 4 {
			return false
		}
		switch x := p.resolve(v).(type) {
		case *ssa.Phi:
			if !widthPos.IsValid() {
				widthPos = x.Pos()
			}
			for i, e := range x.Edges {
				pred := x.Block().Preds[i]
				if x.Block().Dominates(pred) && p.resolve(e) == ssa.Value(x) {
					continue // retry back edge keeps the width
				}
				conds := append([]edgeCond{}, base...)
				for _, g := range guardsOfLocal(pred) {
					conds = append(conds, edgeCond{g.Cond, g.Pol})
				}
				if iff, ok := pred.Instrs[len(pred.Instrs)-1].(*ssa.If); ok && pred.Succs[0] != pred.Succs[1] {
					conds = append(conds, edgeCond{iff.Cond, pred.Succs[0] == x.Block()})
				}
				if _, nested := p.resolve(e).(*ssa.Phi); nested && p.resolve(e) != ssa.Value(x) {
					if !collect(e, conds, d+1) {
						return false
					}
					continue
				}
				choices = append(choices, choice{e, conds})
			}
			return true
		case *ssa.Extract:
			c, ok := x.Tuple.(*ssa.Call)
			if !ok {
				return false
			}
			h := transparentCallee(c)
			if h == nil {
				return false
			}
			if !widthPos.IsValid() {
				widthPos = c.Pos()
			}
			for _, ret := range returnsOf(h) {
				if x.Index >= len(ret.Results) {
					return false
				}
				conds := append([]edgeCond{}, base...)
				for _, g := range guardsOfLocal(ret.Block()) {
					conds = append(conds, edgeCond{g.Cond, g.Pol})
				}
				rv := p.res(ret, x.Index)
				if _, nested := p.resolve(rv).(*ssa.Phi); nested {
					if !collect(rv, conds, d+1) {
						return false
					}
					continue
				}
				choices = append(choices, choice{rv, conds})
			}
			return true
		}
		return false
	}
	if !collect(dbs[0].Arg(0), nil, 0) || len(choices) == 0 {
		r.Undecided("genUintNBiased#width", dbs[0].Instr.Pos(), "the drawn width is neither a phi of the bit-length choices nor the result of an inlined helper choosing it: "+p.expr(dbs[0].Arg(0)))
		return
	}
	const nMax = int64(1) << 40
	// n = genGeom(…)+1, possibly clamped (a phi of n and constants, e.g. `if n > 64 { n = 64 }`): its domain as an
	// interval, exact only if the pieces are contiguous
	var nDom func(v ssa.Value, d int) (int64, int64, bool)
	nDom = func(v ssa.Value, d int) (int64, int64, bool) {
		v = p.stripConv(v)
		if bo, ok := v.(*ssa.BinOp); ok && bo.Op == token.ADD {
			c, okc := p.resolve(bo.X).(*ssa.Call)
			one, ok1 := constInt(p.resolve(bo.Y))
			if okc && ok1 && one == 1 && p.calleeKey(c.Common()) == "genGeom" {
				return 1, nMax, true
			}
			return 0, 0, false
		}
		ph, ok := v.(*ssa.Phi)
		if !ok || d > 2 {
			return 0, 0, false
		}
		have := false
		var lo, hi int64
		for i, e := range ph.Edges {
			er := p.stripConv(e)
			var l, h int64
			if c, ok := constInt(er); ok {
				l, h = c, c
			} else {
				var ok bool
				l, h, ok = nDom(er, d+1)
				if !ok {
					return 0, 0, false
				}
				// the edge is taken only under its guards on that same value
				pred := ph.Block().Preds[i]
				gs := guardsOf(pred)
				if iff, ok := pred.Instrs[len(pred.Instrs)-1].(*ssa.If); ok && pred.Succs[0] != pred.Succs[1] {
					gs = append(gs, guard{Cond: iff.Cond, Pol: pred.Succs[0] == ph.Block(), If: iff})
				}
				for _, g := range gs {
					bo, ok := p.resolve(g.Cond).(*ssa.BinOp)
					if !ok {
						continue
					}
					op := bo.Op.String()
					if _, cmp := negOp[op]; !cmp {
						continue
					}
					if !g.Pol {
						op = negOp[op]
					}
					x, y := bo.X, bo.Y
					if p.stripConv(y) == er {
						x, y, op = y, x, flipOp[op]
					}
					c, isC := constInt(p.stripConv(y))
					if p.stripConv(x) != er || !isC {
						continue
					}
					switch op {
					case "<":
						h = min64(h, c-1)
					case "<=":
						h = min64(h, c)
					case ">":
						l = max64(l, c+1)
					case ">=":
						l = max64(l, c)
					}
				}
			}
			if !have {
				lo, hi, have = l, h, true
				continue
			}
			if l > hi+1 || h < lo-1 {
				return 0, 0, false // not an interval
			}
			lo, hi = min64(lo, l), max64(hi, h)
		}
		return lo, hi, have
	}
	isN := func(v ssa.Value) bool {
		_, _, ok := nDom(v, 0)
		return ok
	}
	type edge struct {
		kind  string // full | max | narrow
		conds []edgeCond
		desc  string
	}
	var edges []edge
	for _, ch := range choices {
		var ed edge
		er := p.resolve(ch.val)
		switch {
		case er == Lval:
			ed.kind = "full"
		case isN(er):
			ed.kind = "narrow"
		default:
			if c, ok := constInt(er); ok && c > 64 {
				ed.kind = "max"
			} else {
				r.Undecided("genUintNBiased#width-edge", widthPos, "unrecognised bit-length choice "+p.expr(er))
				return
			}
		}
		ed.conds = ch.conds
		var ds []string
		for _, c := range ed.conds {
			ds = append(ds, p.relOf(guard{Cond: c.cond, Pol: c.pol}).String())
		}
		ed.desc = strings.Join(ds, " ∧ ")
		edges = append(edges, ed)
	}
	// guards that are themselves short-circuit combinations (case a && b: in a switch) are split into the
	// alternative conjunctions they stand for; every alternative becomes an edge of the same kind
	{
		var split []edge
		for _, ed := range edges {
			for _, clause := range p.expandDNF(ed.conds) {
				ne := ed
				ne.conds = clause
				split = append(split, ne)
			}
		}
		edges = split
	}
	kinds := map[string]int{}
	for _, e := range edges {
		kinds[e.kind]++
	}
	r.Check("genUintNBiased#choices", widthPos, kinds["full"] >= 1 && kinds["max"] >= 1 && kinds["narrow"] >= 1,
		fmt.Sprintf("bit-length choices: %v", kinds), fmt.Sprintf("genUintNBiased lacks one of the full-width / forced-max / narrow choices: %v", kinds))
	// solve per L
	type missing struct{ full, max, narrow []int }
	var miss missing
	undecided := ""
	for L := int64(1); L <= 64; L++ {
		env := map[ssa.Value]num{Lval: {i: L}}
		sat := map[string]bool{}
		for _, ed := range edges {
			lo, hi := int64(1), nMax // n >= 1
			feasible := true
			for _, c := range ed.conds {
				cond, pol := c.cond, c.pol
				for {
					cr := p.resolve(cond)
					if u, ok := cr.(*ssa.UnOp); ok && u.Op == token.NOT {
						cond, pol = u.X, !pol
						continue
					}
					cond = cr
					break
				}
				bo, ok := cond.(*ssa.BinOp)
				if !ok {
					undecided = "non-arithmetic guard " + p.expr(cond)
					continue
				}
				op := bo.Op.String()
				if _, cmp := negOp[op]; !cmp {
					undecided = "non-comparison guard " + p.expr(cond)
					continue
				}
				if !pol {
					op = negOp[op]
				}
				x, y := bo.X, bo.Y
				if isN(y) && !isN(x) {
					x, y, op = y, x, flipOp[op]
				}
				if dl, dh, ok := nDom(x, 0); ok {
					lo, hi = max64(lo, dl), min64(hi, dh)
				}
				if !isN(x) {
					// a guard without n: must fold to a constant truth value
					a, ok1 := p.foldNum(x, env, 0)
					b, ok2 := p.foldNum(y, env, 0)
					if !ok1 || !ok2 {
						undecided = "guard " + p.expr(cond) + " is not foldable in L"
						continue
					}
					if !cmpNum(a.float(), op, b.float()) {
						feasible = false
					}
					continue
				}
				b, ok2 := p.foldNum(y, env, 0)
				if !ok2 || b.isF {
					undecided = "bound " + p.expr(y) + " is not an integer expression foldable in L"
					continue
				}
				switch op {
				case "<":
					hi = min64(hi, b.i-1)
				case "<=":
					hi = min64(hi, b.i)
				case ">":
					lo = max64(lo, b.i+1)
				case ">=":
					lo = max64(lo, b.i)
				case "==":
					lo, hi = max64(lo, b.i), min64(hi, b.i)
				case "!=":
					// ignore (removes one point)
				}
			}
			if feasible && lo <= hi {
				switch ed.kind {
				case "full", "max":
					sat[ed.kind] = true
				case "narrow": // the drawn width is n itself
					if lo <= L && L <= hi {
						sat["full"] = true
					}
					if lo < L {
						sat["narrow"] = true
					}
					if hi > 64 && lo > 64 {
						sat["max"] = true
					}
				}
			}
		}
		if !sat["full"] {
			miss.full = append(miss.full, int(L))
		}
		if !sat["max"] {
			miss.max = append(miss.max, int(L))
		}
		if L >= 2 && !sat["narrow"] {
			miss.narrow = append(miss.narrow, int(L))
		}
	}
	if undecided != "" {
		r.Undecided("genUintNBiased#bands", widthPos, "the bit-length guards cannot be folded: "+undecided)
		return
	}
	var eds []string
	for _, e := range edges {
		eds = append(eds, e.kind+": "+e.desc)
	}
	r.Check("genUintNBiased#full-width", widthPos, len(miss.full) == 0, "for every L in 1..64 some n >= 1 selects the full-width draw ("+strings.Join(eds, " | ")+")",
		fmt.Sprintf("for bit lengths L=%v no value of the geometric draw selects a full-width draw: apart from the maximum itself no value of the top bit band of such ranges (e.g. Uint64 values in [2^63, 2^64-2] for L=64) can ever be generated (%s)", miss.full, strings.Join(eds, " | ")))
	r.Check("genUintNBiased#forced-max", widthPos, len(miss.max) == 0, "for every L the forced-maximum path is satisfiable", fmt.Sprintf("for L=%v the forced-maximum path is unsatisfiable", miss.max))
	r.Check("genUintNBiased#narrow", widthPos, len(miss.narrow) == 0, "for every L >= 2 a narrower draw is satisfiable (small values / range minimum)", fmt.Sprintf("for L=%v no narrower draw is satisfiable", miss.narrow))
	// forced max really yields max; u <= max acceptance
	okForce := false
	for _, b := range p.body(fn) {
		for _, in := range b.Instrs {
			if ph, ok := in.(*ssa.Phi); ok {
				for i, e := range ph.Edges {
					if p.expr(e) == "$max" && holds(p.facts(ph.Block().Preds[i].Instrs[0]), p.expr(dbs[0].Arg(0)), ">", "64") {
						okForce = true
					}
				}
			}
		}
	}
	for _, ret := range returnsOf(fn) {
		if p.expr(p.res(ret, 0)) == "$max" && holds(p.facts(ret), p.expr(dbs[0].Arg(0)), ">", "64") {
			okForce = true // a return of its own for the saturated draw
		}
	}
	r.Check("genUintNBiased#forced-max-value", fn.Pos(), okForce, "a width above 64 yields exactly max", "the forced path (width > 64) no longer yields max")
	// sign split of mixed ranges
	if gi := r.MustFn("genIntRange"); gi != nil {
		fcs := p.callsTo(gi, "flipBiasedCoin")
		if len(fcs) != 1 {
			r.Fail("genIntRange#sign-coin", gi.Pos(), "genIntRange does not flip exactly one sign coin")
		} else {
			okSplit := false
			detail := p.expr(fcs[0].Arg(1))
			// the values pNeg can take, with the facts under which it takes them (phi edges, returns of a helper)
			leaves := p.alternatives(fcs[0].Arg(1), 0)
			if len(leaves) > 1 {
				okSplit = true
				mixed := 0
				for _, lf := range leaves {
					facts := append(append([]rel{}, lf.Facts...), p.facts(fcs[0].Instr)...)
					c, isC := p.resolve(lf.Val).(*ssa.Const)
					switch {
					case holds(facts, "$min", ">=", "0"):
						if !isC || p.expr(c) != "0" {
							okSplit = false
						}
					case holds(facts, "$max", "<=", "0"):
						if !isC || p.expr(c) != "1" {
							okSplit = false
						}
					default:
						mixed++
						if isC {
							f, _ := constant.Float64Val(c.Value)
							if !(f > 0 && f < 1) {
								okSplit = false
								detail = "mixed-sign probability " + p.expr(c)
							}
						}
					}
				}
				if mixed == 0 {
					okSplit = false
				}
			}
			r.Check("genIntRange#sign-split", fcs[0].Instr.Pos(), okSplit, "pNeg is 0 for non-negative ranges, 1 for non-positive ranges and strictly between for mixed ranges", "the sign coin of genIntRange makes one sign of a mixed range unreachable: "+detail)
		}
	}
}

func cmpNum(a float64, op string, b float64) bool {
	switch op {
	case "<":
		return a < b
	case "<=":
		return a <= b
	case ">":
		return a > b
	case ">=":
		return a >= b
	case "==":
		return a == b
	case "!=":
		return a != b
	}
	return false
}

func min64(a, b int64) int64 {
	if a < b {
		return a
	}
	return b
}

func ruleC18R4(r *Run) {
	p := r.P
	fn := r.MustFn("genUfloatRange")
	if fn == nil {
		return
	}
	gir := p.callsTo(fn, "genIntRange")
	if len(gir) != 1 {
		r.Undecided("genUfloatRange#exponent", fn.Pos(), "expected one genIntRange (exponent) call")
		return
	}
	lOv, rOv := p.expr(extractOr(gir[0].Value(), 1)), p.expr(extractOr(gir[0].Value(), 2))
	b, isC := constBool(p.resolve(gir[0].Arg(3)))
	r.Check("genUfloatRange#exponent-biased", gir[0].Instr.Pos(), isC && b, "the exponent is drawn with bias (explicit min/max paths exist)", "the exponent is drawn without bias: the overflow flags that pin min/max are never set")
	n := 0
	for _, cs := range p.callsTo(fn, "genUintRange") {
		// the (lowest, highest) pairs the range can take, with the facts under which it takes them: the edges of two
		// phis in one block, or the returns of a helper that computes both bounds
		type pair struct {
			lo, hi ssa.Value
			facts  []rel
		}
		var pairs []pair
		lo, okL := p.resolve(cs.Arg(1)).(*ssa.Phi)
		hi, okH := p.resolve(cs.Arg(2)).(*ssa.Phi)
		if okL && okH && lo.Block() == hi.Block() {
			for i, pred := range lo.Block().Preds {
				facts := p.facts(pred.Instrs[len(pred.Instrs)-1])
				if iff, ok := pred.Instrs[len(pred.Instrs)-1].(*ssa.If); ok {
					facts = append(facts, p.relOf(guard{Cond: iff.Cond, Pol: pred.Succs[0] == lo.Block()}))
				}
				pairs = append(pairs, pair{lo.Edges[i], hi.Edges[i], facts})
			}
		} else if e1, ok1 := cs.Arg(1).(*ssa.Extract); ok1 {
			if e2, ok2 := cs.Arg(2).(*ssa.Extract); ok2 && e1.Tuple == e2.Tuple {
				if c, ok := e1.Tuple.(*ssa.Call); ok {
					if h := transparentCallee(c); h != nil {
						for _, ret := range returnsOf(h) {
							if e1.Index < len(ret.Results) && e2.Index < len(ret.Results) {
								pairs = append(pairs, pair{p.res(ret, e1.Index), p.res(ret, e2.Index), p.facts(ret)})
							}
						}
					}
				}
			}
		}
		if len(pairs) == 0 {
			continue
		}
		n++
		okPins := 0
		for _, pr := range pairs {
			for fi, fl := range []string{lOv, rOv} {
				if holds(pr.facts, fl, "==", "true") {
					same := p.same(pr.lo, pr.hi) || (isLocalFieldLoad(p.resolve(pr.lo)) && isLocalFieldLoad(p.resolve(pr.hi)) && p.expr(pr.lo) == p.expr(pr.hi)) || sameFieldOfSameValue(p, pr.lo, pr.hi)
					isPart := partOfBound(p, pr.lo, []string{"$min", "$max"}[fi], 0)
					if same && isPart {
						okPins++
					} else {
						r.Fail("genUfloatRange#pin", cs.Instr.Pos(), "on exponent overflow ("+fl+") the significand range is ["+p.expr(pr.lo)+", "+p.expr(pr.hi)+"] instead of the bound's own part: the exact min/max float is not produced")
					}
				}
			}
		}
		r.Check("genUfloatRange#pins", cs.Instr.Pos(), okPins >= 2, fmt.Sprintf("both overflow cases pin this significand range to the bound (%d pinned edges)", okPins), "the overflow cases do not pin this significand range")
	}
	r.Floor("significand draws with overflow pins", n, 2)
}

// partOfBound: v is (a phi of) results of ufloat32Parts/ufloat64Parts applied to the given bound parameter.
func partOfBound(p *Program, v ssa.Value, bound string, d int) bool {
	if d > 6 {
		return false
	}
	v = p.resolve(v)
	switch x := v.(type) {
	case *ssa.UnOp:
		// a field of a local struct that holds the parts (lo.signifI)
		if fa, ok := x.X.(*ssa.FieldAddr); ok && x.Op == token.MUL {
			srcs, ok := p.fieldSources(fa, 0)
			if !ok {
				return false
			}
			for _, s := range srcs {
				if !partOfBound(p, s, bound, d+1) {
					return false
				}
			}
			return true
		}
	case *ssa.Field:
		// a field of a struct value (a struct parameter of a helper)
		srcs, ok := p.fieldOfValue(x.X, x.Field, 0)
		if !ok {
			return false
		}
		for _, s := range srcs {
			if !partOfBound(p, s, bound, d+1) {
				return false
			}
		}
		return true
	case *ssa.Phi:
		for _, e := range x.Edges {
			if !partOfBound(p, e, bound, d+1) {
				return false
			}
		}
		return len(x.Edges) > 0
	case *ssa.Extract:
		c, ok := x.Tuple.(*ssa.Call)
		if !ok {
			return false
		}
		k := p.calleeKey(c.Common())
		if k != "ufloat32Parts" && k != "ufloat64Parts" {
			// a helper that picks the decomposition for the width: every return must be such a part
			if h := transparentCallee(c); h != nil {
				rets := returnsOf(h)
				for _, ret := range rets {
					if x.Index >= len(ret.Results) || !partOfBound(p, p.res(ret, x.Index), bound, d+1) {
						return false
					}
				}
				return len(rets) > 0
			}
			return false
		}
		return p.expr(p.stripConv(c.Common().Args[0])) == bound
	}
	return false
}

// ruleC18R2: the addend of the seed recurrence is strictly positive as soon as one test case has run.
func ruleC18R2(r *Run) {
	p := r.P
	v := r.viewFindBug()
	if v == nil || !r.seedOfCase(v) {
		return
	}
	validPhi, invPhi := findBugCounters(p, v)
	_, addends := splitSum(p, p.resolve(v.seedVal))
	if len(addends) == 0 {
		r.Fail("findBug#seed-step", v.seedSite.Instr.Pos(), "the per-case seed has no increment: every test case of a run uses the same seed")
		return
	}
	total1, total2 := int64(0), int64(0)
	okFold := true
	// a counter of its own for the iterations (0 on entry, +1 on every way round the loop) is 1 after one test case
	iterCounter := func(ph *ssa.Phi) bool {
		if ph.Block() != v.loop.Header {
			return false
		}
		if c, ok := p.evalAtEntry(ph, 0); !ok || c != 0 {
			return false
		}
		for i, e := range ph.Edges {
			if !v.loop.Header.Dominates(v.loop.Header.Preds[i]) {
				continue
			}
			if !isIncrementOf(p, p.resolve(e), ph) {
				return false
			}
		}
		return true
	}
	for _, a := range addends {
		x, ok1 := p.evalWithPhis(a, func(ph *ssa.Phi) (int64, bool) {
			switch ph {
			case validPhi:
				return 1, true
			case invPhi:
				return 0, true
			}
			if iterCounter(ph) {
				return 1, true
			}
			return 0, false
		}, 0)
		y, ok2 := p.evalWithPhis(a, func(ph *ssa.Phi) (int64, bool) {
			switch ph {
			case validPhi:
				return 0, true
			case invPhi:
				return 1, true
			}
			if iterCounter(ph) {
				return 1, true
			}
			return 0, false
		}, 0)
		if !ok1 || !ok2 {
			okFold = false
		}
		total1 += x
		total2 += y
	}
	r.Check("findBug#seed-step", v.seedSite.Instr.Pos(), okFold && total1 > 0 && total2 > 0,
		"after one completed test case (valid or invalid) the seed increment is positive: consecutive test cases get different seeds",
		fmt.Sprintf("the seed increment after one valid / one invalid test case folds to %d / %d (foldable=%v): test cases of a run repeat the same seed", total1, total2, okFold))
}

// evalWithPhis folds an integer expression with phis valued by f.
func (p *Program) evalWithPhis(v ssa.Value, f func(*ssa.Phi) (int64, bool), depth int) (int64, bool) {
	if depth > 12 {
		return 0, false
	}
	v = p.stripConv(v)
	switch x := v.(type) {
	case *ssa.Const:
		return constInt(x)
	case *ssa.Phi:
		return f(x)
	case *ssa.BinOp:
		a, ok1 := p.evalWithPhis(x.X, f, depth+1)
		b, ok2 := p.evalWithPhis(x.Y, f, depth+1)
		if !ok1 || !ok2 {
			return 0, false
		}
		switch x.Op {
		case token.ADD:
			return a + b, true
		case token.SUB:
			return a - b, true
		case token.MUL:
			return a * b, true
		}
	}
	return 0, false
}

// isLocalFieldLoad: v loads a field of a struct held in a local cell.
func isLocalFieldLoad(v ssa.Value) bool {
	u, ok := v.(*ssa.UnOp)
	if !ok || u.Op != token.MUL {
		return false
	}
	fa, ok := u.X.(*ssa.FieldAddr)
	if !ok {
		return false
	}
	_, isAlloc := fa.X.(*ssa.Alloc)
	return isAlloc
}

// findBugCounters identifies the loop counters of findBug by the results they are returned as: (valid, invalid, …).
func findBugCounters(p *Program, v *findBugView) (valid, invalid *ssa.Phi) {
	for _, ret := range returnsOf(v.fn) {
		if p.nres(ret) < 2 {
			continue
		}
		if ph, ok := p.resolve(p.res(ret, 0)).(*ssa.Phi); ok && ph.Block() == v.loop.Header {
			valid = ph
		}
		if ph, ok := p.resolve(p.res(ret, 1)).(*ssa.Phi); ok && ph.Block() == v.loop.Header {
			invalid = ph
		}
	}
	return
}

// expandDNF rewrites a conjunction of guards into a disjunction of conjunctions in which no guard is a boolean phi.
func (p *Program) expandDNF(conds []edgeCond) [][]edgeCond {
	out := [][]edgeCond{{}}
	for _, c := range conds {
		alts, ok := p.boolPhiAlternatives(c.cond, c.pol, 0)
		if !ok {
			alts = [][]edgeCond{{c}}
		}
		var next [][]edgeCond
		for _, pre := range out {
			for _, a := range alts {
				next = append(next, append(append([]edgeCond{}, pre...), a...))
			}
		}
		out = next
		if len(out) > 64 {
			return [][]edgeCond{conds}
		}
	}
	return out
}

// boolPhiAlternatives: cond is a phi of booleans built by short-circuit evaluation (a && b && …, a || b || …). Returns
// the ways in which it can take the value pol, each as a conjunction of branch decisions. ok=false for anything else.
func (p *Program) boolPhiAlternatives(cond ssa.Value, pol bool, d int) ([][]edgeCond, bool) {
	for i := 0; i < 4; i++ {
		c := p.resolve(cond)
		if u, ok := c.(*ssa.UnOp); ok && u.Op == token.NOT {
			cond, pol = u.X, !pol
			continue
		}
		cond = c
		break
	}
	ph, ok := cond.(*ssa.Phi)
	if !ok || d > 3 {
		return nil, false
	}
	if bt, ok := ph.Type().Underlying().(*types.Basic); !ok || bt.Kind() != types.Bool {
		return nil, false
	}
	// the decision that leads to each edge: the terminating If of the predecessor (constant edges), ordered by dominance
	type edgeInfo struct {
		val   ssa.Value
		isC   bool
		cv    bool
		pred  *ssa.BasicBlock
		iff   *ssa.If
		taken bool // polarity of iff's condition on the edge into the phi block
	}
	var es []edgeInfo
	for i, e := range ph.Edges {
		pred := ph.Block().Preds[i]
		ei := edgeInfo{val: e, pred: pred}
		ei.cv, ei.isC = constBool(p.resolve(e))
		if iff, ok := pred.Instrs[len(pred.Instrs)-1].(*ssa.If); ok && pred.Succs[0] != pred.Succs[1] {
			ei.iff, ei.taken = iff, pred.Succs[0] == ph.Block()
		}
		es = append(es, ei)
	}
	sort.SliceStable(es, func(i, j int) bool { return es[i].pred.Dominates(es[j].pred) && es[i].pred != es[j].pred })
	var out [][]edgeCond
	var prefix []edgeCond // decisions that lead past the earlier edges
	for k, e := range es {
		last := k == len(es)-1
		if !last && (!e.isC || e.iff == nil) {
			return nil, false
		}
		if !last {
			if e.cv == pol {
				out = append(out, append(append([]edgeCond{}, prefix...), edgeCond{e.iff.Cond, e.taken}))
			}
			prefix = append(prefix, edgeCond{e.iff.Cond, !e.taken})
			continue
		}
		// the last operand
		if e.isC {
			if e.cv == pol {
				out = append(out, append([]edgeCond{}, prefix...))
			}
			continue
		}
		sub, ok := p.boolPhiAlternatives(e.val, pol, d+1)
		if !ok {
			sub = [][]edgeCond{{{e.val, pol}}}
		}
		for _, sc := range sub {
			out = append(out, append(append([]edgeCond{}, prefix...), sc...))
		}
	}
	return out, len(out) > 0
}

// ruleC18R5: genUfloatRange draws r = genUintNNoReject(s, maxR) and then clears (at most) the low maxR - r bits of the
// fraction. Every fraction of [sfMin, sfMax] stays reachable only if the loop can run zero times, i.e. its iteration
// count is A - r for the same A that bounds r. A larger constant part always clears some bits: most interior values
// of a narrow range can never be produced.
func ruleC18R5(r *Run) {
	p := r.P
	fn := r.MustFn("genUfloatRange")
	if fn == nil {
		return
	}
	rcs := p.callsTo(fn, "genUintNNoReject")
	if len(rcs) != 1 {
		r.Undecided("genUfloatRange#trim-count", fn.Pos(), fmt.Sprintf("expected one genUintNNoReject call (the number of kept trailing bits), found %d", len(rcs)))
		return
	}
	rc := rcs[0]
	A := p.stripConv(rc.Arg(1))
	isR := func(v ssa.Value) bool { return p.stripConv(v) == rc.Value() }
	isA := func(v ssa.Value) bool { return p.stripConv(v) == A || p.same(p.stripConv(v), A) }
	n := 0
	// the loops of genUfloatRange and of the helpers inlined into it
	var loops []*loopInfo
	seenFn := map[*ssa.Function]bool{}
	for _, b := range p.body(fn) {
		if f := b.Parent(); !seenFn[f] {
			seenFn[f] = true
			loops = append(loops, loopsOf(f)...)
		}
	}
	for _, l := range loops {
		if !dominates(rc.Instr, l.Header.Instrs[len(l.Header.Instrs)-1]) {
			continue
		}
		// counted loop: phi from init, exit on phi < bound
		for _, in := range l.Header.Instrs {
			ph, ok := in.(*ssa.Phi)
			if !ok {
				break
			}
			var init ssa.Value
			step := false
			for k, e := range ph.Edges {
				if l.Header.Dominates(l.Header.Preds[k]) {
					step = step || isIncrementOf(p, p.stripConv(e), ph)
				} else {
					init = e
				}
			}
			iff, isIf := l.Header.Instrs[len(l.Header.Instrs)-1].(*ssa.If)
			if !step || init == nil || !isIf {
				continue
			}
			bo, ok := p.resolve(iff.Cond).(*ssa.BinOp)
			if !ok {
				continue
			}
			var bound ssa.Value
			switch {
			case bo.Op == token.LSS && p.stripConv(bo.X) == ssa.Value(ph):
				bound = bo.Y
			case bo.Op == token.GTR && p.stripConv(bo.Y) == ssa.Value(ph):
				bound = bo.X
			default:
				continue
			}
			var uses func(v ssa.Value, d int) bool
			uses = func(v ssa.Value, d int) bool {
				if d > 5 || v == nil {
					return false
				}
				v = p.stripConv(v)
				if v == rc.Value() {
					return true
				}
				if b2, ok := v.(*ssa.BinOp); ok {
					return uses(b2.X, d+1) || uses(b2.Y, d+1)
				}
				return false
			}
			mentions := uses(bound, 0) || uses(init, 0)
			if !mentions {
				continue
			}
			n++
			okCount := false
			if c, isC := constInt(p.stripConv(init)); isC && c == 0 {
				if sub, ok := p.stripConv(bound).(*ssa.BinOp); ok && sub.Op == token.SUB && isA(sub.X) && isR(sub.Y) {
					okCount = true
				}
			}
			if isR(init) && isA(bound) {
				okCount = true
			}
			r.Check("genUfloatRange#trim-count", iff.Pos(), okCount, "the trailing-bit loop runs A - r times for r drawn from 0..A: it can run zero times", "the loop that clears trailing fraction bits runs from "+p.expr(init)+" to "+p.expr(bound)+", which is not A - r for the bound A = "+p.expr(A)+" of r: some low bits are always cleared and most values of a narrow float range can never be generated")
		}
	}
	if n == 0 {
		r.Undecided("genUfloatRange#trim-count", rc.Instr.Pos(), "no counted loop bounded by the drawn number of kept bits was found after genUintNNoReject")
	}
}

// sameFieldOfSameValue: a and b read the same field of the same struct value.
func sameFieldOfSameValue(p *Program, a, b ssa.Value) bool {
	fa, ok1 := p.resolve(a).(*ssa.Field)
	fb, ok2 := p.resolve(b).(*ssa.Field)
	return ok1 && ok2 && fa.Field == fb.Field && fa.X == fb.X
}

// boundPartIndex: v is (a phi of) result #idx of ufloat32Parts/ufloat64Parts applied to the given bound parameter.
func boundPartIndex(p *Program, v ssa.Value, bound string, d int) (int, bool) {
	if d > 6 {
		return 0, false
	}
	v = p.resolve(v)
	merge := func(vs []ssa.Value) (int, bool) {
		idx := -1
		for _, e := range vs {
			k, ok := boundPartIndex(p, e, bound, d+1)
			if !ok || (idx >= 0 && k != idx) {
				return 0, false
			}
			idx = k
		}
		return idx, idx >= 0
	}
	switch x := v.(type) {
	case *ssa.UnOp:
		if fa, ok := x.X.(*ssa.FieldAddr); ok && x.Op == token.MUL {
			if srcs, ok := p.fieldSources(fa, 0); ok {
				return merge(srcs)
			}
		}
	case *ssa.Field:
		if srcs, ok := p.fieldOfValue(x.X, x.Field, 0); ok {
			return merge(srcs)
		}
	case *ssa.Phi:
		return merge(x.Edges)
	case *ssa.Extract:
		c, ok := x.Tuple.(*ssa.Call)
		if !ok {
			return 0, false
		}
		if k := p.calleeKey(c.Common()); k != "ufloat32Parts" && k != "ufloat64Parts" {
			if h := transparentCallee(c); h != nil {
				var vs []ssa.Value
				for _, ret := range returnsOf(h) {
					if x.Index >= len(ret.Results) {
						return 0, false
					}
					vs = append(vs, p.res(ret, x.Index))
				}
				return merge(vs)
			}
			return 0, false
		}
		if p.expr(p.stripConv(c.Common().Args[0])) == bound {
			return x.Index, true
		}
	}
	return 0, false
}

func ruleC18R6(r *Run) {
	p := r.P
	fn := r.MustFn("genUfloatRange")
	if fn == nil {
		return
	}
	gir := p.callsTo(fn, "genIntRange")
	draws := p.callsTo(fn, "genUintRange")
	if len(gir) != 1 || len(draws) != 2 {
		r.Undecided("genUfloatRange#parts", fn.Pos(), fmt.Sprintf("expected one exponent draw (genIntRange) and two significand draws (genUintRange), found %d and %d", len(gir), len(draws)))
		return
	}
	if dominates(draws[1].Instr, draws[0].Instr) {
		draws[0], draws[1] = draws[1], draws[0]
	}
	isResult := func(v ssa.Value, call ssa.Value, idx int) bool {
		v = p.stripConv(p.resolve(v))
		if e, ok := v.(*ssa.Extract); ok {
			return e.Tuple == call && e.Index == idx
		}
		return false
	}
	isPart := func(bound string, idx int) func(ssa.Value) bool {
		return func(v ssa.Value) bool {
			k, ok := boundPartIndex(p, p.stripConv(p.resolve(v)), bound, 0)
			return ok && k == idx
		}
	}
	isE := func(v ssa.Value) bool { return isResult(v, gir[0].Value(), 0) }
	isSI := func(v ssa.Value) bool { return isResult(v, draws[0].Value(), 0) }
	type edge struct {
		lo, hi ssa.Value
		guards []guard
		pos    token.Pos
	}
	nEdges := 0
	for k, cs := range draws {
		var edges []edge
		lo, okL := p.resolve(cs.Arg(1)).(*ssa.Phi)
		hi, okH := p.resolve(cs.Arg(2)).(*ssa.Phi)
		if okL && okH && lo.Block() == hi.Block() {
			for i, pred := range lo.Block().Preds {
				gs := guardsOf(pred)
				if iff, ok := pred.Instrs[len(pred.Instrs)-1].(*ssa.If); ok && pred.Succs[0] != pred.Succs[1] {
					g := guard{Cond: iff.Cond, Pol: pred.Succs[0] == lo.Block(), If: iff}
					if ex, ok := expandBoolGuard(g, 0); ok {
						gs = append(gs, ex...)
					} else {
						gs = append(gs, g)
					}
				}
				edges = append(edges, edge{lo.Edges[i], hi.Edges[i], gs, pred.Instrs[len(pred.Instrs)-1].Pos()})
			}
		} else if e1, ok1 := cs.Arg(1).(*ssa.Extract); ok1 {
			if e2, ok2 := cs.Arg(2).(*ssa.Extract); ok2 && e1.Tuple == e2.Tuple {
				if c, ok := e1.Tuple.(*ssa.Call); ok {
					if h := transparentCallee(c); h != nil {
						for _, ret := range returnsOf(h) {
							if e1.Index < len(ret.Results) && e2.Index < len(ret.Results) {
								edges = append(edges, edge{p.res(ret, e1.Index), p.res(ret, e2.Index), guardsOf(ret.Block()), ret.Pos()})
							}
						}
					}
				}
			}
		}
		if len(edges) == 0 {
			r.Undecided(fmt.Sprintf("genUfloatRange#bounds[%d]", k), cs.Instr.Pos(), "the range of this significand draw is neither a pair of phis nor the result pair of an inlined helper")
			continue
		}
		for _, e := range edges {
			nEdges++
			if !e.pos.IsValid() {
				e.pos = cs.Instr.Pos()
			}
			// equalities and flags established on this edge
			eq := func(a, b func(ssa.Value) bool) bool {
				for _, g := range e.guards {
					c, pol := g.Cond, g.Pol
					for {
						u, ok := p.resolve(c).(*ssa.UnOp)
						if !ok || u.Op != token.NOT {
							break
						}
						c, pol = u.X, !pol
					}
					bo, ok := p.resolve(c).(*ssa.BinOp)
					if !ok || !((bo.Op == token.EQL && pol) || (bo.Op == token.NEQ && !pol)) {
						continue
					}
					if (a(bo.X) && b(bo.Y)) || (a(bo.Y) && b(bo.X)) {
						return true
					}
				}
				return false
			}
			flag := func(idx int) bool {
				for _, g := range e.guards {
					c, pol := g.Cond, g.Pol
					for {
						u, ok := p.resolve(c).(*ssa.UnOp)
						if !ok || u.Op != token.NOT {
							break
						}
						c, pol = u.X, !pol
					}
					if pol && isResult(c, gir[0].Value(), idx) {
						return true
					}
				}
				return false
			}
			for side, bound := range []string{"$min", "$max"} {
				v := []ssa.Value{e.lo, e.hi}[side]
				part, ok := boundPartIndex(p, p.stripConv(p.resolve(v)), bound, 0)
				if !ok {
					continue // not restricted by this bound on this edge
				}
				what := []string{"lower", "upper"}[side]
				construct := fmt.Sprintf("genUfloatRange#%s-bound[%d]", what, k)
				if flag(1 + side) {
					r.OK(construct, e.pos, "exponent overflow: pinned to the bound (C18-R4)")
					continue
				}
				sameExp := eq(isPart("$min", 0), isPart("$max", 0))
				ePinned := eq(isE, isPart(bound, 0)) || sameExp
				okPinned := ePinned && part == k+1
				if k == 1 {
					siPinned := eq(isSI, isPart(bound, 1)) || (sameExp && eq(isPart("$min", 1), isPart("$max", 1)))
					okPinned = okPinned && siPinned
				}
				r.Check(construct, e.pos, okPinned, "the "+what+" bound's part restricts this draw only where all higher-order parts equal the bound's", fmt.Sprintf("the %s limit of significand draw #%d is taken from %s (%s) on an edge where the higher-order parts are not all pinned to that bound (exponent pinned: %v): floats of the range whose higher-order part is strictly inside and whose lower-order part is beyond the bound's are never generated", what, k+1, bound[1:], p.expr(v), ePinned))
			}
		}
	}
	r.Floor("edges of the significand ranges of genUfloatRange", nEdges, 8)
}
