package main

import (
	"fmt"
	"go/ast"
	"go/token"
	"go/types"
	"os"
	"sort"
	"strings"

	"golang.org/x/tools/go/callgraph"
	"golang.org/x/tools/go/callgraph/cha"
	"golang.org/x/tools/go/callgraph/vta"
	"golang.org/x/tools/go/packages"
	"golang.org/x/tools/go/ssa"
	"golang.org/x/tools/go/ssa/ssautil"
)

const rapidPath = "pgregory.net/rapid"

// Program is the type-checked, SSA-built view of one build configuration of the
// repository under analysis.
type Program struct {
	Dir    string
	GOOS   string
	GOARCH string

	Fset  *token.FileSet
	Pkg   *packages.Package
	Types *types.Package
	Info  *types.Info
	Files []*ast.File
	Prog  *ssa.Program
	SPkg  *ssa.Package

	// all source-level functions of the package (incl. anonymous ones and methods),
	// keyed by RelString ("checkOnce", "(*T).cleanup", "checkOnce$1", "(*customGen[V]).maybeValue")
	Funcs     map[string]*ssa.Function
	FuncList  []*ssa.Function // host functions: all source functions except transparent helpers (see transparent.go)
	AllFuncs  []*ssa.Function // every source function, helpers included
	NumInstrs int

	Cloned []string // helpers with several call sites that were cloned per call site (clone.go)

	callers map[*ssa.Function]*callerInfo
	// virtual result vectors of helper returns that a host return partly forwards (see returnsOf)
	retOverride map[*ssa.Return][]ssa.Value
	inOverride  bool
	retOwner    map[*ssa.Return]*ssa.Return
	transp      map[*ssa.Function]bool

	useVTA     bool
	cg         *callgraph.Graph
	enums      map[string][]enumAlt // results of enum-valued classification helpers (ssax.go: noteEnum)
	inNoteEnum bool

	cells map[*ssa.Alloc]*cellInfo
	binds map[*ssa.FreeVar]ssa.Value
	binit bool
}

func loadProgram(dir, goos, goarch string, useVTA bool) (*Program, error) {
	env := os.Environ()
	filtered := env[:0:0]
	for _, e := range env {
		if strings.HasPrefix(e, "GOWORK=") || strings.HasPrefix(e, "GOOS=") || strings.HasPrefix(e, "GOARCH=") ||
			strings.HasPrefix(e, "GOFLAGS=") || strings.HasPrefix(e, "GOPROXY=") || strings.HasPrefix(e, "GOSUMDB=") ||
			strings.HasPrefix(e, "GOTOOLCHAIN=") || strings.HasPrefix(e, "CGO_ENABLED=") {
			continue
		}
		filtered = append(filtered, e)
	}
	filtered = append(filtered, "GOWORK=off", "GOFLAGS=-mod=mod", "GOPROXY=off", "GOSUMDB=off", "GOTOOLCHAIN=local", "CGO_ENABLED=0")
	if goos != "" {
		filtered = append(filtered, "GOOS="+goos)
	}
	if goarch != "" {
		filtered = append(filtered, "GOARCH="+goarch)
	}
	var overlay map[string][]byte
	var cloned []string
	var pkgs []*packages.Package
	var root *packages.Package
	for round := 0; ; round++ {
		cfg := &packages.Config{
			Mode:    packages.LoadAllSyntax | packages.NeedModule,
			Dir:     dir,
			Env:     filtered,
			Tests:   false,
			Overlay: overlay,
		}
		var err error
		pkgs, err = packages.Load(cfg, ".")
		if err != nil {
			return nil, fmt.Errorf("packages.Load: %w", err)
		}
		if len(pkgs) != 1 {
			return nil, fmt.Errorf("expected exactly 1 root package, got %d", len(pkgs))
		}
		root = pkgs[0]
		var errs []string
		packages.Visit(pkgs, nil, func(p *packages.Package) {
			for _, e := range p.Errors {
				errs = append(errs, e.Error())
			}
		})
		if len(errs) > 0 {
			if round > 0 {
				return nil, fmt.Errorf("load/type errors after cloning %v: %s", cloned, strings.Join(errs, "; "))
			}
			return nil, fmt.Errorf("load/type errors: %s", strings.Join(errs, "; "))
		}
		if root.PkgPath != rapidPath {
			return nil, fmt.Errorf("root package is %q, want %q", root.PkgPath, rapidPath)
		}
		if root.Types == nil || root.TypesInfo == nil || len(root.Syntax) == 0 {
			return nil, fmt.Errorf("root package has no type information / syntax")
		}
		if round >= 3 {
			break
		}
		// helpers shared by several call sites get one copy per call site (clone.go)
		next, names := cloneOverlay(root, overlay)
		if next == nil {
			break
		}
		overlay = next
		cloned = append(cloned, names...)
	}

	prog, spkgs := ssautil.AllPackages(pkgs, ssa.BuilderMode(0))
	prog.Build()
	var spkg *ssa.Package
	for i, p := range pkgs {
		if p == root {
			spkg = spkgs[i]
		}
	}
	if spkg == nil {
		return nil, fmt.Errorf("no SSA package for root")
	}

	p := &Program{
		Dir: dir, GOOS: goos, GOARCH: goarch,
		Fset: root.Fset, Pkg: root, Types: root.Types, Info: root.TypesInfo, Files: root.Syntax,
		Prog: prog, SPkg: spkg,
		Funcs:       map[string]*ssa.Function{},
		useVTA:      useVTA,
		Cloned:      cloned,
		cells:       map[*ssa.Alloc]*cellInfo{},
		binds:       map[*ssa.FreeVar]ssa.Value{},
		transp:      map[*ssa.Function]bool{},
		retOverride: map[*ssa.Return][]ssa.Value{},
		retOwner:    map[*ssa.Return]*ssa.Return{},
	}

	// collect source functions of the root package: members, methods of named types, and their anonymous functions
	var add func(fn *ssa.Function)
	add = func(fn *ssa.Function) {
		if fn == nil || fn.Blocks == nil {
			return
		}
		name := fn.RelString(spkg.Pkg)
		if _, dup := p.Funcs[name]; dup {
			return
		}
		p.Funcs[name] = fn
		p.FuncList = append(p.FuncList, fn)
		for _, b := range fn.Blocks {
			p.NumInstrs += len(b.Instrs)
		}
		for _, an := range fn.AnonFuncs {
			add(an)
		}
	}
	for _, m := range spkg.Members {
		switch m := m.(type) {
		case *ssa.Function:
			add(m)
		case *ssa.Type:
			nt, ok := m.Type().(*types.Named)
			if !ok {
				continue
			}
			for i := 0; i < nt.NumMethods(); i++ {
				add(prog.FuncValue(nt.Method(i)))
			}
		}
	}
	sort.Slice(p.FuncList, func(i, j int) bool { return p.FuncList[i].Pos() < p.FuncList[j].Pos() })
	p.AllFuncs = p.FuncList
	p.FuncList = nil
	for _, fn := range p.AllFuncs {
		if !p.transparent(fn) {
			p.FuncList = append(p.FuncList, fn)
		}
	}
	if len(p.FuncList) < 300 {
		return nil, fmt.Errorf("only %d source functions found (floor 300): incomplete load", len(p.FuncList))
	}
	return p, nil
}

// CallGraph builds (once) the call graph: CHA, refined by VTA if requested.
func (p *Program) CallGraph() *callgraph.Graph {
	if p.cg != nil {
		return p.cg
	}
	g := cha.CallGraph(p.Prog)
	if p.useVTA {
		g = vta.CallGraph(ssautil.AllFunctions(p.Prog), g)
	}
	p.cg = g
	return g
}

func (p *Program) pos(pos token.Pos) string {
	if !pos.IsValid() {
		return "-"
	}
	ps := p.Fset.Position(pos)
	fn := ps.Filename
	if i := strings.LastIndex(fn, "/"); i >= 0 {
		fn = fn[i+1:]
	}
	return fmt.Sprintf("%s:%d", fn, ps.Line)
}

// inRapid reports whether fn is defined in the package under analysis (following instantiation origins).
func (p *Program) inRapid(fn *ssa.Function) bool {
	if fn == nil {
		return false
	}
	if o := fn.Origin(); o != nil {
		fn = o
	}
	for fn.Parent() != nil {
		fn = fn.Parent()
	}
	if fn.Pkg == nil && fn.Object() != nil {
		return fn.Object().Pkg() == p.Types // synthetic wrappers (bound methods, thunks)
	}
	return fn.Pkg == p.SPkg
}
