package main

import (
	"fmt"
	"go/ast"
	"go/parser"
	"go/token"
	"go/types"

	"golang.org/x/tools/go/packages"
	"golang.org/x/tools/go/ssa"
	"golang.org/x/tools/go/ssa/ssautil"
)

// Zero-expected rules ("no go statement", "no store to a generator field") pass vacuously if their
// matcher is broken. Each carries a tiny embedded positive example that is type-checked and built
// to SSA on every run (importing from the already loaded dependency graph) and must be matched.

type depImporter struct{ byPath map[string]*types.Package }

func (d depImporter) Import(path string) (*types.Package, error) {
	if p, ok := d.byPath[path]; ok {
		return p, nil
	}
	return nil, fmt.Errorf("package %q is not in the dependency graph of the analysed package", path)
}

func (p *Program) miniProgram(src string) (*Program, error) {
	fset := token.NewFileSet()
	f, err := parser.ParseFile(fset, "positive.go", src, 0)
	if err != nil {
		return nil, err
	}
	by := map[string]*types.Package{}
	packages.Visit([]*packages.Package{p.Pkg}, nil, func(pk *packages.Package) {
		if pk.Types != nil {
			by[pk.PkgPath] = pk.Types
		}
	})
	tpkg := types.NewPackage("positive", f.Name.Name)
	spkg, info, err := ssautil.BuildPackage(&types.Config{Importer: depImporter{by}}, fset, tpkg, []*ast.File{f}, ssa.BuilderMode(0))
	if err != nil {
		return nil, err
	}
	q := &Program{Fset: fset, Types: tpkg, Info: info, Files: []*ast.File{f}, Prog: spkg.Prog, SPkg: spkg,
		Funcs: map[string]*ssa.Function{}, cells: map[*ssa.Alloc]*cellInfo{}, binds: map[*ssa.FreeVar]ssa.Value{}, transp: map[*ssa.Function]bool{}, retOverride: map[*ssa.Return][]ssa.Value{}, retOwner: map[*ssa.Return]*ssa.Return{}, GOOS: p.GOOS, GOARCH: p.GOARCH}
	var add func(fn *ssa.Function)
	add = func(fn *ssa.Function) {
		if fn == nil || fn.Blocks == nil {
			return
		}
		q.Funcs[fn.RelString(spkg.Pkg)] = fn
		q.FuncList = append(q.FuncList, fn)
		for _, an := range fn.AnonFuncs {
			add(an)
		}
	}
	for _, m := range spkg.Members {
		switch m := m.(type) {
		case *ssa.Function:
			add(m)
		case *ssa.Type:
			if nt, ok := m.Type().(*types.Named); ok {
				for i := 0; i < nt.NumMethods(); i++ {
					add(spkg.Prog.FuncValue(nt.Method(i)))
				}
			}
		}
	}
	q.AllFuncs = q.FuncList
	return q, nil
}

// positiveExample records an obligation that the matcher of a zero-expected rule fires on a known positive.
func (r *Run) positiveExample(name, src string, count func(q *Program) int) {
	q, err := r.P.miniProgram(src)
	if err != nil {
		r.Undecided("positive-example:"+name, token.NoPos, "cannot build the embedded positive example: "+err.Error())
		return
	}
	saved := activeProg
	activeProg = q
	n := count(q)
	activeProg = saved
	if n > 0 {
		r.OK("positive-example:"+name, token.NoPos, fmt.Sprintf("the matcher fires on the embedded positive example (%d matches)", n))
	} else {
		r.Undecided("positive-example:"+name, token.NoPos, "the matcher of this zero-expected rule does not fire on its embedded positive example: the rule would pass vacuously")
	}
}
