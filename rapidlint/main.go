// rapidlint decides structural clauses of the semantic properties C01..C18 of
// pgregory.net/rapid by static analysis of the type-checked program and its SSA form.
// Nothing of the analysed repository is executed.
package main

import (
	"flag"
	"fmt"
	"os"
	"sort"
	"strconv"
	"strings"
	"sync"
	"time"
)

var registry = map[string]func() *propertySpec{}

func register(id string, f func() *propertySpec) { registry[id] = f }

type buildConfig struct{ goos, goarch string }

var quickConfigs = []buildConfig{{"linux", "amd64"}}
var thoroughConfigs = []buildConfig{
	{"linux", "amd64"}, {"linux", "386"}, {"linux", "arm64"},
	{"windows", "amd64"}, {"windows", "386"},
	{"darwin", "amd64"}, {"darwin", "arm64"},
}

func main() {
	var (
		repo     = flag.String("repo", "/repo", "repository to analyse (current working tree)")
		property = flag.String("property", "", "property id (C01..C18) or 'all'")
		tier     = flag.String("tier", "", "quick | thorough (default: $VERIF_TIER or quick)")
		evPath   = flag.String("evidence", "", "evidence file to write (for 'all': directory)")
		knownP   = flag.String("known", "", "known-findings file")
		explain  = flag.String("explain", "", "pretty-print a violations file")
		dump     = flag.String("dump", "", "debug: dump rendered SSA of the named function")
		selftest = flag.String("selftest", "", "directory with the self-test catalogue (thorough tier runs it when set)")
		list     = flag.Bool("list", false, "list properties and rules")
		stOnly   = flag.Bool("selftest-only", false, "run only the self-test catalogue for the property (or all) and print the outcome")
	)
	flag.Parse()

	if *explain != "" {
		b, err := os.ReadFile(*explain)
		if err != nil {
			fmt.Println(err)
			os.Exit(2)
		}
		fmt.Println(string(b))
		return
	}
	if *tier == "" {
		*tier = os.Getenv("VERIF_TIER")
	}
	if *tier != "thorough" {
		*tier = "quick"
	}
	seed, _ := strconv.ParseInt(os.Getenv("VERIF_SEED"), 10, 64)

	if *list {
		var ids []string
		for id := range registry {
			ids = append(ids, id)
		}
		sort.Strings(ids)
		for _, id := range ids {
			s := registry[id]()
			fmt.Printf("%s: %s\n", id, s.Explanation)
			for _, r := range s.Rules {
				fmt.Printf("   %s — %s\n", r.ID, r.Text)
			}
		}
		return
	}

	if *dump != "" {
		p, err := loadProgram(*repo, "linux", "amd64", true)
		if err != nil {
			fmt.Println(err)
			os.Exit(2)
		}
		activeProg = p
		if *dump == "transparent" {
			debugTransparent(p)
			return
		}
		if strings.HasPrefix(*dump, "closure:") {
			debugClosure(p, newRun(p, "dbg", "quick"), strings.Split(strings.TrimPrefix(*dump, "closure:"), ","))
			return
		}
		dumpFunc(p, *dump)
		return
	}

	var ids []string
	if *property == "all" {
		for id := range registry {
			ids = append(ids, id)
		}
		sort.Strings(ids)
	} else if _, ok := registry[*property]; ok {
		ids = []string{*property}
	} else {
		fmt.Printf("unknown property %q\n", *property)
		os.Exit(2)
	}

	if *stOnly {
		bad := 0
		for _, id := range ids {
			st := runSelfTest(*repo, *selftest, id, *knownP)
			fmt.Printf("%s selftest: run=%v skipped=%v fired=%v silent=%v failures=%v\n", id, st.Summary["mutants_run"], st.Summary["skipped"], st.Summary["reported_as_expected"], st.Summary["silent_as_expected"], len(st.Failures))
			if ds, ok := st.Summary["details"].([]map[string]any); ok {
				for _, d := range ds {
					if r := fmt.Sprint(d["result"]); strings.HasPrefix(r, "FAILED") || strings.HasPrefix(r, "selftest-skipped") {
						fmt.Printf("   %v: %v\n", d["mutation"], r)
					}
				}
			}
			bad += len(st.Failures)
		}
		if bad > 0 {
			os.Exit(1)
		}
		return
	}

	known, err := loadKnown(*knownP)
	if err != nil {
		fmt.Printf("cannot read known findings: %v\n", err)
		os.Exit(2)
	}

	started := time.Now()
	configs := quickConfigs
	if *tier == "thorough" {
		configs = thoroughConfigs
	}
	cmdline := "rapidlint " + strings.Join(os.Args[1:], " ")

	// load every configuration (in parallel)
	progs := make([]*Program, len(configs))
	errs := make([]error, len(configs))
	var wg sync.WaitGroup
	for i, c := range configs {
		wg.Add(1)
		go func(i int, c buildConfig) {
			defer wg.Done()
			progs[i], errs[i] = loadProgram(*repo, c.goos, c.goarch, true)
		}(i, c)
	}
	wg.Wait()

	exit := 0
	for _, id := range ids {
		spec := registry[id]()
		t0 := time.Now()
		if len(ids) == 1 {
			t0 = started
		}
		var runs []*Run
		for i, c := range configs {
			if errs[i] != nil {
				r := newRun(nil, id, *tier)
				r.Rule(id+"-LOAD", "the repository loads and type-checks under every analysed build configuration")
				r.Obs = append(r.Obs, &Obligation{Key: id + "-LOAD:" + c.goos + "/" + c.goarch, Rule: id + "-LOAD", Pos: "-", Status: Undecided,
					Detail: "cannot load/type-check: " + errs[i].Error(), Config: c.goos + "/" + c.goarch})
				runs = append(runs, r)
				continue
			}
			r := newRun(progs[i], id, *tier)
			activeProg = progs[i]
			for _, rule := range spec.Rules {
				rule := rule
				r.guarded(rule.ID, func() {
					r.Rule(rule.ID, rule.Text)
					rule.Run(r)
				})
			}
			if i > 0 {
				// other configurations: keep only obligations that differ from the first configuration or are not discharged
				r.Obs = dedupeAgainst(runs[0], r)
			}
			runs = append(runs, r)
		}
		extra := map[string]any{}
		// helpers the rules looked through (new functions not among the anchors of known_funcs.txt)
		for _, pr := range progs {
			if pr == nil {
				continue
			}
			var inl []string
			for _, fn := range pr.AllFuncs {
				if pr.transparent(fn) {
					inl = append(inl, pr.fnName(fn)+" (inlined into "+pr.hostName(fn)+")")
				}
			}
			if inl == nil {
				inl = []string{}
			}
			cl := pr.Cloned
			if cl == nil {
				cl = []string{}
			}
			extra["helpers_analysed_inlined"] = inl
			extra["helpers_cloned_per_call_site"] = cl
			break
		}
		if *tier == "thorough" && *selftest != "" {
			st := runSelfTest(*repo, *selftest, id, *knownP)
			extra["selftest"] = st.Summary
			if len(st.Failures) > 0 {
				r := newRun(nil, id, *tier)
				r.Rule(id+"-SELFTEST", "checker self-test: catalogued mutations must be reported, behaviour-preserving variants must stay silent")
				for _, f := range st.Failures {
					r.Obs = append(r.Obs, &Obligation{Key: id + "-SELFTEST:" + f.Name, Rule: id + "-SELFTEST", Pos: "-", Status: Undecided, Detail: f.Detail})
				}
				runs = append(runs, r)
			}
		}
		ev := *evPath
		if len(ids) > 1 && ev != "" {
			ev = strings.TrimSuffix(ev, "/") + "/" + id + ".json"
		}
		code := finish(spec, runs, *tier, seed, known, ev, t0, extra, cmdline)
		if code > exit {
			exit = code
		}
	}
	os.Exit(exit)
}

// dedupeAgainst drops from r the obligations that have the same key, status and detail as in base
// (so that multi-configuration evidence lists only what the configuration changes), but keeps a count.
func dedupeAgainst(base, r *Run) []*Obligation {
	seen := map[string]*Obligation{}
	for _, o := range base.Obs {
		seen[o.Key] = o
	}
	var out []*Obligation
	same := 0
	for _, o := range r.Obs {
		if b, ok := seen[o.Key]; ok && b.Status == o.Status && o.Status == Discharged {
			same++
			continue
		}
		out = append(out, o)
	}
	cfg := r.P.GOOS + "/" + r.P.GOARCH
	out = append(out, &Obligation{Key: r.Property + "-CONFIG:" + cfg, Rule: r.Property + "-CONFIG", Pos: "-", Status: Discharged,
		Detail: fmt.Sprintf("%d obligations re-evaluated under %s with the same verdict as linux/amd64 (not listed again)", same, cfg), Config: cfg})
	return out
}
