package main

import (
	"fmt"
	"sort"
	"strings"

	"golang.org/x/tools/go/ssa"
)

// dumpFunc prints the SSA of a function together with the canonical rendering and guard facts
// used by the rules (debugging aid for writing rules; not part of any check).
func dumpFunc(p *Program, name string) {
	if name == "?" {
		var names []string
		for k := range p.Funcs {
			names = append(names, normName(k))
		}
		sort.Strings(names)
		fmt.Println(strings.Join(names, "\n"))
		return
	}
	if strings.HasPrefix(name, "returns:") {
		fn := p.Fn(strings.TrimPrefix(name, "returns:"))
		if fn == nil {
			fmt.Println("no such function")
			return
		}
		for _, ret := range returnsOf(fn) {
			var rs []string
			for i := 0; i < p.nres(ret); i++ {
				rs = append(rs, p.expr(p.res(ret, i)))
			}
			fmt.Printf("%s in %s: %s\n   facts: %s\n", p.pos(ret.Pos()), p.fnName(ret.Parent()), strings.Join(rs, " | "), factsStr(p.facts(ret)))
		}
		return
	}
	if name == "params" {
		var lines []string
		for k, fn := range p.Funcs {
			l := normName(k)
			for _, q := range fn.Params {
				l += "\t" + q.Name()
			}
			lines = append(lines, l)
		}
		sort.Strings(lines)
		fmt.Println(strings.Join(lines, "\n"))
		return
	}
	fn := p.Fn(name)
	if fn == nil {
		fmt.Println("no such function; use -dump '?' to list")
		return
	}
	fmt.Printf("func %s  params=%v freevars=%v\n", p.fnName(fn), fn.Params, fn.FreeVars)
	for _, b := range fn.Blocks {
		var preds, succs []string
		for _, x := range b.Preds {
			preds = append(preds, fmt.Sprint(x.Index))
		}
		for _, x := range b.Succs {
			succs = append(succs, fmt.Sprint(x.Index))
		}
		var fs []string
		for _, g := range guardsOf(b) {
			fs = append(fs, p.relOf(g).String())
		}
		fmt.Printf("b%d (%s) preds=%v succs=%v facts={%s}\n", b.Index, b.Comment, preds, succs, strings.Join(fs, "; "))
		for _, in := range b.Instrs {
			switch x := in.(type) {
			case *ssa.DebugRef:
				continue
			case ssa.Value:
				fmt.Printf("    %-6s = %-40s   ⟦%s⟧  @%s\n", x.Name(), in.String(), p.expr(x), p.pos(in.Pos()))
			case *ssa.Store:
				fmt.Printf("    store %s <- %s   ⟦%s <- %s⟧\n", x.Addr.Name(), x.Val.Name(), p.expr(x.Addr), p.expr(x.Val))
			case *ssa.If:
				fmt.Printf("    if %s ⟦%s⟧\n", x.Cond.Name(), p.expr(x.Cond))
			case *ssa.Return:
				var rs []string
				for _, r := range x.Results {
					rs = append(rs, p.expr(r))
				}
				fmt.Printf("    return ⟦%s⟧\n", strings.Join(rs, " | "))
			case ssa.CallInstruction:
				fmt.Printf("    %s   ⟦%s⟧\n", in.String(), p.callStr(x.Common(), 6))
			default:
				fmt.Printf("    %s\n", in.String())
			}
		}
	}
	for _, an := range fn.AnonFuncs {
		fmt.Println()
		dumpFunc(p, p.fnName(an))
	}
}

func debugTransparent(p *Program) {
	for _, fn := range p.AllFuncs {
		if p.transparent(fn) {
			fmt.Println("transparent:", p.fnName(fn), "host:", p.hostName(fn))
		}
	}
}
