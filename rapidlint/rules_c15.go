package main

import (
	"fmt"
	"go/token"
	"go/types"
	"sort"
	"strings"

	"golang.org/x/tools/go/ssa"
)

func init() { register("C15", specC15) }

func specC15() *propertySpec {
	return &propertySpec{
		ID: "C15",
		Explanation: "Decides deep immutability after construction of every generator object and of the package-level data generators share, for all interleavings: every store to a field of " +
			"Generator, of a type implementing the generator interface (incl. embedded parts) or of loadedDie happens in the function that allocated the object, or inside the function passed to " +
			"Do of a sync.Once field of the same object; fields published that way are read only after a Do call on that Once (or inside it); nothing reachable from a value/String method stores " +
			"through a slice/map/pointer loaded from a generator field or a package-level variable; package-level variables are written only during package initialisation (flags: through the flag " +
			"package) or are sync.Map values used through their methods; draws read no other mutable shared state (C04 census). Not decided: user functions captured by Custom/Map/Filter.",
		Rules: []ruleSpec{
			{"C15-R1", "no-post-construction-store: generator fields are written only by the allocating function or inside Do of the object's own sync.Once", ruleC15R1},
			{"C15-R2", "once-publication: a field written inside Once.Do is read only after a Do call on the same Once (or inside the Do function); a value published through a package-level sync.Map (Store/LoadOrStore/Swap) is complete when it is published: nothing is stored into it afterwards", func(r *Run) { ruleC15R2(r); rulePublishComplete(r) }},
			{"C15-R3", "no-store-through-fields: nothing reachable from value/String stores through data loaded from a generator field or a package-level variable", ruleC15R3},
			{"C15-R4", "package-state: package-level variables are stored only during initialisation, or are sync.Map used through methods", ruleC15R4},
			{"C15-R5", "no-cross-check-coupling: nondeterminism/global-state census of the generation closure (shared with C04-R1)", func(r *Run) { nondetCensus(r, "generation", []string{"<generation>"}, false) }},
			{"C15-R8", "no-lock-left-behind: a function value called while a package mutex is held (the Deferred constructor under deferredGen.mu) is covered by a deferred unlock of that mutex, so a panicking constructor in one check does not block the concurrent checks that share the generator (shared with C11-R9)", ruleUserCodeUnderLock},
		},
	}
}

// generatorTypes: names of struct types that are generator objects: Generator, loadedDie, every type whose
// pointer has methods value and String, and the struct types embedded in those.
func (p *Program) generatorTypes() []string {
	set := map[string]bool{"Generator": true, "loadedDie": true}
	scope := p.Types.Scope()
	for _, name := range scope.Names() {
		tn, ok := scope.Lookup(name).(*types.TypeName)
		if !ok {
			continue
		}
		nt, ok := tn.Type().(*types.Named)
		if !ok {
			continue
		}
		st, ok := nt.Underlying().(*types.Struct)
		if !ok {
			continue
		}
		ms := types.NewMethodSet(types.NewPointer(nt))
		if ms.Lookup(p.Types, "value") != nil && ms.Lookup(p.Types, "String") != nil {
			set[name] = true
			for i := 0; i < st.NumFields(); i++ {
				f := st.Field(i)
				if f.Embedded() {
					if en, ok := f.Type().(*types.Named); ok {
						if _, isStruct := en.Underlying().(*types.Struct); isStruct && en.Obj().Pkg() == p.Types {
							set[en.Obj().Name()] = true
						}
					}
				}
			}
		}
	}
	var out []string
	for n := range set {
		out = append(out, n)
	}
	sort.Strings(out)
	return out
}

// addrRoot walks FieldAddr/IndexAddr chains to the value the address is derived from.
func addrRoot(v ssa.Value) ssa.Value {
	for i := 0; i < 12; i++ {
		switch x := v.(type) {
		case *ssa.FieldAddr:
			v = x.X
		case *ssa.IndexAddr:
			v = x.X
		default:
			return v
		}
	}
	return v
}

// onceDoClosure: fn is the function literal passed to (*sync.Once).Do; returns the rendered receiver of Do.
func (p *Program) onceDoClosure(fn *ssa.Function) (string, bool) {
	if fn.Parent() == nil {
		// method value form: once.Do(g.init)
		for _, h := range p.allFuncs() {
			for _, cs := range p.callsTo(h, "(*sync.Once).Do") {
				mc, ok := p.resolve(cs.Arg(0)).(*ssa.MakeClosure)
				if !ok || len(mc.Bindings) != 1 {
					continue
				}
				bf := mc.Fn.(*ssa.Function)
				if !strings.HasSuffix(bf.Name(), "$bound") {
					continue
				}
				for _, b := range bf.Blocks {
					for _, in := range b.Instrs {
						if c, ok := in.(ssa.CallInstruction); ok {
							if sc := c.Common().StaticCallee(); sc != nil && (sc == fn || sc.Origin() == fn) {
								// the receiver bound must be the object owning the Once
								recvOnce := p.expr(cs.Recv())
								bound := p.expr(mc.Bindings[0])
								if strings.HasPrefix(strings.TrimPrefix(recvOnce, "&"), bound+".") {
									// rendered relative to the method's own receiver
									rp := "$" + fn.Params[0].Name()
									return "&" + rp + strings.TrimPrefix(strings.TrimPrefix(recvOnce, "&"), bound), true
								}
							}
						}
					}
				}
			}
		}
		return "", false
	}
	for _, cs := range p.callsTo(fn.Parent(), "(*sync.Once).Do") {
		if mc, ok := p.resolve(cs.Arg(0)).(*ssa.MakeClosure); ok && mc.Fn == ssa.Value(fn) {
			return p.expr(cs.Recv()), true
		}
	}
	return "", false
}

type oncePublished struct {
	owner, field, once string // once: rendered Do receiver, e.g. "&$g.strOnce"
}

func ruleC15R1(r *Run) {
	p := r.P
	gts := p.generatorTypes()
	r.Floor("generator object types", len(gts), 22)
	r.OK("types", token.NoPos, "generator object types: "+strings.Join(gts, ", "))
	n := 0
	for _, fa := range p.fieldAccesses(gts...) {
		if fa.Kind == "read" || fa.Kind == "nested" {
			continue
		}
		name := p.hostName(fa.Fn)
		construct := name + "#" + fa.Owner + "." + fa.Field + "." + fa.Kind
		if strings.HasPrefix(fa.Kind, "call:") {
			callee := strings.TrimPrefix(fa.Kind, "call:")
			if strings.HasPrefix(callee, "(*sync.Once).") || strings.HasPrefix(callee, "(*sync/atomic.") || strings.HasPrefix(callee, "(*sync.Mutex).") || strings.HasPrefix(callee, "(*sync.RWMutex).") {
				continue
			}
			if ci, ok := fa.Instr.(ssa.CallInstruction); ok {
				if sc := ci.Common().StaticCallee(); sc != nil && p.inRapid(sc) {
					continue // method of the embedded part: its own stores are judged by this census
				}
			}
			r.Fail(construct, fa.Instr.Pos(), "address of generator field "+fa.Owner+"."+fa.Field+" is passed to "+callee+": the callee may write it after construction")
			continue
		}
		if fa.Kind != "write" {
			r.Fail(construct, fa.Instr.Pos(), "address of generator field "+fa.Owner+"."+fa.Field+" escapes ("+fa.Kind+")")
			continue
		}
		n++
		root := p.resolve(addrRoot(fa.FA))
		if al, ok := root.(*ssa.Alloc); ok && al.Parent() == fa.Fn {
			r.OK(construct, fa.Instr.Pos(), "initialised by the function that allocates the object, before it is published")
			continue
		}
		if once, ok := p.onceDoClosure(fa.Fn); ok {
			base := strings.TrimPrefix(p.expr(addrRoot(fa.FA)), "&")
			if strings.HasPrefix(strings.TrimPrefix(once, "&"), base+".") {
				r.OK(construct, fa.Instr.Pos(), "written inside "+once+".Do of the same object (executed once, happens-before every Do return)")
				continue
			}
		}
		if mu, ok := p.ownMutexHeld(fa, 'W'); ok {
			// lazily initialised under the object's own mutex: every other access must hold it, too
			bad := ""
			for _, o := range p.fieldAccesses(fa.Owner) {
				if o.Field != fa.Field || o.Instr == fa.Instr {
					continue
				}
				if al, isA := p.resolve(addrRoot2(o)).(*ssa.Alloc); isA && al.Parent() == o.Fn {
					continue
				}
				if m2, held := p.ownMutexHeld(o, 'R'); !held || m2 != mu {
					bad = p.pos(o.Instr.Pos()) + " in " + p.hostName(o.Fn)
				}
			}
			if bad == "" {
				r.OK(construct, fa.Instr.Pos(), "written with the object's own mutex "+mu+" held; every other access to the field holds it as well")
				continue
			}
			r.Fail(construct, fa.Instr.Pos(), "generator field "+fa.Owner+"."+fa.Field+" is written in "+name+" under "+mu+", but accessed without it at "+bad+": a data race between checks sharing the generator")
			continue
		}
		r.Fail(construct, fa.Instr.Pos(), "generator field "+fa.Owner+"."+fa.Field+" is written in "+name+" after construction without synchronisation: a generator shared by concurrently running checks has a data race (and draws may depend on which check ran first)")
	}
	r.Floor("stores to generator fields", n, 40)
	r.positiveExample("post-construction-store", "package pos\ntype gen struct{ cache int }\nfunc (g *gen) value() int { g.cache = 1; return g.cache }\nfunc mk() *gen { g := &gen{}; g.cache = 0; return g }\n", func(q *Program) int {
		c := 0
		for _, fa := range q.fieldAccesses("gen") {
			if fa.Kind != "write" {
				continue
			}
			root := q.resolve(addrRoot(fa.FA))
			if al, ok := root.(*ssa.Alloc); !ok || al.Parent() != fa.Fn {
				c++
			}
		}
		return c
	})
}

func (r *Run) oncePublishedFields() []oncePublished {
	p := r.P
	var out []oncePublished
	for _, fa := range p.fieldAccesses(p.generatorTypes()...) {
		if fa.Kind != "write" {
			continue
		}
		if once, ok := p.onceDoClosure(fa.Fn); ok {
			out = append(out, oncePublished{fa.Owner, fa.Field, once})
		}
	}
	return out
}

func ruleC15R2(r *Run) {
	p := r.P
	pubs := r.oncePublishedFields()
	r.Floor("fields published through sync.Once", len(pubs), 1)
	n := 0
	for _, pub := range pubs {
		onceField := pub.once[strings.LastIndex(pub.once, ".")+1:]
		for _, fa := range p.fieldAccesses(pub.owner) {
			if fa.Field != pub.field || fa.Kind != "read" {
				continue
			}
			n++
			name := p.hostName(fa.Fn)
			construct := name + "#" + pub.owner + "." + pub.field + ".read"
			if _, inDo := p.onceDoClosure(fa.Fn); inDo {
				r.OK(construct, fa.Instr.Pos(), "read inside the Do function")
				continue
			}
			base := strings.TrimPrefix(p.expr(fa.Base), "&")
			ok := false
			for _, cs := range p.callsTo(fa.Fn, "(*sync.Once).Do") {
				if p.expr(cs.Recv()) == "&"+base+"."+onceField && dominates(cs.Instr, fa.Instr) {
					ok = true
				}
			}
			r.Check(construct, fa.Instr.Pos(), ok, "read after "+base+"."+onceField+".Do returned", pub.owner+"."+pub.field+" is written under "+onceField+".Do but read in "+name+" without a preceding Do on that Once: the read races with the first Do of a concurrently running check")
		}
	}
	r.Floor("reads of Once-published fields", n, 1)
}

func ruleC15R3(r *Run) {
	p := r.P
	gts := map[string]bool{}
	for _, t := range p.generatorTypes() {
		gts[t] = true
	}
	// closure of every value and String method
	var roots []*ssa.Function
	roots = append(roots, generationRoots(r)...)
	for _, fn := range p.FuncList {
		if strings.HasSuffix(p.fnName(fn), ").String") {
			roots = append(roots, fn)
		}
	}
	cl := p.closureOf(roots)
	// is v (an address root / container) data loaded from a generator field or a package-level variable?
	shared := func(v ssa.Value) (string, bool) {
		seen := map[ssa.Value]bool{}
		var walk func(v ssa.Value, d int) (string, bool)
		walk = func(v ssa.Value, d int) (string, bool) {
			if v == nil || seen[v] || d > 8 {
				return "", false
			}
			seen[v] = true
			orig := v
			v = p.resolve(v)
			// a captured variable bound when the generator was constructed (its defining function is not part of the
			// value/String closure): one object shared by every draw of every check
			if _, isFV := orig.(*ssa.FreeVar); isFV || isFreeVarLoad(orig) {
				if in, ok := v.(ssa.Instruction); ok && in.Parent() != nil && mutableObject(v) {
					if fv := freeVarOf(orig); fv != nil && p.outlivesParent(fv.Parent(), in.Parent()) {
						return "variable captured at generator construction in " + p.fnName(in.Parent()), true
					}
				}
			}
			switch x := v.(type) {
			case *ssa.Call:
				// reflect derivations share the storage of their operand
				switch key := p.calleeKey(x.Common()); key {
				case "(reflect.Value).Field", "(reflect.Value).Index", "(reflect.Value).Elem", "(reflect.Value).Addr", "(reflect.Value).FieldByName", "(reflect.Value).FieldByIndex", "(reflect.Value).Slice", "reflect.Indirect":
					if len(x.Common().Args) > 0 {
						return walk(x.Common().Args[0], d+1)
					}
				}
			case *ssa.UnOp:
				if x.Op != token.MUL {
					return "", false
				}
				if fa, ok := x.X.(*ssa.FieldAddr); ok && gts[p.fieldAddrOwner(fa)] {
					return "generator field " + p.fieldAddrOwner(fa) + "." + fieldAddrName(fa), true
				}
				if g := rootGlobal(x.X); g != nil && g.Pkg == p.SPkg {
					return "package-level variable " + g.Name(), true
				}
				// element of shared data
				if ia, ok := x.X.(*ssa.IndexAddr); ok {
					return walk(ia.X, d+1)
				}
				if fa, ok := x.X.(*ssa.FieldAddr); ok {
					return walk(fa.X, d+1)
				}
			case *ssa.Global:
				if x.Pkg == p.SPkg {
					return "package-level variable " + x.Name(), true
				}
			case *ssa.Slice:
				return walk(x.X, d+1)
			case *ssa.Phi:
				for _, e := range x.Edges {
					if s, ok := walk(e, d+1); ok {
						return s, true
					}
				}
			case *ssa.Lookup:
				return walk(x.X, d+1)
			case *ssa.Index:
				return walk(x.X, d+1)
			case *ssa.Field:
				return walk(x.X, d+1)
			}
			return "", false
		}
		return walk(v, 0)
	}
	n, bad := 0, 0
	for _, fn := range sortedFuncs(p, cl) {
		name := p.fnName(fn)
		for _, b := range p.body(fn) {
			for _, in := range b.Instrs {
				var target ssa.Value
				what := ""
				switch x := in.(type) {
				case *ssa.Store:
					if _, ok := x.Addr.(*ssa.IndexAddr); ok {
						target, what = addrRoot(x.Addr), "element store"
					} else if fa, ok := x.Addr.(*ssa.FieldAddr); ok {
						// store to a field of an object reached through shared data (not the generator's own field: R1)
						root := addrRoot(fa)
						if _, isParam := p.resolve(root).(*ssa.Parameter); isParam {
							continue
						}
						target, what = root, "field store"
					} else if fv, ok := x.Addr.(*ssa.FreeVar); ok {
						n++
						if b, ok := p.bindOf(fv).(ssa.Instruction); ok && b.Parent() != nil && p.outlivesParent(fv.Parent(), b.Parent()) {
							bad++
							r.Fail(name+"#store-captured:"+fv.Name(), x.Pos(), "variable "+fv.Name()+" captured when the generator was constructed in "+p.fnName(b.Parent())+" is assigned in "+name+", which runs once per draw: concurrently running checks share it")
						}
						continue
					} else if g, ok := x.Addr.(*ssa.Global); ok && g.Pkg == p.SPkg {
						n++
						bad++
						r.Fail(name+"#store-global:"+g.Name(), x.Pos(), "package-level variable "+g.Name()+" is assigned in "+name+", which is reachable from value/String methods: concurrently running checks share it")
						continue
					} else {
						continue
					}
				case *ssa.MapUpdate:
					target, what = x.Map, "map store"
				case *ssa.Call:
					key := p.calleeKey(x.Common())
					switch {
					case key == "builtin:copy":
						target, what = x.Common().Args[0], "copy destination"
					case strings.HasPrefix(key, "(reflect.Value).Set"):
						target, what = x.Common().Args[0], "reflect "+strings.TrimPrefix(key, "(reflect.Value).")
					case strings.HasPrefix(key, "sort.") || strings.HasPrefix(key, "slices.Sort") || strings.HasPrefix(key, "slices.Reverse") || key == "math/rand.Shuffle":
						if len(x.Common().Args) > 0 {
							target, what = x.Common().Args[0], key+" argument"
						}
					default:
						continue
					}
				default:
					continue
				}
				if target == nil {
					continue
				}
				n++
				if src, ok := shared(target); ok {
					bad++
					r.Fail(name+"#"+strings.Fields(what)[0]+"-through-shared", in.Pos(), what+" in "+name+" goes through data loaded from "+src+": the generator's input / shared table is mutated while other checks read it")
				}
			}
		}
	}
	// a draw does not hand out the generator's own container: a value method whose result is a slice or map (by its
	// static type, or the core type of its type parameter) returns storage of this call, not data loaded from a
	// generator field — the caller may modify what it drew, and every later draw (the reproduction, each shrink
	// attempt, the final replay, other checks) would read the modified table
	nOut := 0
	for _, fn := range p.FuncList {
		name := p.fnName(fn)
		if !strings.HasSuffix(name, ").value") || fn.Signature.Recv() == nil || fn.Signature.Results().Len() != 1 || !gts[recvTypeName(fn)] {
			continue
		}
		if !containerType(fn.Signature.Results().At(0).Type()) {
			continue
		}
		nOut++
		for _, ret := range returnsOf(fn) {
			for _, a := range p.alternatives(p.res(ret, 0), 0) {
				if src, ok := shared(a.Val); ok {
					bad++
					r.Fail(name+"#hands-out-shared", ret.Pos(), name+" can return "+p.expr(a.Val)+", data loaded from "+src+", as the drawn value: a property that modifies what it drew changes the generator for every later draw (reproduction, shrinking, final replay, concurrently running checks)")
				}
			}
		}
	}
	r.Floor("value methods returning a slice or map", nOut, 1)
	r.Floor("store-like instructions in the value/String closure", n, 20)
	if bad == 0 {
		r.OK("census", token.NoPos, fmt.Sprintf("%d element/field/map stores, copies and sorts in %d functions reachable from value/String: none targets data loaded from a generator field or a package-level variable", n, len(cl)))
	}
	r.positiveExample("store-through-field", "package pos\ntype gen struct{ slice []int }\nfunc (g *gen) value() []int { s := g.slice; s[0] = 1; return s }\n", func(q *Program) int {
		c := 0
		for _, fn := range q.FuncList {
			for _, b := range p.body(fn) {
				for _, in := range b.Instrs {
					if st, ok := in.(*ssa.Store); ok {
						if ia, ok := st.Addr.(*ssa.IndexAddr); ok {
							if u, ok := q.resolve(ia.X).(*ssa.UnOp); ok {
								if _, ok := u.X.(*ssa.FieldAddr); ok {
									c++
								}
							}
						}
					}
				}
			}
		}
		return c
	})
}

func ruleC15R4(r *Run) {
	p := r.P
	var globals []*ssa.Global
	for _, m := range p.SPkg.Members {
		if g, ok := m.(*ssa.Global); ok && !strings.HasPrefix(g.Name(), "init$") {
			globals = append(globals, g)
		}
	}
	sort.Slice(globals, func(i, j int) bool { return globals[i].Name() < globals[j].Name() })
	r.Floor("package-level variables", len(globals), 12)
	isInit := func(fn *ssa.Function) bool {
		for fn.Parent() != nil {
			fn = fn.Parent()
		}
		return isPackageInit(fn)
	}
	for _, g := range globals {
		elem := deref(g.Type())
		isSyncMap := p.typeStr(elem) == "sync.Map"
		bad := ""
		var walk func(addr ssa.Value, fn *ssa.Function, depth int)
		walk = func(addr ssa.Value, fn *ssa.Function, depth int) {
			if addr.Referrers() == nil || depth > 4 {
				return
			}
			for _, ref := range *addr.Referrers() {
				if ref.Parent() == nil {
					continue
				}
				in := isInit(ref.Parent())
				switch x := ref.(type) {
				case *ssa.Store:
					if x.Addr == addr && !in {
						bad = "stored in " + p.fnName(ref.Parent()) + " at " + p.pos(x.Pos())
					}
					if x.Val == addr && !in {
						bad = "its address is stored in " + p.fnName(ref.Parent())
					}
				case *ssa.FieldAddr:
					walk(x, ref.Parent(), depth+1)
				case *ssa.IndexAddr:
					walk(x, ref.Parent(), depth+1)
				case ssa.CallInstruction:
					if in {
						continue
					}
					key := p.calleeKey(x.Common())
					if isSyncMap && strings.HasPrefix(key, "(*sync.Map).") {
						continue
					}
					if why, decided := p.ptrArgWritten(x, addr, 0); decided {
						if why != "" {
							bad = "it is written through the pointer passed to " + key + " in " + p.fnName(ref.Parent()) + " (" + why + ")"
						}
						continue
					}
					bad = "its address is passed to " + key + " in " + p.fnName(ref.Parent())
				case *ssa.UnOp, *ssa.DebugRef:
				default:
					if !in {
						bad = fmt.Sprintf("its address is used by %T in %s", ref, p.fnName(ref.Parent()))
					}
				}
			}
		}
		// every function referencing the global
		for _, fn := range p.FuncList {
			for _, b := range p.body(fn) {
				for _, in := range b.Instrs {
					for _, op := range in.Operands(nil) {
						if *op == ssa.Value(g) {
							// handled through referrers below
						}
					}
				}
			}
		}
		// go/ssa does not keep referrers for globals: scan instructions
		for _, fn := range p.FuncList {
			initF := isInit(fn)
			for _, b := range p.body(fn) {
				for _, in := range b.Instrs {
					uses := false
					for _, op := range in.Operands(nil) {
						if *op == ssa.Value(g) {
							uses = true
						}
					}
					if !uses {
						continue
					}
					switch x := in.(type) {
					case *ssa.Store:
						if x.Addr == ssa.Value(g) && !initF {
							bad = "assigned in " + p.fnName(fn) + " at " + p.pos(x.Pos())
						}
						if x.Val == ssa.Value(g) && !initF {
							bad = "its address is stored in " + p.fnName(fn)
						}
					case *ssa.FieldAddr:
						walk(x, fn, 0)
					case *ssa.IndexAddr:
						walk(x, fn, 0)
					case ssa.CallInstruction:
						if initF {
							continue
						}
						key := p.calleeKey(x.Common())
						if isSyncMap && strings.HasPrefix(key, "(*sync.Map).") {
							continue
						}
						if why, decided := p.ptrArgWritten(x, g, 0); decided {
							if why != "" {
								bad = "it is written through the pointer passed to " + key + " in " + p.fnName(fn) + " (" + why + ")"
							}
							continue
						}
						bad = "its address is passed to " + key + " in " + p.fnName(fn)
					case *ssa.UnOp, *ssa.DebugRef:
					default:
						if !initF {
							bad = fmt.Sprintf("its address is used by %T in %s", in, p.fnName(fn))
						}
					}
				}
			}
		}
		kind := "written only during package initialisation"
		if isSyncMap {
			kind = "a sync.Map used only through its methods"
		}
		if g.Name() == "flags" {
			kind = "written only by package flag through the pointers registered in init (flag.Parse, before tests run)"
		}
		r.Check("var:"+g.Name(), g.Pos(), bad == "", g.Name()+" is "+kind, "package-level variable "+g.Name()+" is mutated after initialisation ("+bad+"): generators and checks running concurrently share it")
	}
	ruleSharedContents(r, nil, 5)
}

// ruleSharedContents: values loaded from package-level variables (slices, maps, pointers) are not written through, and
// are handed only to callees known not to write them: a shared scratch buffer is mutable shared state just as well.
// hosts restricts the functions looked at (nil = all non-init functions).
func ruleSharedContents(r *Run, hosts map[string]bool, floor int) {
	p := r.P
	isInit := func(fn *ssa.Function) bool {
		for fn.Parent() != nil {
			fn = fn.Parent()
		}
		return isPackageInit(fn)
	}
	nLoads := 0
	for _, fn := range p.FuncList {
		if isInit(fn) || (hosts != nil && !hosts[p.hostName(fn)]) {
			continue
		}
		for _, b := range p.body(fn) {
			for _, in := range b.Instrs {
				ld, ok := in.(*ssa.UnOp)
				if !ok || ld.Op != token.MUL || !isRefType(ld.Type()) {
					continue
				}
				g := globalOfAddr(ld.X)
				if g == nil || g.Pkg != p.SPkg {
					continue
				}
				if p.typeStr(deref(g.Type())) == "sync.Map" {
					continue
				}
				nLoads++
				if why := p.writtenThrough(ld, 0, map[ssa.Value]bool{}); why != "" {
					r.Fail("var:"+g.Name()+"#shared-contents@"+p.hostName(fn), ld.Pos(), "the contents of package-level variable "+g.Name()+" can be modified after initialisation ("+why+"): checks running concurrently share it")
				}
			}
		}
	}
	r.Floor("loads of reference-typed package-level variables", nLoads, floor)
}

func isRefType(t types.Type) bool {
	switch t.Underlying().(type) {
	case *types.Slice, *types.Map, *types.Pointer:
		return true
	}
	return false
}

// globalOfAddr: addr is a package-level variable or a field/element address inside one.
func globalOfAddr(addr ssa.Value) *ssa.Global {
	for i := 0; i < 6; i++ {
		switch x := addr.(type) {
		case *ssa.Global:
			return x
		case *ssa.FieldAddr:
			addr = x.X
		case *ssa.IndexAddr:
			addr = x.X
		default:
			return nil
		}
	}
	return nil
}

// readOnlyCallees: external functions that do not write through their slice/map/pointer arguments.
var readOnlyCalleePrefixes = []string{"strings.", "unicode.", "unicode/utf8.", "fmt.", "sort.Search", "bytes.Equal", "bytes.Index", "bytes.Contains",
	// the read-only part of package slices (documented not to modify their arguments)
	"slices.Contains", "slices.Index", "slices.BinarySearch", "slices.Equal", "slices.Compare", "slices.Max", "slices.Min", "slices.IsSorted", "slices.Clone", "slices.Concat",
	"sort.SliceIsSorted", "sort.StringsAreSorted", "sort.IsSorted", "maps.Keys", "maps.Values", "maps.Clone", "maps.Equal",
	"(*regexp.Regexp).", "(*regexp/syntax.", "regexp/syntax.", "reflect.ValueOf", "reflect.TypeOf", "(*log.Logger).", "(*strings.Builder).", "builtin:len", "builtin:cap", "builtin:print",
	"(*flag.FlagSet).", "flag.", "(*testing.", "invoke:tb.", "invoke:", "math/bits.", "strconv.", "(*sync.Once).", "(*sync.Mutex).", "(*sync.RWMutex).", "(*sync/atomic.",
	// documented: "A template may be executed safely in parallel" (html/template escapes under its own mutex)
	"(*html/template.Template).Execute", "(*text/template.Template).Execute"}

// writtenThrough follows a reference value (slice, map, pointer) and reports a construct that may write its contents.
func (p *Program) writtenThrough(v ssa.Value, depth int, seen map[ssa.Value]bool) string {
	if v == nil || seen[v] || depth > 4 || v.Referrers() == nil {
		return ""
	}
	seen[v] = true
	for _, ref := range *v.Referrers() {
		switch x := ref.(type) {
		case *ssa.IndexAddr, *ssa.FieldAddr:
			addr := x.(ssa.Value)
			if addr.Referrers() == nil {
				continue
			}
			for _, r2 := range *addr.Referrers() {
				if st, ok := r2.(*ssa.Store); ok && st.Addr == addr {
					return "element/field store at " + p.pos(st.Pos())
				}
				if c, ok := r2.(ssa.CallInstruction); ok {
					key := p.calleeKey(c.Common())
					if !hasAnyPrefix(key, readOnlyCalleePrefixes) && !p.inRapidKey(c) {
						return "address of an element passed to " + key + " at " + p.pos(c.Pos())
					}
				}
			}
		case *ssa.MapUpdate:
			if x.Map == v {
				return "map update at " + p.pos(x.Pos())
			}
		case *ssa.Slice:
			if x.X == v {
				if why := p.writtenThrough(x, depth+1, seen); why != "" {
					return why
				}
			}
		case *ssa.Phi, *ssa.ChangeType, *ssa.MakeInterface:
			if why := p.writtenThrough(x.(ssa.Value), depth+1, seen); why != "" {
				return why
			}
		case ssa.CallInstruction:
			key := p.calleeKey(x.Common())
			if key == "builtin:append" {
				// append(dst, v...) reads v; append(v, …) may write v's spare capacity
				if len(x.Common().Args) > 0 && x.Common().Args[0] == v {
					return "append to it at " + p.pos(x.Pos())
				}
				continue
			}
			if key == "builtin:copy" {
				if len(x.Common().Args) > 0 && x.Common().Args[0] == v {
					return "copy into it at " + p.pos(x.Pos())
				}
				continue
			}
			if key == "builtin:delete" || key == "builtin:clear" {
				return key + " at " + p.pos(x.Pos())
			}
			if hasAnyPrefix(key, readOnlyCalleePrefixes) {
				continue
			}
			if sc := x.Common().StaticCallee(); sc != nil && p.inRapid(sc) && sc.Blocks != nil {
				if o := sc.Origin(); o != nil {
					sc = o
				}
				for k, a := range x.Common().Args {
					if a == v && k < len(sc.Params) {
						if why := p.writtenThrough(sc.Params[k], depth+1, seen); why != "" {
							return why
						}
					}
				}
				continue
			}
			return "passed to " + key + " at " + p.pos(x.Pos()) + ", which is not known to leave it unmodified"
		}
	}
	return ""
}

func (p *Program) inRapidKey(c ssa.CallInstruction) bool {
	sc := c.Common().StaticCallee()
	return sc != nil && p.inRapid(sc)
}

func hasAnyPrefix(s string, pre []string) bool {
	for _, q := range pre {
		if strings.HasPrefix(s, q) {
			return true
		}
	}
	return false
}

// isFreeVarLoad: v is a load through a captured variable cell.
func isFreeVarLoad(v ssa.Value) bool {
	u, ok := v.(*ssa.UnOp)
	if !ok || u.Op != token.MUL {
		return false
	}
	_, isFV := u.X.(*ssa.FreeVar)
	return isFV
}

// mutableObject: v denotes storage that can be written through (slice, map, pointer, reflect.Value handle).
func mutableObject(v ssa.Value) bool {
	t := v.Type()
	if isRefType(t) {
		return true
	}
	return t.String() == "reflect.Value"
}

func freeVarOf(v ssa.Value) *ssa.FreeVar {
	if fv, ok := v.(*ssa.FreeVar); ok {
		return fv
	}
	if u, ok := v.(*ssa.UnOp); ok {
		if fv, ok := u.X.(*ssa.FreeVar); ok {
			return fv
		}
	}
	return nil
}

// outlivesParent: the function literal g (or an enclosing literal up to owner) is not only called or deferred where it
// is created but handed on (to Custom, into a generator, returned): it runs once per draw, while the variables it
// captured from owner exist once per construction.
func (p *Program) outlivesParent(g, owner *ssa.Function) bool {
	for i := 0; g != nil && g != owner && i < 6; i++ {
		par := g.Parent()
		if par == nil {
			return false
		}
		for _, b := range par.Blocks {
			for _, in := range b.Instrs {
				mc, ok := in.(*ssa.MakeClosure)
				if !ok || mc.Fn != ssa.Value(g) || mc.Referrers() == nil {
					continue
				}
				for _, ref := range *mc.Referrers() {
					switch x := ref.(type) {
					case *ssa.DebugRef:
					case ssa.CallInstruction:
						if x.Common().Value == ssa.Value(mc) {
							continue // called / deferred in place
						}
						return true
					default:
						return true
					}
				}
			}
		}
		g = par
	}
	return false
}

// ptrArgWritten: the pointer ptr is an argument of call c to a function of the package; reports whether that function
// (or one it hands the pointer on to) stores through it. decided=false if the callee cannot be analysed.
func (p *Program) ptrArgWritten(c ssa.CallInstruction, ptr ssa.Value, d int) (string, bool) {
	sc := c.Common().StaticCallee()
	if sc == nil || !p.inRapid(sc) || sc.Blocks == nil || d > 3 {
		return "", false
	}
	if o := sc.Origin(); o != nil {
		sc = o
	}
	for k, a := range c.Common().Args {
		if a != ptr || k >= len(sc.Params) {
			continue
		}
		why, ok := p.writesThroughPtr(sc.Params[k], d, map[ssa.Value]bool{})
		if !ok {
			return "", false
		}
		if why != "" {
			return why, true
		}
	}
	return "", true
}

func (p *Program) writesThroughPtr(v ssa.Value, d int, seen map[ssa.Value]bool) (string, bool) {
	if seen[v] || v.Referrers() == nil {
		return "", true
	}
	seen[v] = true
	for _, ref := range *v.Referrers() {
		switch x := ref.(type) {
		case *ssa.DebugRef, *ssa.UnOp:
		case *ssa.FieldAddr, *ssa.IndexAddr:
			why, ok := p.writesThroughPtr(x.(ssa.Value), d, seen)
			if !ok || why != "" {
				return why, ok
			}
		case *ssa.Store:
			if x.Addr == v {
				return "store at " + p.pos(x.Pos()), true
			}
			return "", false // the pointer itself is stored somewhere
		case *ssa.Phi:
			why, ok := p.writesThroughPtr(x, d, seen)
			if !ok || why != "" {
				return why, ok
			}
		case *ssa.Return:
			return "", false // handed back to the caller: not followed
		case ssa.CallInstruction:
			why, ok := p.ptrArgWritten(x, v, d+1)
			if !ok {
				key := p.calleeKey(x.Common())
				if hasAnyPrefix(key, readOnlyCalleePrefixes) {
					continue
				}
				// a *sync.Map handed to a helper that uses it through its methods: as safe as at the top level
				if strings.HasPrefix(key, "(*sync.Map).") && len(x.Common().Args) > 0 && x.Common().Args[0] == v && p.typeStr(deref(v.Type())) == "sync.Map" {
					continue
				}
				return "", false
			}
			if why != "" {
				return why, true
			}
		default:
			return "", false
		}
	}
	return "", true
}

// recvTypeName is the name of the (pointer) receiver's named type.
func recvTypeName(fn *ssa.Function) string {
	t := fn.Signature.Recv().Type()
	if pt, ok := t.(*types.Pointer); ok {
		t = pt.Elem()
	}
	if nt, ok := t.(*types.Named); ok {
		return nt.Obj().Name()
	}
	return ""
}

// containerType: t is a slice or map type, or a type parameter all of whose constraint terms are.
func containerType(t types.Type) bool {
	switch u := t.Underlying().(type) {
	case *types.Slice, *types.Map:
		return true
	case *types.Interface:
		tp, ok := t.(*types.TypeParam)
		if !ok {
			return false
		}
		_ = tp
		n, all := 0, true
		for i := 0; i < u.NumEmbeddeds(); i++ {
			switch e := u.EmbeddedType(i).(type) {
			case *types.Union:
				for k := 0; k < e.Len(); k++ {
					n++
					switch e.Term(k).Type().Underlying().(type) {
					case *types.Slice, *types.Map:
					default:
						all = false
					}
				}
			default:
				n++
				switch e.Underlying().(type) {
				case *types.Slice, *types.Map:
				default:
					all = false
				}
			}
		}
		return n > 0 && all
	}
	return false
}

// rulePublishComplete: what is handed to Store/LoadOrStore/Swap of a sync.Map is read by other goroutines from that
// moment on; an element or field store into it that is reachable after the publication races with those readers and
// lets them see a half-built table (other checks then draw other values than they would alone).
func rulePublishComplete(r *Run) {
	p := r.P
	n := 0
	for _, fn := range p.FuncList {
		if fn.Blocks == nil {
			continue
		}
		for _, cs := range p.calls(fn) {
			vi := -1
			switch cs.Key {
			case "(*sync.Map).Store", "(*sync.Map).LoadOrStore", "(*sync.Map).Swap":
				vi = 2
			case "(*sync.Map).CompareAndSwap":
				vi = 3
			}
			if vi < 0 || vi >= len(cs.Common.Args) {
				continue
			}
			n++
			pub := p.resolve(cs.Common.Args[vi])
			if mi, ok := pub.(*ssa.MakeInterface); ok {
				pub = p.resolve(mi.X)
			}
			name := p.hostName(fn)
			bad := ""
			var badPos token.Pos
			// the published object and the values it was built from by append/slicing (same backing array)
			same := func(v ssa.Value) bool {
				v = p.resolve(v)
				for i := 0; i < 6; i++ {
					if v == pub {
						return true
					}
					switch x := v.(type) {
					case *ssa.Slice:
						v = p.resolve(x.X)
					case *ssa.UnOp:
						return false
					default:
						return false
					}
				}
				return false
			}
			for _, b := range p.body(fn) {
				for _, in := range b.Instrs {
					var target ssa.Value
					switch x := in.(type) {
					case *ssa.Store:
						if _, ok := x.Addr.(*ssa.IndexAddr); ok {
							target = addrRoot(x.Addr)
						} else if _, ok := x.Addr.(*ssa.FieldAddr); ok {
							target = addrRoot(x.Addr)
						}
					case *ssa.MapUpdate:
						target = x.Map
					case *ssa.Call:
						if k := p.calleeKey(x.Common()); k == "builtin:copy" || strings.HasPrefix(k, "sort.") || strings.HasPrefix(k, "slices.Sort") {
							if len(x.Common().Args) > 0 {
								target = x.Common().Args[0]
							}
						}
					}
					if target == nil || !same(target) {
						continue
					}
					if reachable(cs.Instr, in, nil) {
						bad, badPos = p.pos(in.Pos()), in.Pos()
					}
				}
			}
			_ = badPos
			r.Check(name+"#published-complete:"+p.expr(cs.Common.Args[0]), cs.Instr.Pos(), bad == "", "nothing is stored into the published value after "+cs.Key, "the value handed to "+cs.Key+" is still being filled after it was published (store at "+bad+"): a concurrently running check that finds the entry reads a half-built table and draws other values than it would alone")
		}
	}
	r.Floor("publications through sync.Map", n, 3)
}

func addrRoot2(fa fieldAccess) ssa.Value {
	if fa.FA != nil {
		return addrRoot(fa.FA)
	}
	return fa.Base
}

// ownMutexHeld: the access happens while a sync.Mutex / sync.RWMutex field of the same object is held (mode 'W':
// exclusively). Returns the mutex field's name.
func (p *Program) ownMutexHeld(fa fieldAccess, mode byte) (string, bool) {
	if fa.FA == nil {
		return "", false
	}
	base := strings.TrimPrefix(p.expr(fa.FA.X), "&")
	ls := p.lockSets(p.host(fa.Fn))[fa.Instr]
	if ls == nil {
		ls = p.lockSets(fa.Fn)[fa.Instr]
	}
	for path, m := range ls {
		pre := "&" + base + "."
		if strings.HasPrefix(path, pre) && !strings.Contains(path[len(pre):], ".") && (m == 'W' || mode == 'R') {
			return path[len(pre):], true
		}
	}
	return "", false
}

// ruleUserCodeUnderLock (C11-R9, shared as C15-R8): a function value (user code: a Deferred constructor, a callback) that
// is called while a mutex of the package is held can panic — that is how a property fails. The panic unwinds past an
// explicit Unlock, so the lock has to be released by a deferred unlock of the same mutex in that function; otherwise the
// mutex of a generator (which outlives the test case and is shared by all test cases and by concurrent checks) stays
// locked, and the next test case that draws from it — the reproduction run, every minimization attempt, another check —
// blocks forever instead of getting a verdict.
func ruleUserCodeUnderLock(r *Run) {
	p := r.P
	n := 0
	// deferred releases of a function: `defer mu.Unlock()`, or a deferred literal that unlocks mu without locking it itself
	deferredIn := func(fn *ssa.Function, into map[string]bool) {
		for _, b := range fn.Blocks {
			for _, in := range b.Instrs {
				d, ok := in.(*ssa.Defer)
				if !ok {
					continue
				}
				relocks := map[string]bool{}
				if mc, ok := d.Common().Value.(*ssa.MakeClosure); ok {
					if lit, ok := mc.Fn.(*ssa.Function); ok {
						for _, lb := range lit.Blocks {
							for _, li := range lb.Instrs {
								if op := p.lockOpOf(li); op != nil && (op.kind == "Lock" || op.kind == "RLock") {
									relocks[op.path] = true
								}
							}
						}
					}
				}
				for _, path := range p.deferredUnlocks(d) {
					if !relocks[path] {
						into[path] = true
					}
				}
			}
		}
	}
	for _, fn := range p.FuncList {
		var ls map[ssa.Instruction]lockState
		for _, cs := range p.calls(fn) {
			if !strings.HasPrefix(cs.Key, "dyn:") || cs.isDefer() || cs.isGo() {
				continue
			}
			in, ok := cs.Instr.(ssa.Instruction)
			if !ok {
				continue
			}
			if ls == nil {
				ls = p.lockSets(fn)
			}
			held := ls[in]
			if len(held) == 0 {
				continue
			}
			if p.typeStr(cs.Common.Value.Type()) == "context.CancelFunc" {
				continue // made by the context package: it does not run user code and does not panic
			}
			// the call may sit in an inlined helper: the lock is released by a defer of the helper or of its host
			deferred := map[string]bool{}
			deferredIn(fn, deferred)
			for f, k := in.Parent(), 0; f != nil && f != fn && k < 8; k++ {
				deferredIn(f, deferred)
				site := p.helperSite(f)
				if site == nil {
					break
				}
				f = site.Parent()
			}
			n++
			var paths []string
			for path := range held {
				paths = append(paths, path)
			}
			sort.Strings(paths)
			for _, path := range paths {
				r.Check(p.fnName(fn)+"#"+path+".deferred-unlock", in.Pos(), deferred[path],
					"the function value "+p.expr(cs.Common.Value)+" is called with "+path+" held, and "+path+" is released by a deferred unlock: a panic of the callee does not leave it locked",
					"the function value "+p.expr(cs.Common.Value)+" is called with "+path+" held, but "+path+" is only released by an explicit Unlock: if the callee panics (a failing Deferred constructor, a callback that calls Fatalf) the mutex stays locked, and the next test case or another check that needs it blocks forever")
			}
		}
	}
	r.Floor("function values called with a package mutex held", n, 1)
}
