package main

import (
	"fmt"
	"go/token"
	"go/types"
	"strings"

	"golang.org/x/tools/go/ssa"
)

func init() {
	register("C01", specC01)
	register("C05", specC05)
}

// ---------------------------------------------------------------------------
// C01

func specC01() *propertySpec {
	return &propertySpec{
		ID: "C01",
		Explanation: "Decides, for all properties, seeds and cut points of minimisation: (a) exactly one buffer is 'the reported test case' — the words returned by doCheck are the words " +
			"captured, persisted (with doCheck's seed) and replayed by checkTB, and the final replay logs to the TB; (b) every (buffer, error) pair handed on by doCheck, checkFailFile, shrink and " +
			"(*shrinker).shrink was established by executing the property on a stream over that buffer, or is the shrinker's current best, which only accept writes after verification (C05), or — for " +
			"the one never-executed buffer, the pruned recording — replay-equivalence is discharged structurally (discard-noninterference, C04); (c) the value logged by Draw is the value returned; " +
			"(d) a failure flag cannot be inherited from another test case; (e) 'flaky' is reachable only when the two tracebacks differ. Not decided: equality of error values on replay.",
		Assumptions: []string{"user property is a deterministic function of its draws"},
		Rules: []ruleSpec{
			{"C01-R1", "single-buffer: captureTestOutput, saveFailFile and the final replay stream all take result #5 of doCheck; the saved seed is result #3; the final replay logs to the TB", ruleC01R1},
			{"C01-R2", "verified-pair: every returned (buffer, error) pair comes from one execution on that buffer, from a callee that guarantees it, or is the shrinker's (rec.data, err) state", ruleC01R2},
			{"C01-R3", "prune-faithful: nothing derived from discarded bits steers later draws; discarded groups produce no used value; retry loops abandon the draw when their try counter runs out (shared with C04-R4.4/R4.5/R4.6/R4.7/R4.8/R5, C03-R2)", rulePruneBundle},
			{"C01-R4", "logged-is-returned: Draw logs and returns the single result of g.value(t)", ruleC01R4},
			{"C01-R5", "no-phantom-failure: every bracket invocation gets a fresh (or reset) T and consults its own flag (shared with C11-R1, C02-R2)", func(r *Run) { ruleC11R1(r); ruleC02R2(r) }},
			{"C01-R6", "flaky-only-on-mismatch: the 'flaky test' report is reachable only through traceback(err1) != traceback(err2) of doCheck's two errors", ruleC01R6},
			{"C01-R7", "failure-identity: the failure named in the report is the failure of the presented test case: minimisation compares candidates by a traceback that distinguishes a deferred failure-flag consult from a plain skip and different failure sites (shared with C05-R3)", ruleC05R3},
			{"C01-R8", "replay-reads-what-was-recorded: the presented buffer is replayed word by word as it was recorded: drawBits records exactly the masked value it returns, the buffer stream consumes one word per draw (shared with C04-R3)", func(r *Run) { ruleC04R3(r); ruleC04R3buf(r) }},
			{"C01-R9", "presented-case-sees-the-same-generator: the reproduction, every shrink attempt and the final replay draw from the generator the failing run drew from: no draw stores through or hands out generator-owned storage (shared with C15-R3)", ruleC15R3},
			{"C01-R10", "no-failure-from-an-empty-rejected-attempt: a rejected attempt that drew nothing is not turned into a panic by endGroup's assertion on either stream kind (the search stream does not record, the reproduction does: a one-sided assertion is a 'flaky' report) (shared with C13-R6)", ruleEndGroupAssertExempt},
			{"C01-R11", "an-invalid-case-is-not-a-falsification: an invalidData panic (Skip, exhausted filter, overrun) is not replaced on its way up by the assertion of a deferred endGroup (shared with C13-R9)", ruleNoDeferredEndGroup},
			{"C01-R12", "never-flaky-for-a-deterministic-property: checkTB calls a test flaky when the traceback of the error found differs from that of the error shrink returns; shrink returns the error of the last accepted candidate, and accept takes a candidate only if it fails with the traceback of the failure being minimised (shared with C05-R1)", ruleC05R1},
			{"C01-R13", "no-once-around-user-code: never-flaky also needs that no sync.Once.Do function runs user code — a panic there is remembered as done and the reproduction fails differently (shared with C04-R7)", ruleNoOnceAroundUserCode},
		},
	}
}

func ruleC01R1(r *Run) {
	p := r.P
	ct := r.MustFn("checkTB")
	if ct == nil {
		return
	}
	dcs := p.callsTo(ct, "doCheck")
	if len(dcs) != 1 {
		r.Undecided("checkTB#doCheck", ct.Pos(), "expected one doCheck call")
		return
	}
	dc := dcs[0].Value()
	for _, cs := range p.callsTo(ct, "captureTestOutput") {
		r.Check("checkTB#capture.buf", cs.Instr.Pos(), p.isResultOf(cs.Arg(2), dc, 5), "output is captured from a replay of doCheck's buffer", "captureTestOutput replays "+p.expr(cs.Arg(2))+" instead of the buffer doCheck reported")
	}
	n := 0
	for _, cs := range p.callsTo(ct, "saveFailFile") {
		n++
		r.Check("checkTB#save.buf", cs.Instr.Pos(), p.isResultOf(cs.Arg(4), dc, 5), "the persisted buffer is doCheck's buffer", "saveFailFile persists "+p.expr(cs.Arg(4))+" instead of the buffer doCheck reported")
		r.Check("checkTB#save.seed", cs.Instr.Pos(), p.isResultOf(cs.Arg(3), dc, 3), "the persisted seed is doCheck's seed", "saveFailFile persists seed "+p.expr(cs.Arg(3)))
		okOut := false
		if c, ok := p.resolve(cs.Arg(2)).(*ssa.Call); ok && p.calleeKey(c.Common()) == "captureTestOutput" {
			okOut = true
		}
		r.Check("checkTB#save.output", cs.Instr.Pos(), okOut, "the persisted output is the captured output", "saveFailFile persists output "+p.expr(cs.Arg(2)))
	}
	r.Floor("saveFailFile calls in checkTB", n, 1)
	n = 0
	for _, cs := range p.callsTo(ct, "checkOnce") {
		n++
		nt, ok := p.resolve(cs.Common.Args[0]).(*ssa.Call)
		if !ok || p.calleeKey(nt.Common()) != "newT" {
			r.Fail("checkTB#final-replay", cs.Instr.Pos(), "the final replay does not run on a fresh newT")
			continue
		}
		bs, ok := p.resolve(nt.Common().Args[1]).(*ssa.Call)
		okBuf := ok && p.calleeKey(bs.Common()) == "newBufBitStream" && p.isResultOf(bs.Common().Args[0], dc, 5)
		r.Check("checkTB#final-replay.buf", cs.Instr.Pos(), okBuf, "the final replay runs on doCheck's buffer", "the final replay runs on "+p.expr(nt.Common().Args[1])+" instead of a buffer stream over the reported buffer")
		tl, isC := constBool(p.resolve(nt.Common().Args[2]))
		r.Check("checkTB#final-replay.log", cs.Instr.Pos(), isC && tl && isNilConst(p.resolve(nt.Common().Args[3])), "the final replay logs to the TB", "the final replay does not log its draws to the TB (tbLog must be true, no raw logger)")
		r.Check("checkTB#final-replay.prop", cs.Instr.Pos(), p.expr(cs.Common.Args[1]) == "$prop", "the final replay runs the property under test", "the final replay runs "+p.expr(cs.Common.Args[1]))
		// it runs on every failure path: dominated by the not-both-nil branch and post-dominates every failure Errorf
		for _, e := range p.callsTo(ct, "invoke:tb.Errorf") {
			f, _ := constString(p.resolve(e.Arg(0)))
			if !strings.Contains(f, "Failed test output") {
				continue
			}
			byp := escapesWithout(e.Instr, func(in ssa.Instruction) bool { return in == cs.Instr.(ssa.Instruction) }, false)
			r.Check("checkTB#final-replay.after-report", e.Instr.Pos(), byp == nil, "every failure report is followed by the final replay", "a failure report announcing 'Failed test output' is not followed by the replay")
		}
	}
	r.Floor("final replay in checkTB", n, 1)
	if co := r.MustFn("captureTestOutput"); co != nil {
		for _, cs := range p.callsTo(co, "checkOnce") {
			nt, ok := p.resolve(cs.Common.Args[0]).(*ssa.Call)
			okB := false
			if ok && p.calleeKey(nt.Common()) == "newT" {
				if bs, ok := p.resolve(nt.Common().Args[1]).(*ssa.Call); ok && p.calleeKey(bs.Common()) == "newBufBitStream" && p.expr(bs.Common().Args[0]) == "$buf" {
					okB = !isNilConst(p.resolve(nt.Common().Args[3]))
				}
			}
			r.Check("captureTestOutput#replay", cs.Instr.Pos(), okB && p.expr(cs.Common.Args[1]) == "$prop", "output capture replays the given buffer with the property, logging to the capture buffer", "captureTestOutput does not replay its buf parameter with prop into the capture logger")
		}
	}
}

// streamOfCheckOnce returns the stream constructor call behind an execution of the property
// (a checkOnce call or a wrapper around one).
func (p *Program) streamOfCheckOnce(co *ssa.Call) (*ssa.Call, bool) {
	rc, ok := p.runCallOf(co)
	if !ok {
		return nil, false
	}
	sc, ok := rc.Stream.(*ssa.Call)
	if !ok {
		return nil, false
	}
	k := p.calleeKey(sc.Common())
	return sc, k == "newBufBitStream" || k == "newRandomBitStream"
}

// pairOK explains why (buf, err) is a verified pair, or returns "".
func (p *Program) pairOK(buf, err ssa.Value) string {
	buf, err = p.resolve(buf), p.resolve(err)
	if isNilConst(err) {
		return "nil error"
	}
	// (b) both results of one trusted callee
	if eb, ok := buf.(*ssa.Extract); ok {
		if ee, ok := err.(*ssa.Extract); ok && eb.Tuple == ee.Tuple {
			if c, ok := eb.Tuple.(*ssa.Call); ok {
				switch k := p.calleeKey(c.Common()); {
				case k == "shrink" && eb.Index == 0 && ee.Index == 1,
					k == "(*shrinker).shrink" && eb.Index == 0 && ee.Index == 1,
					k == "checkFailFile" && eb.Index == 0 && (ee.Index == 1 || ee.Index == 2):
					return "both are results of " + k + ", which returns verified pairs"
				}
			}
		}
	}
	// a local function literal that wraps the run (replay := func(…) *testError { …; return checkOnce(t, prop) }): the
	// error is what the literal returns
	if c, ok := err.(*ssa.Call); ok {
		if mc, ok := p.resolve(c.Common().Value).(*ssa.MakeClosure); ok {
			if lit, ok := mc.Fn.(*ssa.Function); ok {
				if rets := returnsOf(lit); len(rets) == 1 && len(rets[0].Results) == 1 {
					err = p.resolve(p.res(rets[0], 0))
				}
			}
		}
	}
	// (a) err = checkOnce on a stream over buf / recording of that stream
	if co, ok := err.(*ssa.Call); ok {
		sc, ok := p.streamOfCheckOnce(co)
		if ok {
			if p.calleeKey(sc.Common()) == "newBufBitStream" && p.same(sc.Common().Args[0], buf) {
				return "the error comes from executing the property on a buffer stream over this buffer"
			}
			ex := p.expr(buf)
			if u, isLoad := buf.(*ssa.UnOp); isLoad && strings.HasSuffix(ex, ".data") {
				// data of the recording embedded in that stream object
				root := u.X
				for i := 0; i < 4; i++ {
					if fa, ok := root.(*ssa.FieldAddr); ok {
						root = fa.X
						continue
					}
					break
				}
				if p.resolve(root) == ssa.Value(sc) {
					if persist, isC := constBool(p.resolve(sc.Common().Args[1])); isC && persist {
						return "the buffer is the recording of the very stream the failing run consumed"
					}
				}
			}
		}
	}
	// (c) shrinker state
	if p.expr(buf) == "$s.rec.data" && p.expr(err) == "$s.err" {
		return "the shrinker's current best (rec.data, err), written only by accept (C05-R1/R4)"
	}
	return ""
}

func ruleC01R2(r *Run) {
	p := r.P
	rulePairAtomic(r)
	type spec struct {
		fn      string
		bufIdx  int
		errIdxs []int
	}
	n := 0
	for _, s := range []spec{{"doCheck", 5, []int{7}}, {"checkFailFile", 0, []int{1, 2}}, {"shrink", 0, []int{1}}, {"(*shrinker).shrink", 0, []int{1}}} {
		fn := r.MustFn(s.fn)
		if fn == nil {
			continue
		}
		for _, ret := range returnsOf(fn) {
			for _, ei := range s.errIdxs {
				buf, err := p.res(ret, s.bufIdx), p.res(ret, ei)
				// named results written by a deferred closure: look through the result cells
				if isNilConst(p.resolve(err)) {
					continue
				}
				n++
				why := p.pairOK(buf, err)
				r.Check(fmt.Sprintf("%s#return.pair%d", s.fn, ei), ret.Pos(), why != "", why,
					s.fn+" returns buffer "+p.expr(buf)+" together with error "+p.expr(err)+", but that error was not obtained by executing the property on that buffer: the reported counterexample may not fail as reported")
			}
		}
	}
	// (*shrinker).shrink: results are named cells also written by the recover closure
	var recFn *ssa.Function
	if sf := r.MustFn("(*shrinker).shrink"); sf != nil {
		for _, cs := range p.calls(sf) {
			if d, ok := cs.Instr.(*ssa.Defer); ok && cs.Fn == sf {
				if f := deferredFn(p, d); f != nil && len(p.callsTo(f, "builtin:recover")) > 0 {
					recFn = f
				}
			}
		}
		if recFn == nil {
			r.Fail("(*shrinker).shrink#recover", sf.Pos(), "(*shrinker).shrink has no recovering defer: an unstable failure during minimisation escapes as a panic")
		}
	}
	if fn := recFn; fn != nil {
		var bufV, errV ssa.Value
		for _, b := range p.body(fn) {
			for _, in := range b.Instrs {
				if st, ok := in.(*ssa.Store); ok {
					// the named results of (*shrinker).shrink, identified by the position its returns load them at
					switch p.resultCellIndex(st.Addr, r.P.Fn("(*shrinker).shrink")) {
					case 0:
						bufV = st.Val
					case 1:
						errV = st.Val
					}
				}
			}
		}
		okRec := bufV != nil && errV != nil && p.expr(bufV) == "$s.rec.data"
		if ta, ok := p.resolve(errV).(*ssa.TypeAssert); !ok || ta.CommaOk || p.typeStr(ta.AssertedType) != "*testError" {
			okRec = false
		}
		n++
		r.Check("(*shrinker).shrink#recover.pair", fn.Pos(), okRec, "on an internal panic the current best buffer is returned with the recovered *testError", "the recover path of (*shrinker).shrink returns "+p.expr(bufV)+" / "+p.expr(errV))
	}
	// the normal return of (*shrinker).shrink
	if fn := r.MustFn("(*shrinker).shrink"); fn != nil {
		for _, ret := range returnsOf(fn) {
			b, e := p.res(ret, 0), p.res(ret, 1)
			n++
			r.Check("(*shrinker).shrink#return.state", ret.Pos(), p.expr(b) == "$s.rec.data" && p.expr(e) == "$s.err", "returns the current best (s.rec.data, s.err)", "(*shrinker).shrink returns "+p.expr(b)+", "+p.expr(e)+" instead of its verified state (s.rec.data, s.err)")
		}
	}
	// doCheck's first error (#6) is paired too: it is the error of the run recorded in the returned buffer or findBug's
	r.Floor("(buffer, error) pairs checked", n, 6)
	// shrink() starts from a pruning of the verified recording: its rec parameter comes from the reproduce run
	if dc := r.MustFn("doCheck"); dc != nil {
		for _, cs := range p.callsTo(dc, "shrink") {
			rec := p.resolve(cs.Arg(2))
			errA := p.resolve(cs.Arg(3))
			ok := false
			if co, isCall := errA.(*ssa.Call); isCall && p.calleeKey(co.Common()) == "checkOnce" {
				if sc, okS := p.streamOfCheckOnce(co); okS {
					if u, isLoad := rec.(*ssa.UnOp); isLoad {
						if fa, isFA := u.X.(*ssa.FieldAddr); isFA && fieldAddrName(fa) == "recordedBits" && p.resolve(fa.X) == ssa.Value(sc) && dominates(co, u) {
							ok = true
						}
					}
				}
			}
			r.Check("doCheck#shrink.start", cs.Instr.Pos(), ok, "minimisation starts from the recording of the reproduce run and that run's error", "shrink is started with recording "+p.expr(rec)+" and error "+p.expr(errA)+", which do not belong to one execution")
			r.Check("doCheck#shrink.prop", cs.Instr.Pos(), p.expr(cs.Arg(4)) == "$prop" && p.expr(cs.Arg(0)) == "$tb", "minimisation runs the property under test", "shrink receives another property / TB")
		}
	}
	if sh := r.MustFn("shrink"); sh != nil {
		// constructor: rec/err/prop fields from the parameters, prune before
		want := map[string]string{"rec": "alloc(rec)", "err": "$err", "prop": "$prop", "tb": "$tb"}
		got := map[string]string{}
		for _, b := range p.body(sh) {
			for _, in := range b.Instrs {
				if st, ok := in.(*ssa.Store); ok {
					if fa, ok := st.Addr.(*ssa.FieldAddr); ok && p.fieldAddrOwner(fa) == "shrinker" {
						got[fieldAddrName(fa)] = p.expr(st.Val)
					}
				}
			}
		}
		okC := true
		for k, v := range want {
			if got[k] != v {
				okC = false
			}
		}
		r.Check("shrink#constructor", sh.Pos(), okC, "the shrinker starts from the given (pruned) recording, error and property", fmt.Sprintf("shrinker is constructed with %v", got))
	}
}

func ruleC01R4(r *Run) {
	p := r.P
	fn := r.MustFn("(*Generator).Draw")
	if fn == nil {
		return
	}
	vals := p.callsTo(fn, "(*Generator).value")
	if len(vals) != 1 {
		r.Fail("(*Generator).Draw#value", fn.Pos(), fmt.Sprintf("Draw calls g.value %d times (expected exactly once): a logged value may come from another draw", len(vals)))
		return
	}
	v := vals[0].Value()
	r.Check("(*Generator).Draw#value.args", vals[0].Instr.Pos(), p.expr(vals[0].Recv()) == "$g" && p.expr(vals[0].Arg(0)) == "$t", "draws from its own generator on the given T", "Draw draws from "+p.expr(vals[0].Recv())+" on "+p.expr(vals[0].Arg(0)))
	for _, ret := range returnsOf(fn) {
		r.Check("(*Generator).Draw#return", ret.Pos(), p.same(p.res(ret, 0), v), "the returned value is the drawn value", "Draw returns "+p.expr(p.res(ret, 0))+" instead of the drawn value")
	}
	n := 0
	for _, cs := range p.callsTo(fn, "(*T).Logf") {
		f, _ := constString(p.resolve(cs.Arg(0)))
		if !strings.Contains(f, "draw") {
			continue
		}
		n++
		args := p.variadicArgs(cs.Arg(1))
		vi := verbIndex(f, "draw %v: ")
		ok := vi >= 0 && vi < len(args) && args[vi] != nil && p.same(args[vi], v)
		r.Check("(*Generator).Draw#log", cs.Instr.Pos(), ok, "the logged value is the drawn value", "the '[rapid] draw' line logs something other than the value handed to the property")
		// the draw is logged exactly when a log sink is configured: never skipped while logging is on (the
		// "Failed test output" would then not show the values of the reported test case)
		sets := p.pathConds(fn, cs.Instr.Block(), func(rl rel) bool { return rl.X == "$t.tbLog" || rl.X == "$t.rawLog" })
		okGuard := len(sets) > 0
		seenTB, seenRaw := false, false
		for _, set := range sets {
			hasTB, hasRaw := false, false
			contradictory := false
			for _, lit := range set {
				if lit == "$t.tbLog == false" {
					for _, l2 := range set {
						if l2 == "$t.tbLog == true" {
							contradictory = true
						}
					}
				}
			}
			if contradictory {
				continue
			}
			for _, lit := range set {
				switch lit {
				case "$t.tbLog == true":
					hasTB = true
				case "$t.rawLog != nil":
					hasRaw = true
				}
			}
			if !hasTB && !hasRaw {
				okGuard = false // logged with no sink configured
			}
			// each sink alone is sufficient
			if hasTB && !hasRaw {
				seenTB = true
			}
			if hasRaw && !hasTB {
				seenRaw = true
			}
		}
		r.Check("(*Generator).Draw#log-guard", cs.Instr.Pos(), okGuard && seenTB && seenRaw, "the draw is logged whenever t.tbLog or t.rawLog is set", "the '[rapid] draw' line is not written exactly when a log sink is configured (paths: "+fmt.Sprint(sets)+"): the replayed 'Failed test output' misses the drawn values")
	}
	r.Floor("draw log lines", n, 1)
}

func ruleC01R6(r *Run) {
	p := r.P
	ct := r.MustFn("checkTB")
	if ct == nil {
		return
	}
	dcs := p.callsTo(ct, "doCheck")
	if len(dcs) != 1 {
		return
	}
	e1, e2 := extractOr(dcs[0].Value(), 6), extractOr(dcs[0].Value(), 7)
	n := 0
	for _, cs := range p.callsTo(ct, "invoke:tb.Errorf") {
		f, _ := constString(p.resolve(cs.Arg(0)))
		flaky := strings.Contains(f, "flaky")
		failed := strings.Contains(f, "failed after") || strings.Contains(f, "panic after")
		if !flaky && !failed {
			continue
		}
		n++
		// the guard: traceback(e1) ==/!= traceback(e2)
		eq, neq := false, false
		for _, g := range guardsOf(cs.Instr.Block()) {
			bo, ok := p.resolve(g.Cond).(*ssa.BinOp)
			if !ok || (bo.Op != token.EQL && bo.Op != token.NEQ) {
				continue
			}
			x, okx := p.resolve(bo.X).(*ssa.Call)
			y, oky := p.resolve(bo.Y).(*ssa.Call)
			if !okx || !oky || p.calleeKey(x.Common()) != "traceback" || p.calleeKey(y.Common()) != "traceback" {
				continue
			}
			a, b := x.Common().Args[0], y.Common().Args[0]
			if !((p.same(a, e1) && p.same(b, e2)) || (p.same(a, e2) && p.same(b, e1))) {
				continue
			}
			isEq := (bo.Op == token.EQL) == g.Pol
			eq, neq = eq || isEq, neq || !isEq
		}
		if flaky {
			r.Check("checkTB#flaky", cs.Instr.Pos(), neq && !eq, "'flaky test' is reported only when the tracebacks of doCheck's two errors differ", "'flaky test' is reachable without traceback(err1) != traceback(err2)")
		} else {
			r.Check("checkTB#failed", cs.Instr.Pos(), eq && !neq, "a reproducible failure is reported only when the two tracebacks agree", "the failure report is reachable although the tracebacks may differ")
			// the error named in the message is err2
			args := p.variadicArgs(cs.Arg(1))
			vi := verbIndex(f, "tests: ")
			r.Check("checkTB#failed.err", cs.Instr.Pos(), vi >= 0 && vi < len(args) && p.same(args[vi], e2), "the failure named in the message is the error of the reported test case", "the message names an error other than doCheck's second error")
		}
	}
	r.Floor("failure reports in checkTB", n, 3)
}

// ---------------------------------------------------------------------------
// C05

func specC05() *propertySpec {
	return &propertySpec{
		ID: "C05",
		Explanation: "Decides that the shrinker's current best (rec, err) is replaced only by accept, only by a candidate that compared strictly shortlex-smaller than the current best " +
			"(before any write) and whose execution produced the same traceback as the current failure, that the new state is the recording / error of executions on that same candidate and is " +
			"confirmed by sameError (else the shrinker aborts), that the pruned recording is asserted not larger than the candidate, and that (*shrinker).shrink returns exactly that state; " +
			"compareData is a shortlex comparator; tracebacks stop at checkOnce; every pass loop re-checks the deadline per step; candidates are fresh copies, never aliases of the current best. " +
			"Strict decrease in the well-founded shortlex order gives termination without a time limit. Not decided: quality of the minimum (C12), that equal tracebacks mean the same bug to the user.",
		Rules: []ruleSpec{
			{"C05-R1", "accept-guards: stores to s.rec/s.err are dominated by compareData(buf, s.rec.data) < 0 and traceback(e1) == traceback(s.err); e1/e2 come from runs on buf; sameError confirms or panics; prune then assert <=", ruleC05R1},
			{"C05-R2", "shortlex: compareData returns -1/1/0 exactly under the length-then-lexicographic conditions", ruleC05R2},
			{"C05-R3", "traceback-scope: sameError compares message and traceback; tracebacks stop at the function that invokes the property (tracebackStop = checkOnce)", ruleC05R3},
			{"C05-R4", "who-may-write: s.rec and s.err are stored only in accept and the constructor; shrink returns (s.rec.data, s.err)", ruleC05R4},
			{"C05-R5", "deadline-per-step: the round loop and the outermost loop of every pass test time.Now().Before(deadline); every accept call happens inside such a loop; the deadline is handed down unchanged", ruleC05R5},
			{"C05-R6", "candidates-from-current: every buffer passed to accept is a fresh copy (without / append(nil, …)); nothing stores through s.rec.data", ruleC05R6},
			{"C05-R7", "prune-faithful: the buffer minimisation returns is the pruned recording of a verified run; pruning is replay-neutral, i.e. nothing derived from discarded bits steers later draws and an exhausted retry loop abandons the draw, the element of a rejected collection step is never accumulated (shared with C04-R4.4/R4.5/R4.6/R4.7/R4.8/R5, C03-R2)", rulePruneBundle},
			{"C05-R8", "minimisation-has-its-own-budget: shrink's deadline is shrinkDeadline(deadline) evaluated after the search (shared with C12-R5)", ruleShrinkBudget},
			{"C05-R9", "a-fatal-failure-has-its-own-site: the failure site is the stack at which the test case panics: Fatal/Fatalf/FailNow panic inside (*T).fail on every path with now == true (also while cleanups run), otherwise the panic comes later from the deferred flag consult and all fatal sites collapse into the one non-fatal site, between which minimisation then moves freely (shared with C02-R1)", ruleC02R1},
		},
	}
}

func ruleC05R1(r *Run) {
	p := r.P
	fn := r.MustFn("(*shrinker).accept")
	if fn == nil {
		return
	}
	bufP := paramNamed(fn, "buf")
	// the comparison
	var cmp *ssa.Call
	smallerOp := "<" // compareData(buf, best) < 0, or — the comparator being antisymmetric (C05-R2) — compareData(best, buf) > 0
	// (the guard is the comparison that comes first; the one after prune() belongs to the assertion checked below)
	for _, cs := range p.callsTo(fn, "compareData") {
		c, isCall := cs.Instr.(*ssa.Call)
		if !isCall || (cmp != nil && !dominates(c, cmp)) {
			continue
		}
		if p.resolve(cs.Arg(0)) == ssa.Value(bufP) && p.expr(cs.Arg(1)) == "$s.rec.data" {
			cmp, smallerOp = c, "<"
		} else if p.resolve(cs.Arg(1)) == ssa.Value(bufP) && p.expr(cs.Arg(0)) == "$s.rec.data" {
			cmp, smallerOp = c, ">"
		}
	}
	if cmp == nil {
		r.Fail("(*shrinker).accept#compare", fn.Pos(), "accept never compares the candidate with the current best: compareData(buf, s.rec.data)")
		return
	}
	rcs := p.runCalls(fn)
	if len(rcs) != 2 {
		r.Fail("(*shrinker).accept#runs", fn.Pos(), fmt.Sprintf("accept executes the candidate %d times (expected twice: verify, then record)", len(rcs)))
		return
	}
	rc1, rc2 := rcs[0], rcs[1]
	if dominates(rc2.Call, rc1.Call) {
		rc1, rc2 = rc2, rc1
	}
	co1 := &callSite{Fn: fn, Instr: rc1.Call, Common: rc1.Call.Common(), Key: p.calleeKey(rc1.Call.Common())}
	co2 := &callSite{Fn: fn, Instr: rc2.Call, Common: rc2.Call.Common(), Key: p.calleeKey(rc2.Call.Common())}
	e1, e2 := co1.Value(), co2.Value()
	for i, rc := range []*runCall{rc1, rc2} {
		sc, ok := rc.Stream.(*ssa.Call)
		okB := ok && p.calleeKey(sc.Common()) == "newBufBitStream" && p.resolve(sc.Common().Args[0]) == ssa.Value(bufP)
		r.Check(fmt.Sprintf("(*shrinker).accept#run%d.buf", i+1), rc.Call.Pos(), okB && rc.Prop == "$s.prop", "the candidate itself is executed with the property", "accept executes something other than the candidate buffer / the property")
	}
	var recStores, errStores []*ssa.Store
	for _, fa := range p.fieldAccesses("shrinker") {
		if !p.within(fa.Fn, fn) || fa.Kind != "write" {
			continue
		}
		switch fa.Field {
		case "rec":
			recStores = append(recStores, fa.Instr.(*ssa.Store))
		case "err":
			errStores = append(errStores, fa.Instr.(*ssa.Store))
		}
	}
	r.Floor("stores to s.rec in accept", len(recStores), 1)
	r.Floor("stores to s.err in accept", len(errStores), 1)
	cmpKey := p.expr(cmp)
	tbGuard := func(in ssa.Instruction) (bool, *ssa.BinOp) {
		for _, g := range guardsOf(in.Block()) {
			bo, ok := p.resolve(g.Cond).(*ssa.BinOp)
			if !ok || (bo.Op != token.EQL && bo.Op != token.NEQ) {
				continue
			}
			if (bo.Op == token.EQL) != g.Pol {
				continue
			}
			x, okx := p.resolve(bo.X).(*ssa.Call)
			y, oky := p.resolve(bo.Y).(*ssa.Call)
			if !okx || !oky || p.calleeKey(x.Common()) != "traceback" || p.calleeKey(y.Common()) != "traceback" {
				continue
			}
			a, b := x.Common().Args[0], y.Common().Args[0]
			if (p.same(a, e1) && p.expr(b) == "$s.err") || (p.same(b, e1) && p.expr(a) == "$s.err") {
				return true, bo
			}
		}
		return false, nil
	}
	for _, st := range append(append([]*ssa.Store{}, recStores...), errStores...) {
		what := p.expr(st.Addr)
		smaller := holds(p.facts(st), cmpKey, smallerOp, "0")
		r.Check("(*shrinker).accept#store."+what+".smaller", st.Pos(), smaller && dominates(cmp, st), "written only after the candidate compared strictly smaller than the current best", what+" is written without the guard compareData(buf, s.rec.data) < 0: minimisation can move to an equal or larger test case (no termination guarantee)")
		okTB, bo := tbGuard(st)
		r.Check("(*shrinker).accept#store."+what+".same-failure", st.Pos(), okTB && bo != nil && dominates(bo, st), "written only after the candidate's run produced the same traceback as the current failure", what+" is written without the guard traceback(err1) == traceback(s.err): minimisation can move to a different failure")
	}
	rulePairAtomic(r)
	// the comparison reads the current best before any write
	for _, st := range recStores {
		r.Check("(*shrinker).accept#compare-before-write", st.Pos(), dominates(cmp, st), "the comparison reads s.rec before it is written", "s.rec is written before the comparison")
	}
	for _, st := range errStores {
		r.Check("(*shrinker).accept#store.err.value", st.Pos(), p.same(st.Val, e1) || p.same(st.Val, e2), "s.err becomes the error of a run on the candidate", "s.err is set to "+p.expr(st.Val)+", which is not the error of a run on the candidate")
	}
	for _, st := range recStores {
		// value: recordedBits of the persisting stream of run 2, stored after that run
		sc2, _ := p.streamOfCheckOnce(co2.Instr.(*ssa.Call))
		ok := false
		if u, isLoad := p.resolve(st.Val).(*ssa.UnOp); isLoad && sc2 != nil {
			if fa, isFA := u.X.(*ssa.FieldAddr); isFA && fieldAddrName(fa) == "recordedBits" && p.resolve(fa.X) == ssa.Value(sc2) {
				persist, isC := constBool(p.resolve(sc2.Common().Args[1]))
				ok = isC && persist && dominates(co2.Instr, u)
			}
		}
		r.Check("(*shrinker).accept#store.rec.value", st.Pos(), ok, "s.rec becomes the recording of the second run on the candidate", "s.rec is set to "+p.expr(st.Val)+", which is not the recording of an execution of the candidate")
		// prune then assert
		var pr *callSite
		for _, c := range p.callsTo(fn, "(*recordedBits).prune") {
			if p.expr(c.Recv()) == "&$s.rec" && dominates(st, c.Instr) {
				pr = c
			}
		}
		okAssert := false
		if pr != nil {
			for _, a := range p.callsTo(fn, "assert") {
				if p.expr(a.Arg(0)) == "(compareData($s.rec.data, $buf) <= 0)" && dominates(pr.Instr, a.Instr) {
					okAssert = true
				}
			}
		}
		r.Check("(*shrinker).accept#prune-not-larger", st.Pos(), pr != nil && okAssert, "the new recording is pruned and asserted not larger than the candidate", "after storing s.rec, accept does not prune it and assert compareData(s.rec.data, buf) <= 0")
	}
	// return true only under sameError(e1, e2); the other edge panics with e2
	nTrue := 0
	for _, ret := range returnsOf(fn) {
		b, isC := constBool(p.resolve(p.res(ret, 0)))
		if !isC {
			r.Fail("(*shrinker).accept#return", ret.Pos(), "accept returns a non-constant")
			continue
		}
		if !b {
			continue
		}
		nTrue++
		okSame := false
		for _, g := range guardsOf(ret.Block()) {
			if c, ok := p.resolve(g.Cond).(*ssa.Call); ok && g.Pol && p.calleeKey(c.Common()) == "sameError" {
				a0, a1 := c.Common().Args[0], c.Common().Args[1]
				if (p.same(a0, e1) && p.same(a1, e2)) || (p.same(a0, e2) && p.same(a1, e1)) {
					okSame = true
					// the false edge panics with e2
					fb := g.If.Block().Succs[1]
					okPanic := false
					for _, in := range fb.Instrs {
						if pn, ok := in.(*ssa.Panic); ok && (p.same(pn.X, e2) || p.same(pn.X, e1)) {
							okPanic = true
						}
					}
					r.Check("(*shrinker).accept#unstable-aborts", g.If.Pos(), okPanic, "if the two runs disagree the shrinker aborts with that error", "the sameError==false edge of accept does not abort by panicking with the run's error")
				}
			}
		}
		okTB, _ := tbGuard(ret)
		r.Check("(*shrinker).accept#return-true", ret.Pos(), okSame && okTB && holds(p.facts(ret), cmpKey, smallerOp, "0"), "accept reports success only for a strictly smaller candidate that failed the same way twice", "accept can return true without sameError(err1, err2) / same traceback / strictly smaller")
	}
	r.Floor("successful returns of accept", nTrue, 1)
}

func ruleC05R2(r *Run) {
	p := r.P
	fn := r.MustFn("compareData")
	if fn == nil {
		return
	}
	la, lb := "builtin:len($a)", "builtin:len($b)"
	n := 0
	for _, ret := range returnsOf(fn) {
		c, ok := constInt(p.resolve(p.res(ret, 0)))
		if !ok {
			// the library form: cmp.Compare(len(a), len(b)) where the lengths differ, slices.Compare(a, b) — which for
			// equal lengths is exactly the element-wise comparison — where they do not
			ex := p.expr(p.res(ret, 0))
			lenCmp := "cmp.Compare(" + la + ", " + lb + ")"
			facts := p.facts(ret)
			switch {
			case ex == lenCmp && holds(facts, lenCmp, "!=", "0"):
				n += 2
				r.OK("compareData#return.lengths", ret.Pos(), "lengths differ: the result is the comparison of the lengths")
			case ex == "slices.Compare($a, $b)" && (holds(facts, lenCmp, "==", "0") || holds(facts, la, "==", lb)):
				n += 3
				r.OK("compareData#return.elements", ret.Pos(), "equal lengths: the result is the lexicographic comparison of the elements")
			default:
				r.Fail("compareData#return", ret.Pos(), "compareData returns a non-constant: "+ex+" under "+factsStr(facts))
			}
			continue
		}
		n++
		facts := p.facts(ret)
		sameLen := (holds(facts, la, ">=", lb) && holds(facts, la, "<=", lb)) || holds(facts, la, "==", lb)
		longer := holds(facts, la, ">", lb) || (holds(facts, la, ">=", lb) && holds(facts, la, "!=", lb))
		shorter := holds(facts, la, "<", lb) || (holds(facts, la, "<=", lb) && holds(facts, la, "!=", lb))
		elemLess, elemGreater := false, false
		for _, f := range facts {
			if strings.HasPrefix(f.X, "$b[") && strings.HasPrefix(f.Y, "$a[") {
				f = rel{f.Y, flipOp[f.Op], f.X} // written the other way round
			}
			if strings.HasPrefix(f.X, "$a[") && strings.HasPrefix(f.Y, "$b[") && f.X[2:] == f.Y[2:] {
				if f.Op == "<" {
					elemLess = true
				}
				if f.Op == ">" {
					elemGreater = true
				}
			}
		}
		switch c {
		case -1:
			ok := shorter || (sameLen && elemLess)
			r.Check("compareData#return-1", ret.Pos(), ok, "-1 exactly when a is shorter, or equally long and smaller at the first difference", "compareData returns -1 under "+factsStr(facts)+": not a shortlex 'less'")
		case 1:
			ok := longer || (sameLen && elemGreater)
			r.Check("compareData#return+1", ret.Pos(), ok, "1 exactly when a is longer, or equally long and larger at the first difference", "compareData returns 1 under "+factsStr(facts)+": not a shortlex 'greater'")
		case 0:
			// after the element loop only
			afterLoop := false
			for _, f := range facts {
				// the exit edge of the element loop: index >= len (range loop or index loop, either orientation)
				isLen := func(s string) bool { return strings.HasPrefix(s, "builtin:len(") }
				if (f.Op == ">=" && (f.Y == la || f.Y == lb) && !isLen(f.X)) || (f.Op == "<=" && (f.X == la || f.X == lb) && !isLen(f.Y)) {
					afterLoop = true
				}
			}
			r.Check("compareData#return0", ret.Pos(), sameLen && afterLoop && !elemLess && !elemGreater, "0 only for equally long slices after all elements compared equal", "compareData returns 0 under "+factsStr(facts))
		default:
			r.Fail("compareData#return", ret.Pos(), fmt.Sprintf("compareData returns %d", c))
		}
	}
	r.Floor("returns of compareData", n, 5)
	// the element loop continues only on equality: inside the loop both inequalities return
	for _, l := range loopsOf(fn) {
		rets := 0
		for b := range l.Body {
			for _, s := range b.Succs {
				if !l.Body[s] {
					if _, ok := s.Instrs[len(s.Instrs)-1].(*ssa.Return); ok {
						rets++
					}
				}
			}
		}
		r.Check("compareData#loop-exits", l.Header.Instrs[0].Pos(), rets >= 3, "the element loop leaves on the first difference (both directions) or at the end", fmt.Sprintf("the element loop has %d returning exits (expected 3: less, greater, end)", rets))
	}
}

func ruleC05R3(r *Run) {
	p := r.P
	if fn := r.MustFn("sameError"); fn != nil {
		haveMsg, haveTB := false, false
		for _, b := range p.body(fn) {
			for _, in := range b.Instrs {
				bo, ok := in.(*ssa.BinOp)
				if !ok || bo.Op != token.EQL {
					continue
				}
				x, okx := p.resolve(bo.X).(*ssa.Call)
				y, oky := p.resolve(bo.Y).(*ssa.Call)
				if !okx || !oky {
					continue
				}
				kx, ky := p.calleeKey(x.Common()), p.calleeKey(y.Common())
				args := p.expr(x.Common().Args[0]) + "," + p.expr(y.Common().Args[0])
				okArgs := args == "$err1,$err2" || args == "$err2,$err1"
				if kx == "errorString" && ky == "errorString" && okArgs {
					haveMsg = true
				}
				if kx == "traceback" && ky == "traceback" && okArgs {
					haveTB = true
				}
			}
		}
		// the result is the conjunction: every returning path with result true has both comparisons true
		okConj := true
		p.pathsFrom(fn.Blocks[0], 100, func(cp *cfgPath, back bool) {
			last := cp.blocks[len(cp.blocks)-1]
			ret, ok := last.Instrs[len(last.Instrs)-1].(*ssa.Return)
			if !ok || cp.infeasible {
				return
			}
			v := cp.onPath(p.res(ret, 0))
			if c, isC := v.(*ssa.Const); isC {
				if b, _ := constBool(c); b {
					okConj = false
				}
				return
			}
			// result is the last comparison; the earlier one must be known true on this path
			n := 0
			for _, val := range cp.known {
				if val {
					n++
				}
			}
			if _, isBin := v.(*ssa.BinOp); !isBin || n == 0 {
				okConj = false
			}
		})
		r.Check("sameError", fn.Pos(), haveMsg && haveTB && okConj, "sameError = equal message AND equal traceback", "sameError no longer requires both the error message and the traceback to be equal")
	}
	stop, pos, ok := p.constStringNamed("tracebackStop")
	if !ok {
		r.Undecided("anchor:tracebackStop", token.NoPos, "anchor unresolved: constant tracebackStop")
		return
	}
	// the function that invokes prop under the recovering defer
	var invoker *ssa.Function
	for _, fn := range p.FuncList {
		for _, cs := range p.calls(fn) {
			if pr, ok := p.resolve(cs.Common.Value).(*ssa.Parameter); ok && pr.Name() == "prop" && cs.Common.StaticCallee() == nil && !cs.Common.IsInvoke() {
				invoker = fn
			}
		}
	}
	full := ""
	if invoker != nil {
		full = rapidPath + "." + invoker.Name()
	}
	r.Check("tracebackStop", pos, invoker != nil && stop == full, fmt.Sprintf("tracebackStop %q names the function that invokes the property under the recovering defer", stop),
		fmt.Sprintf("tracebackStop is %q but the property is invoked by %q: tracebacks no longer stop at the invocation frame, so call sites above it (which differ between generation and minimisation) enter the comparison, or frames inside the property are cut", stop, full))
	if pe := r.MustFn("panicToError"); pe != nil {
		ok := false
		for _, cs := range p.callsTo(pe, "strings.HasSuffix") {
			if s, _ := constString(p.resolve(cs.Arg(1))); s == stop && strings.HasSuffix(p.expr(cs.Arg(0)), ".Function") {
				ok = true
			}
		}
		r.Check("panicToError#stop", pe.Pos(), ok, "the frame walk stops at tracebackStop", "panicToError no longer stops the frame walk at tracebackStop")
		// frames are recorded with file:line and function
		// (file, line and function of every frame flow into what is written to the traceback, by whatever formatting)
		written := map[string]bool{}
		for _, cs := range p.callsTo(pe, "fmt.Fprintf", "fmt.Fprint", "fmt.Fprintln", "fmt.Sprintf", "(*strings.Builder).WriteString", "(*strings.Builder).WriteByte", "(*strings.Builder).WriteRune", "strconv.Itoa", "strconv.FormatInt") {
			var args []ssa.Value
			for k, a := range cs.Common.Args {
				if vs := p.variadicArgs(a); len(vs) > 0 && k == len(cs.Common.Args)-1 && strings.HasPrefix(cs.Key, "fmt.") {
					args = append(args, vs...)
				} else {
					args = append(args, a)
				}
			}
			for _, a := range args {
				if a == nil {
					continue
				}
				ex := p.expr(a)
				for _, f := range []string{"File", "Line", "Function"} {
					if strings.Contains(ex, "."+f) {
						written[f] = true
					}
				}
			}
		}
		okFmt := written["File"] && written["Line"] && written["Function"]
		r.Check("panicToError#frames", pe.Pos(), okFmt, "each frame is recorded as file:line in function", "panicToError no longer records file:line per frame: distinct failure sites can get equal tracebacks")
		// the frame walk ends only at the stop frame or when the frames are exhausted: every frame inside the property is kept
		for _, l := range loopsOf(pe) {
			for b := range l.Body {
				iff, isIf := b.Instrs[len(b.Instrs)-1].(*ssa.If)
				for si, succ := range b.Succs {
					if l.Body[succ] {
						continue
					}
					okExit := false
					desc := "unconditional exit"
					if isIf {
						rl := p.relOf(guard{Cond: iff.Cond, Pol: si == 0})
						desc = rl.String()
						if strings.Contains(rl.X, "strings.HasSuffix(") || strings.Contains(rl.X, "(*runtime.Frames).Next") || p.isFramesMore(iff.Cond, 0) {
							okExit = true
						}
					}
					r.Check("panicToError#walk-exit", b.Instrs[len(b.Instrs)-1].Pos(), okExit, "the frame walk is left on "+desc, "the frame walk of panicToError can also be left on "+desc+": frames inside the property are cut from the traceback, so two failure sites that differ only in the cut frames compare equal and minimisation can move to a different failure")
				}
			}
		}
		// … and inside the walk a frame is left out only as a leading runtime / blacklisted frame: every cycle of the
		// loop that writes nothing has taken a branch on the blacklist lookup or the runtime prefix. A frame dropped for
		// any other reason (equal to the previous one, of some package, beyond a count) merges failure sites that differ
		// only in such frames — recursion depths, for instance.
		for _, l := range loopsOf(pe) {
			writes := map[ssa.Instruction]bool{}
			for _, cs := range p.callsTo(pe, "fmt.Fprintf", "fmt.Fprint", "fmt.Fprintln", "(*strings.Builder).WriteString", "(*strings.Builder).WriteByte", "(*strings.Builder).WriteRune") {
				if l.Body[cs.Instr.Block()] {
					writes[cs.Instr] = true
				}
			}
			if len(writes) == 0 {
				continue // a loop that only skips (a two-loop form) is judged by its exits
			}
			bad := ""
			complete := p.pathsFrom(l.Header, 2000, func(cp *cfgPath, back bool) {
				if bad != "" || !back || cp.infeasible {
					return
				}
				wrote, special := false, false
				for i, b := range cp.blocks[:len(cp.blocks)-1] {
					for _, in := range b.Instrs {
						if writes[in] {
							wrote = true
						}
					}
					if iff, ok := b.Instrs[len(b.Instrs)-1].(*ssa.If); ok && i+1 < len(cp.blocks) && b.Succs[0] != b.Succs[1] {
						// (a condition that is a phi — `special := a || b` — stands for the operand of the edge taken)
						rl := p.relOf(guard{Cond: cp.onPath(iff.Cond), Pol: b.Succs[0] == cp.blocks[i+1]})
						if rl.Y == "true" && rl.Op == "==" && (strings.Contains(rl.X, "tracebackBlacklist[") || strings.Contains(rl.X, "G:tracebackBlacklist") || (strings.Contains(rl.X, "strings.HasPrefix(") && strings.Contains(rl.X, ".Function") && (strings.Contains(rl.X, "runtimePrefix") || strings.Contains(rl.X, `"runtime.`)))) {
							special = true
						}
					}
				}
				if !wrote && !special {
					bad = cp.String()
				}
			})
			if !complete {
				r.Undecided("panicToError#every-frame-written", l.Header.Instrs[0].Pos(), "too many paths in the frame loop")
			} else {
				r.Check("panicToError#every-frame-written", l.Header.Instrs[0].Pos(), bad == "", "a cycle of the frame walk that writes nothing has skipped a runtime or blacklisted frame", "the frame walk of panicToError can skip a frame that is neither a runtime nor a blacklisted one (cycle "+bad+" writes nothing): failure sites that differ only in the skipped frames — e.g. recursion depths — get equal tracebacks, and minimisation can move from the failure that was found to another one")
			}
		}
		if c, ok := p.Types.Scope().Lookup("tracebackLen").(*types.Const); ok {
			n, _ := constantInt(c)
			r.Check("tracebackLen", c.Pos(), n >= 32, fmt.Sprintf("up to %d frames are captured", n), fmt.Sprintf("only %d frames are captured (tracebackLen): failure sites deeper than that are indistinguishable", n))
		}
		// traceback stored into the error
		for _, ret := range returnsOf(pe) {
			if isNilConst(p.resolve(p.res(ret, 0))) {
				r.Check("panicToError#nil", ret.Pos(), holds(p.facts(ret), "$p", "==", "nil"), "nil only for a nil panic value", "panicToError returns nil for a non-nil panic value")
			}
		}
	}
	// blacklist entries name existing functions
	for _, f := range p.Files {
		_ = f
	}
	if g := p.SPkg.Var("tracebackBlacklist"); g != nil {
		// keys are written in init
		initFn := p.SPkg.Func("init")
		n := 0
		if initFn != nil {
			for _, b := range initFn.Blocks {
				for _, in := range b.Instrs {
					mu, ok := in.(*ssa.MapUpdate)
					if !ok {
						continue
					}
					key, ok := constString(p.resolve(mu.Key))
					if !ok || !strings.HasPrefix(key, rapidPath+".") {
						continue
					}
					n++
					name := strings.TrimPrefix(key, rapidPath+".")
					name = strings.Replace(name, "[...]", "", -1)
					name = strings.Replace(name, ".func", "$", 1)
					bf := p.Fn(name)
					r.Check("tracebackBlacklist."+name, mu.Pos(), bf != nil, "blacklisted frame "+key+" names an existing function", "tracebackBlacklist entry "+key+" names no existing function ("+name+"): a frame that differs between runs enters the traceback comparison")
					if bf != nil {
						// only re-panicking recover filters may be hidden: they sit on top of the real failure frames.
						// Hiding any other function removes frames that distinguish a failure from a skip (or one site from another).
						class, _ := r.classifyRecoverFn(bf)
						r.Check("tracebackBlacklist."+name+"#is-recover-filter", mu.Pos(), class == "B", "the hidden frame is an invalidData recover filter (re-panics everything else)",
							"tracebackBlacklist hides "+key+", which is not a re-panicking recover filter: leading frames that tell a real failure from a skipped test case (or two failure sites apart) are dropped from the comparison, so minimisation can move to a test case that does not fail at all")
					}
				}
			}
		}
		r.Floor("tracebackBlacklist entries", n, 2)
	}
}

func ruleC05R4(r *Run) {
	p := r.P
	n := 0
	for _, fa := range p.fieldAccesses("shrinker") {
		if fa.Field != "rec" && fa.Field != "err" {
			continue
		}
		name := p.hostName(fa.Fn)
		switch fa.Kind {
		case "write":
			n++
			ok := name == "(*shrinker).accept" || (name == "shrink" && strings.HasPrefix(p.expr(fa.Base), "&alloc(complit)"))
			r.Check(name+"#"+fa.Field+".write", fa.Instr.Pos(), ok, "current best written by accept / the constructor", "shrinker."+fa.Field+" is written in "+name+": the current best changes without accept's verification")
		case "read", "nested":
		default:
			if strings.HasPrefix(fa.Kind, "call:(*recordedBits).prune") && name == "(*shrinker).accept" {
				continue
			}
			r.Fail(name+"#"+fa.Field+"."+fa.Kind, fa.Instr.Pos(), "address of shrinker."+fa.Field+" is passed to "+fa.Kind+" in "+name)
		}
	}
	r.Floor("stores to shrinker.rec / shrinker.err", n, 4)
	// writes through s.rec (its data / groups) outside accept's prune
	for _, fn := range p.FuncList {
		for _, b := range p.body(fn) {
			for _, in := range b.Instrs {
				st, ok := in.(*ssa.Store)
				if !ok {
					continue
				}
				a := p.expr(st.Addr)
				if strings.HasPrefix(a, "&$s.rec.") && p.fnName(fn) != "(*shrinker).accept" {
					r.Fail(p.fnName(fn)+"#store-through-rec", st.Pos(), "store to "+a+" in "+p.fnName(fn)+": the current best is modified in place without verification")
				}
			}
		}
	}
	// the passes reach the state only through accept
	passes := []string{"(*shrinker).removeGroups", "(*shrinker).minimizeBlocks", "(*shrinker).lowerFloatHack", "(*shrinker).removeGroupsAndLower", "(*shrinker).sortGroups", "(*shrinker).removeGroupSpans"}
	for _, name := range passes {
		fn := r.MustFn(name)
		if fn == nil {
			continue
		}
		cl := p.closureOf([]*ssa.Function{fn})
		acc := r.P.Fn("(*shrinker).accept")
		r.Check(name+"#uses-accept", fn.Pos(), acc != nil && cl[acc], "the pass proposes candidates through accept", name+" never calls accept")
	}
}

func ruleC05R5(r *Run) {
	p := r.P
	passes := []string{"(*shrinker).shrink", "(*shrinker).removeGroups", "(*shrinker).minimizeBlocks", "(*shrinker).lowerFloatHack", "(*shrinker).removeGroupsAndLower", "(*shrinker).sortGroups", "(*shrinker).removeGroupSpans"}
	guarded := map[*ssa.BasicBlock]bool{} // blocks inside a deadline-guarded loop
	n := 0
	isDeadlineFact := func(f rel) bool {
		return f.X == "(time.Time).Before(time.Now(), $deadline)" && f.Op == "==" && f.Y == "true"
	}
	for _, name := range passes {
		fn := r.MustFn(name)
		if fn == nil {
			continue
		}
		// outermost loops
		ls := loopsOf(fn)
		found := false
		for _, l := range ls {
			outer := true
			for _, m := range ls {
				if m != l && m.Body[l.Header] && len(m.Body) > len(l.Body) {
					outer = false
				}
			}
			if !outer {
				continue
			}
			if strings.HasPrefix(l.Header.Comment, "range") && name == "(*shrinker).shrink" {
				continue // the debug summary loop over s.tries
			}
			// the loop body (first block after the header conditions) must carry the deadline fact
			ok := false
			for b := range l.Body {
				for _, f := range guardsOfRel(p, b) {
					if isDeadlineFact(f) {
						// the guarding If must be inside the loop (re-evaluated per iteration)
						ok = true
					}
				}
			}
			deadlineIn := false
			for b := range l.Body {
				if iff, isIf := b.Instrs[len(b.Instrs)-1].(*ssa.If); isIf {
					if isDeadlineFact(p.relOf(guard{Cond: iff.Cond, Pol: true})) && (!l.Body[b.Succs[1]]) && nowInLoop(p, iff.Cond, l) {
						deadlineIn = true
						for bb := range l.Body {
							if b.Succs[0].Dominates(bb) {
								guarded[bb] = true
							}
						}
					}
				}
			}
			found = true
			n++
			r.Check(name+"#loop-deadline", l.Header.Instrs[0].Pos(), ok && deadlineIn, "the loop tests time.Now().Before(deadline) before every step and exits when it fails", "the outermost loop of "+name+" does not re-check time.Now().Before(deadline) per iteration: minimisation can overrun -rapid.shrinktime / the test deadline")
		}
		if !found {
			r.Fail(name+"#loop-deadline", fn.Pos(), name+" has no outer loop")
		}
		// deadline parameter handed down unchanged
		for _, cs := range p.calls(fn) {
			if sc := cs.Common.StaticCallee(); sc != nil && strings.HasPrefix(p.fnName(sc), "(*shrinker).") && paramNamed(sc, "deadline") != nil {
				r.Check(name+"#deadline→"+p.fnName(sc), cs.Instr.Pos(), p.expr(cs.Arg(0)) == "$deadline", "deadline handed down unchanged", "deadline passed to "+p.fnName(sc)+" is "+p.expr(cs.Arg(0)))
			}
		}
	}
	r.Floor("deadline-guarded pass loops", n, 7)
	// every accept call (or the closure containing it) sits in a guarded loop
	na := 0
	for _, fn := range p.FuncList {
		for _, cs := range p.callsTo(fn, "(*shrinker).accept") {
			na++
			blk := cs.Instr.Block()
			if li := p.liftTo(cs.Instr, fn); li != nil {
				blk = li.Block() // the call may sit in a helper inlined into fn
			}
			f := fn
			// closures: judged at their creation site
			for f.Parent() != nil {
				var mcBlock *ssa.BasicBlock
				for _, b := range f.Parent().Blocks {
					for _, in := range b.Instrs {
						if mc, ok := in.(*ssa.MakeClosure); ok && mc.Fn == ssa.Value(f) {
							mcBlock = b
						}
					}
				}
				if mcBlock == nil {
					break
				}
				blk, f = mcBlock, f.Parent()
			}
			r.Check(p.fnName(fn)+"#accept-in-guarded-loop", cs.Instr.Pos(), guarded[blk], "accept is reached only from inside a deadline-guarded loop", "an accept call in "+p.fnName(fn)+" is not inside a loop that re-checks the deadline")
		}
	}
	r.Floor("accept call sites", na, 5)
	if dc := r.MustFn("doCheck"); dc != nil {
		for _, cs := range p.callsTo(dc, "shrink") {
			r.Check("doCheck#shrink.deadline", cs.Instr.Pos(), p.expr(cs.Arg(1)) == "shrinkDeadline($deadline)", "the shrink deadline derives from the test deadline and -rapid.shrinktime", "shrink deadline is "+p.expr(cs.Arg(1)))
		}
	}
	if sh := r.MustFn("shrink"); sh != nil {
		for _, cs := range p.callsTo(sh, "(*shrinker).shrink") {
			r.Check("shrink#deadline", cs.Instr.Pos(), p.expr(cs.Arg(0)) == "$deadline", "deadline handed down unchanged", "shrink passes "+p.expr(cs.Arg(0)))
		}
	}
	if sd := r.MustFn("shrinkDeadline"); sd != nil {
		ok := false
		for _, cs := range p.callsTo(sd, "(time.Time).Add") {
			if p.expr(cs.Arg(0)) == "G:flags.shrinkTime" && p.expr(cs.Recv()) == "time.Now()" {
				ok = true
			}
		}
		r.Check("shrinkDeadline", sd.Pos(), ok, "shrink deadline = now + -rapid.shrinktime (capped by the test deadline)", "shrinkDeadline no longer derives from time.Now().Add(flags.shrinkTime)")
	}
}

// nowInLoop: the time.Now() call feeding the deadline test is evaluated inside the loop (per iteration).
func nowInLoop(p *Program, cond ssa.Value, l *loopInfo) bool {
	found := false
	seen := map[ssa.Value]bool{}
	var walk func(v ssa.Value, d int)
	walk = func(v ssa.Value, d int) {
		if v == nil || seen[v] || d > 6 {
			return
		}
		seen[v] = true
		v = p.resolve(v)
		if c, ok := v.(*ssa.Call); ok {
			if p.calleeKey(c.Common()) == "time.Now" && l.Body[c.Block()] {
				found = true
			}
		}
		if in, ok := v.(ssa.Instruction); ok {
			for _, op := range in.Operands(nil) {
				if *op != nil {
					walk(*op, d+1)
				}
			}
		}
	}
	walk(cond, 0)
	return found
}

func guardsOfRel(p *Program, b *ssa.BasicBlock) []rel {
	var out []rel
	for _, g := range guardsOf(b) {
		out = append(out, p.relOf(g))
	}
	return out
}

func ruleC05R6(r *Run) {
	p := r.P
	n := 0
	var rootOK func(v ssa.Value, d int) (bool, string)
	rootOK = func(v ssa.Value, d int) (bool, string) {
		v = p.resolve(v)
		if d > 8 {
			return false, "too deep"
		}
		switch x := v.(type) {
		case *ssa.Call:
			switch p.calleeKey(x.Common()) {
			case "without", "slices.Clone", "slices.Concat", "bytes.Clone":
				return true, "" // documented to return a new slice
			case "builtin:append":
				base := p.resolve(x.Common().Args[0])
				if isNilConst(base) {
					return true, ""
				}
				if sl, ok := base.(*ssa.Slice); ok && isNilConst(p.resolve(sl.X)) {
					return true, ""
				}
				return rootOK(base, d+1)
			}
			return false, "result of " + p.calleeKey(x.Common())
		case *ssa.Phi:
			for _, e := range x.Edges {
				if ok, why := rootOK(e, d+1); !ok {
					return false, why
				}
			}
			return true, ""
		case *ssa.Slice:
			return rootOK(x.X, d+1)
		case *ssa.MakeSlice:
			return true, "" // a fresh allocation (filled by copy)
		}
		return false, p.expr(v)
	}
	for _, fn := range p.FuncList {
		for _, cs := range p.callsTo(fn, "(*shrinker).accept") {
			n++
			ok, why := rootOK(cs.Arg(0), 0)
			r.Check(p.fnName(fn)+"#accept.candidate", cs.Instr.Pos(), ok, "the candidate is a fresh copy (without(...) / append(nil, ...))", "the candidate passed to accept in "+p.fnName(fn)+" is "+why+": it may alias the current best, so writing the candidate changes the verified state")
		}
	}
	r.Floor("candidates passed to accept", n, 5)
	if w := r.MustFn("without"); w != nil {
		ok := false
		for _, cs := range p.callsTo(w, "builtin:append") {
			if isNilConst(p.resolve(cs.Common.Args[0])) && p.expr(p.variadicOrSlice(cs.Common.Args[1])) == "$data" {
				ok = true
			}
		}
		for _, cs := range p.callsTo(w, "slices.Clone", "bytes.Clone") {
			if p.expr(cs.Arg(0)) == "$data" {
				ok = true
			}
		}
		// make([]uint64, len(data)) filled by copy(buf, data)
		for _, cs := range p.callsTo(w, "builtin:copy") {
			if ms, isMS := p.resolve(cs.Common.Args[0]).(*ssa.MakeSlice); isMS && p.expr(cs.Common.Args[1]) == "$data" && p.expr(ms.Len) == "builtin:len($data)" {
				ok = true
			}
		}
		// … and what it returns derives from that copy, not from the input
		for _, ret := range returnsOf(w) {
			if okR, _ := rootOKglobal(p, p.res(ret, 0), 0); !okR {
				ok = false
			}
		}
		r.Check("without#copies", w.Pos(), ok, "without() works on a copy of its input", "without() no longer copies its input before deleting groups")
	}
	// index stores through loads of s.rec.data
	bad := 0
	for _, fn := range p.FuncList {
		if !strings.HasPrefix(p.fnName(fn), "(*shrinker).") {
			continue
		}
		for _, b := range p.body(fn) {
			for _, in := range b.Instrs {
				st, ok := in.(*ssa.Store)
				if !ok {
					continue
				}
				if ia, ok := st.Addr.(*ssa.IndexAddr); ok && strings.HasSuffix(p.expr(ia.X), "$s.rec.data") {
					bad++
					r.Fail(p.fnName(fn)+"#in-place", st.Pos(), "a word of s.rec.data is overwritten in place in "+p.fnName(fn)+": the current best changes without verification")
				}
			}
		}
	}
	if bad == 0 {
		r.OK("shrinker#no-in-place-writes", token.NoPos, "no shrinker method stores through s.rec.data")
	}
}

// variadicOrSlice returns v itself (slices passed with ...).
func (p *Program) variadicOrSlice(v ssa.Value) ssa.Value { return v }

// rulePairAtomic: accept replaces the shrinker's (rec, err) state as a pair. Once one of them has been stored, accept
// cannot return (it may only panic, which aborts minimisation with that run's own error) before the other one is stored
// too: shrink returns (s.rec.data, s.err), and a torn pair is a buffer reported with the failure of another buffer.
func rulePairAtomic(r *Run) {
	p := r.P
	fn := r.MustFn("(*shrinker).accept")
	if fn == nil {
		return
	}
	var recStores, errStores []*ssa.Store
	for _, fa := range p.fieldAccesses("shrinker") {
		if !p.within(fa.Fn, fn) || fa.Kind != "write" {
			continue
		}
		switch fa.Field {
		case "rec":
			recStores = append(recStores, fa.Instr.(*ssa.Store))
		case "err":
			errStores = append(errStores, fa.Instr.(*ssa.Store))
		}
	}
	isIn := func(set []*ssa.Store) func(ssa.Instruction) bool {
		return func(in ssa.Instruction) bool {
			for _, s := range set {
				if in == ssa.Instruction(s) {
					return true
				}
			}
			return false
		}
	}
	check := func(name string, first, second []*ssa.Store) {
		for _, st := range first {
			// already preceded by the partner on every path?
			dominated := false
			for _, o := range second {
				if dominates(o, st) {
					dominated = true
				}
			}
			torn := false
			if !dominated {
				for _, ret := range returnsOf(fn) {
					if reachable(st, ret, isIn(second)) {
						torn = true
					}
				}
			}
			r.Check("(*shrinker).accept#pair-atomic."+name, st.Pos(), !torn, "after this store accept cannot return before the other half of (s.rec, s.err) is stored", "accept can return after storing "+p.expr(st.Addr)+" without storing the other half of the (s.rec, s.err) pair: shrink then reports a buffer together with the failure of a different buffer")
		}
	}
	check("err", errStores, recStores)
	check("rec", recStores, errStores)
}

// isFramesMore: v is the "more frames" result of (*runtime.Frames).Next, possibly carried around the loop (a phi of
// the constant true and that result) or negated.
func (p *Program) isFramesMore(v ssa.Value, d int) bool {
	if d > 4 {
		return false
	}
	v = p.resolve(v)
	switch x := v.(type) {
	case *ssa.UnOp:
		if x.Op == token.NOT {
			return p.isFramesMore(x.X, d+1)
		}
	case *ssa.Extract:
		if c, ok := x.Tuple.(*ssa.Call); ok && x.Index == 1 && p.calleeKey(c.Common()) == "(*runtime.Frames).Next" {
			return true
		}
	case *ssa.Phi:
		found := false
		for _, e := range x.Edges {
			er := p.resolve(e)
			if _, isC := constBool(er); isC {
				continue
			}
			if er == ssa.Value(x) {
				continue
			}
			if !p.isFramesMore(e, d+1) {
				return false
			}
			found = true
		}
		return found
	}
	return false
}

// rootOKglobal: v derives (through append / slicing / slices.Delete / phis) from a fresh copy.
func rootOKglobal(p *Program, v ssa.Value, d int) (bool, string) {
	return rootOKseen(p, v, d, map[ssa.Value]bool{})
}

func rootOKseen(p *Program, v ssa.Value, d int, seen map[ssa.Value]bool) (bool, string) {
	v = p.resolve(v)
	if seen[v] {
		return true, "" // a loop-carried value: judged by its other definitions
	}
	seen[v] = true
	if d > 12 {
		return false, "too deep"
	}
	switch x := v.(type) {
	case *ssa.Call:
		switch p.calleeKey(x.Common()) {
		case "slices.Clone", "slices.Concat", "bytes.Clone":
			return true, ""
		case "slices.Delete", "slices.Insert", "slices.Compact":
			return rootOKseen(p, x.Common().Args[0], d+1, seen)
		case "builtin:append":
			base := p.resolve(x.Common().Args[0])
			if isNilConst(base) {
				return true, ""
			}
			if sl, ok := base.(*ssa.Slice); ok && isNilConst(p.resolve(sl.X)) {
				return true, ""
			}
			return rootOKseen(p, base, d+1, seen)
		}
		return false, "result of " + p.calleeKey(x.Common())
	case *ssa.Phi:
		for _, e := range x.Edges {
			if ok, why := rootOKseen(p, e, d+1, seen); !ok {
				return false, why
			}
		}
		return true, ""
	case *ssa.Slice:
		return rootOKseen(p, x.X, d+1, seen)
	case *ssa.MakeSlice:
		return true, ""
	}
	return false, p.expr(v)
}
