package main

type selfTestFailure struct{ Name, Detail string }
type selfTestResult struct {
	Summary  map[string]any
	Failures []selfTestFailure
}

func runSelfTest(repo, dir, property string) selfTestResult {
	return selfTestResult{Summary: map[string]any{"note": "self-test catalogue not built yet"}}
}
