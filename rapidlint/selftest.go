package main

import (
	"encoding/json"
	"fmt"
	"os"
	"os/exec"
	"path/filepath"
	"sort"
	"strings"
	"sync"
)

// The self-test judges the checker, not the repository: every catalogued single-construct
// mutation is applied to a scratch copy of the *current* /repo sources, must still type-check,
// and the rule named in the catalogue must report it; every catalogued behaviour-preserving
// variant must stay silent. A mutation whose anchor text no longer occurs is skipped.

type mutation struct {
	Name   string            `json:"name"`
	File   string            `json:"file"`
	Old    string            `json:"old"`
	New    string            `json:"new"`
	Edits  []mutEdit         `json:"edits,omitempty"`  // additional edits (other files / sites)
	Expect map[string]string `json:"expect,omitempty"` // property -> substring of a violated obligation key
	Silent []string          `json:"silent,omitempty"` // properties that must stay silent
	Note   string            `json:"note,omitempty"`
}

type mutEdit struct {
	File string `json:"file"`
	Old  string `json:"old"`
	New  string `json:"new"`
}

type selfTestFailure struct{ Name, Detail string }
type selfTestResult struct {
	Summary  map[string]any
	Failures []selfTestFailure
}

func loadCatalogue(dir string) ([]mutation, error) {
	files, _ := filepath.Glob(filepath.Join(dir, "*.json"))
	sort.Strings(files)
	var all []mutation
	for _, f := range files {
		b, err := os.ReadFile(f)
		if err != nil {
			return nil, err
		}
		var ms []mutation
		if err := json.Unmarshal(b, &ms); err != nil {
			return nil, fmt.Errorf("%s: %w", f, err)
		}
		all = append(all, ms...)
	}
	return all, nil
}

func copyRepo(src, dst string) error {
	ents, err := os.ReadDir(src)
	if err != nil {
		return err
	}
	if err := os.MkdirAll(dst, 0o775); err != nil {
		return err
	}
	for _, e := range ents {
		n := e.Name()
		if e.IsDir() || strings.HasSuffix(n, "_test.go") || !(strings.HasSuffix(n, ".go") || n == "go.mod" || n == "go.sum") {
			continue
		}
		b, err := os.ReadFile(filepath.Join(src, n))
		if err != nil {
			return err
		}
		if err := os.WriteFile(filepath.Join(dst, n), b, 0o664); err != nil {
			return err
		}
	}
	return nil
}

func applyEdit(dir string, e mutEdit) (bool, error) {
	path := filepath.Join(dir, e.File)
	b, err := os.ReadFile(path)
	if err != nil {
		return false, nil
	}
	s := string(b)
	if strings.Count(s, e.Old) != 1 {
		return false, nil
	}
	s = strings.Replace(s, e.Old, e.New, 1)
	return true, os.WriteFile(path, []byte(s), 0o664)
}

type mutOutcome struct {
	m       mutation
	prop    string
	skipped string
	fail    string
	fired   []string
}

func runSelfTest(repo, dir, property, knownPath string) selfTestResult {
	res := selfTestResult{Summary: map[string]any{}}
	cat, err := loadCatalogue(dir)
	if err != nil {
		res.Failures = append(res.Failures, selfTestFailure{"catalogue", "cannot read self-test catalogue: " + err.Error()})
		return res
	}
	type job struct {
		m    mutation
		prop string
		want string // "" = silent
	}
	var jobs []job
	for _, m := range cat {
		if k, ok := m.Expect[property]; ok {
			jobs = append(jobs, job{m, property, k})
		}
		for _, s := range m.Silent {
			if s == property {
				jobs = append(jobs, job{m, property, ""})
			}
		}
	}
	tmpRoot, err := os.MkdirTemp("", "rapidlint-selftest-")
	if err != nil {
		res.Failures = append(res.Failures, selfTestFailure{"tmp", err.Error()})
		return res
	}
	defer os.RemoveAll(tmpRoot)

	self, _ := os.Executable()
	outcomes := make([]mutOutcome, len(jobs))
	sem := make(chan struct{}, 8)
	var wg sync.WaitGroup
	for i, j := range jobs {
		wg.Add(1)
		go func(i int, j job) {
			defer wg.Done()
			sem <- struct{}{}
			defer func() { <-sem }()
			o := mutOutcome{m: j.m, prop: j.prop}
			defer func() { outcomes[i] = o }()
			d := filepath.Join(tmpRoot, fmt.Sprintf("m%d", i))
			defer os.RemoveAll(d)
			if err := copyRepo(repo, d); err != nil {
				o.fail = "copy: " + err.Error()
				return
			}
			edits := append([]mutEdit{{j.m.File, j.m.Old, j.m.New}}, j.m.Edits...)
			for _, e := range edits {
				ok, err := applyEdit(d, e)
				if err != nil {
					o.fail = "apply: " + err.Error()
					return
				}
				if !ok {
					o.skipped = "anchor text no longer occurs exactly once in " + e.File
					return
				}
			}
			cmd := exec.Command(self, "-repo", d, "-property", j.prop, "-tier", "quick", "-known", knownPath)
			cmd.Env = append(os.Environ(), "VERIF_TIER=quick")
			out, _ := cmd.CombinedOutput()
			text := string(out)
			if strings.Contains(text, "-LOAD:") || strings.Contains(text, "cannot load") {
				o.skipped = "mutant does not load/type-check on the current tree"
				return
			}
			for _, line := range strings.Split(text, "\n") {
				line = strings.TrimSpace(line)
				if strings.HasPrefix(line, "VIOLATED ") || strings.HasPrefix(line, "UNDECIDED ") {
					f := strings.Fields(line)
					if len(f) > 1 {
						o.fired = append(o.fired, f[1])
					}
				}
			}
			if j.want == "" {
				if len(o.fired) > 0 {
					o.fail = "behaviour-preserving variant raised: " + strings.Join(o.fired, ", ")
				}
				return
			}
			hit := false
			for _, k := range o.fired {
				if strings.Contains(k, j.want) {
					hit = true
				}
			}
			if !hit {
				o.fail = fmt.Sprintf("mutation not reported under %q (reported: %v)", j.want, o.fired)
			}
		}(i, j)
	}
	wg.Wait()
	ran, skipped, fired, silent := 0, 0, 0, 0
	var details []map[string]any
	for i, o := range outcomes {
		d := map[string]any{"mutation": o.m.Name, "property": o.prop}
		switch {
		case o.skipped != "":
			skipped++
			d["result"] = "selftest-skipped: " + o.skipped
		case o.fail != "":
			ran++
			d["result"] = "FAILED: " + o.fail
			res.Failures = append(res.Failures, selfTestFailure{o.m.Name, o.fail})
		default:
			ran++
			if jobs[i].want == "" {
				silent++
				d["result"] = "silent as expected"
			} else {
				fired++
				d["result"] = "reported as expected: " + jobs[i].want
			}
		}
		details = append(details, d)
	}
	res.Summary = map[string]any{"mutants_run": ran, "skipped": skipped, "reported_as_expected": fired, "silent_as_expected": silent, "failures": len(res.Failures), "details": details}
	return res
}
