package main

import (
	"fmt"
	"go/token"
	"go/types"
	"strings"

	"golang.org/x/tools/go/ssa"
)

func init() { register("C08", specC08) }

func specC08() *propertySpec {
	return &propertySpec{
		ID: "C08",
		Explanation: "Decides the interleaving of invariant, actions, rejects and the continue coin on every path of T.Repeat / executeAction / runAction, for all action sets and bitstreams: " +
			"before the first step the invariant is called and followed by failOnError; every loop iteration is more() → executeAction → (completed: invariant + failOnError | not completed: reject, " +
			"no invariant); nothing else is called; with no non-empty key Repeat returns before any call; only entries of the supplied map are executed, chosen by a draw over the sorted non-empty keys; " +
			"the retry loop is bounded by the constant validActionTries, continues only on a skipped action and ends in a stopTest panic; 'skipped' is derived only from the draw counter not having moved; " +
			"Repeat and executeAction contain no defer/recover, so the first falsification leaves them at once; StateMachineActions excludes exactly the interface's Check method and installs it as invariant.",
		Rules: []ruleSpec{
			{"C08-R1", "protocol: every path of Repeat is C·F (M (A·C·F | A·J))* M with C the invariant call, F failOnError, M more, A executeAction, J reject", ruleC08R1},
			{"C08-R2", "only-supplied-actions: the executed function is actions[key] for a key drawn from the sorted non-empty keys of that same map; the invariant is actions[\"\"] or a no-op", ruleC08R2},
			{"C08-R3", "bounded-retry-then-fail: executeAction retries at most validActionTries times, only after a skipped action, then panics with stopTest; runAction derives skipped from the draw counter", ruleC08R3},
			{"C08-R4", "no-swallow: Repeat and executeAction contain no recover and no defer", ruleC08R4},
			{"C08-R6", "skip-does-not-hide-failure: when an action ends by skipping (invalidData), the failure flag is still consulted before runAction returns, so a non-fatal failure signalled before the skip stops Repeat at once", ruleC08R6},
			{"C08-R5", "reflection-table: StateMachineActions skips exactly the method of interface StateMachine, installs sm.Check under \"\", asserts at least one action", ruleC08R5},
			{"C08-R7", "failure-signals-set-the-flag: Error/Fail/Fatal store the failure in T.failed on every path and the fatal ones panic with stopTest; Repeat and runAction re-read that flag after every action and invariant, so a fatal failure whose panic is intercepted inside the action still stops the sequence (shared with C02-R1)", ruleC02R1},
			{"C08-R8", "failure-inside-a-drawn-generator-stops-the-sequence: every bracket that runs user code on a T of its own (checkOnce, Custom's maybeValue) consults that T's flag after its cleanups on every exit, so a non-fatal failure signalled by a Custom generator function that an action draws from — also from one of its Cleanup callbacks — reaches the outer T before runAction's flag test, and Repeat stops (shared with C02-R2)", ruleC02R2},
		},
	}
}

type smEvent struct {
	kind string // C F M A J X
	in   ssa.Instruction
	val  ssa.Value
}

func (r *Run) repeatEvents(fn *ssa.Function, blocks []*ssa.BasicBlock, tPar ssa.Value) []smEvent {
	p := r.P
	var evs []smEvent
	for _, b := range blocks {
		for _, in := range b.Instrs {
			c, ok := in.(ssa.CallInstruction)
			if !ok {
				continue
			}
			key := p.calleeKey(c.Common())
			switch {
			case key == "(*T).failOnError":
				k := "F"
				if p.resolve(c.Common().Args[0]) != tPar {
					k = "X"
				}
				evs = append(evs, smEvent{k, in, nil})
			case key == "(*repeat).more":
				evs = append(evs, smEvent{"M", in, c.Value()})
			case key == "(*stateMachine).executeAction":
				evs = append(evs, smEvent{"A", in, c.Value()})
			case key == "(*repeat).reject":
				evs = append(evs, smEvent{"J", in, nil})
			case strings.HasPrefix(key, "dyn:"):
				k := "X"
				callee := p.expr(c.Common().Value)
				if (strings.HasSuffix(callee, ".check") || p.flowsToField(c.Common().Value, "stateMachine", "check")) && len(c.Common().Args) == 1 && p.resolve(c.Common().Args[0]) == tPar {
					k = "C"
				}
				evs = append(evs, smEvent{k, in, nil})
			case key == "invoke:tb.Helper", strings.HasPrefix(key, "builtin:"), key == "sort.Strings", key == "testing.Short", key == "newRepeat", key == "SampledFrom":
			default:
				if _, isDefer := in.(*ssa.Defer); isDefer {
					evs = append(evs, smEvent{"X", in, nil})
					continue
				}
				if sc := c.Common().StaticCallee(); sc != nil && p.inRapid(sc) {
					if h := transparentCallee(in); h != nil {
						// an extracted helper: its own events, in block order
						evs = append(evs, r.repeatEvents(h, h.Blocks, resolveParamArg(p, h, tPar, c.Common()))...)
						continue
					}
					// any other package function could run callbacks
					evs = append(evs, smEvent{"X", in, nil})
				}
			}
		}
	}
	return evs
}

func evString(evs []smEvent) string {
	s := ""
	for _, e := range evs {
		s += e.kind
	}
	return s
}

func ruleC08R1(r *Run) {
	p := r.P
	fn := r.MustFn("(*T).Repeat")
	if fn == nil {
		return
	}
	tPar := ssa.Value(fn.Params[0])
	mores := p.callsTo(fn, "(*repeat).more")
	if len(mores) != 1 {
		r.Fail("(*T).Repeat#more", fn.Pos(), fmt.Sprintf("Repeat calls repeat.more %d times (expected one loop condition)", len(mores)))
		return
	}
	loop := innermostLoop(mores[0].Instr)
	if loop == nil {
		r.Fail("(*T).Repeat#loop", mores[0].Instr.Pos(), "repeat.more is not the condition of a loop")
		return
	}
	// prefix: paths from entry to the loop header (first arrival) or to a return
	nPre, nIter := 0, 0
	var bad []string
	okEnum := p.pathsFrom(fn.Blocks[0], 2000, func(cp *cfgPath, back bool) {
		if cp.infeasible {
			return
		}
		// cut at the first arrival at the loop header
		cut := len(cp.blocks)
		reached := false
		for i, b := range cp.blocks {
			if b == loop.Header {
				cut, reached = i, true
				break
			}
		}
		evs := r.repeatEvents(fn, cp.blocks[:cut], tPar)
		s := evString(evs)
		nPre++
		if reached {
			if s != "CF" {
				bad = append(bad, fmt.Sprintf("before the first step the calls are %q (expected invariant then failOnError: \"CF\") on path %s", s, cp))
			}
			return
		}
		if s != "" {
			bad = append(bad, fmt.Sprintf("a path that never reaches the step loop makes the calls %q (expected none) on path %s", s, cp))
		}
	})
	// iterations
	okEnum2 := p.pathsFrom(loop.Header, 2000, func(cp *cfgPath, back bool) {
		if cp.infeasible {
			return
		}
		blocks := cp.blocks
		if back {
			blocks = blocks[:len(blocks)-1]
		}
		evs := r.repeatEvents(fn, blocks, tPar)
		s := evString(evs)
		nIter++
		var mv, av ssa.Value
		for _, e := range evs {
			if e.kind == "M" && mv == nil {
				mv = e.val
			}
			if e.kind == "A" && av == nil {
				av = e.val
			}
		}
		mTrue, mKnown := false, false
		if mv != nil {
			mTrue, mKnown = cp.eval(mv)
		}
		switch {
		case !back:
			// leaving the loop: only after more() returned false, nothing else called
			if !(s == "M" && mKnown && !mTrue) {
				bad = append(bad, fmt.Sprintf("Repeat returns from the step loop after the calls %q (expected \"M\" with more()==false) on path %s", s, cp))
			}
		default:
			aTrue, aKnown := false, false
			if av != nil {
				aTrue, aKnown = cp.eval(av)
			}
			ok := mKnown && mTrue && aKnown && ((aTrue && s == "MACF") || (!aTrue && s == "MAJ"))
			if !ok {
				want := "\"MACF\" after a completed action, \"MAJ\" after a skipped/invalid one"
				bad = append(bad, fmt.Sprintf("a step makes the calls %q (executeAction=%v) — expected %s — on path %s", s, aTrue, want, cp))
			}
		}
	})
	if !okEnum || !okEnum2 {
		r.Undecided("(*T).Repeat#protocol", fn.Pos(), "too many paths to enumerate")
		return
	}
	r.Check("(*T).Repeat#protocol", fn.Pos(), len(bad) == 0 && nPre > 0 && nIter >= 3,
		fmt.Sprintf("all %d prefix paths and %d step paths follow C·F (M (A·C·F | A·J))* M", nPre, nIter),
		"the check/action discipline of Repeat is broken: "+strings.Join(bad, "; "))
	// early return only when there is no action
	for _, ret := range returnsOf(fn) {
		if loop.Header.Dominates(ret.Block()) {
			continue
		}
		r.Check("(*T).Repeat#early-return", ret.Pos(), earlyReturnOnNoKeys(p, ret), "Repeat returns early only when there is no action key", "Repeat returns before the step loop although there may be actions: "+factsStr(p.facts(ret)))
	}
}

func ruleC08R2(r *Run) {
	p := r.P
	rep := r.MustFn("(*T).Repeat")
	ex := r.MustFn("(*stateMachine).executeAction")
	if rep == nil || ex == nil {
		return
	}
	// executeAction: action = sm.actions[Draw(sm.actionKeys)]
	ras := p.callsTo(ex, "runAction")
	if len(ras) != 1 {
		r.Fail("executeAction#runAction", ex.Pos(), fmt.Sprintf("executeAction calls runAction %d times per attempt (expected once)", len(ras)))
	} else {
		lk, ok := p.resolve(ras[0].Arg(1)).(*ssa.Lookup)
		good := false
		if ok && p.expr(lk.X) == "$sm.actions" {
			if d, ok := p.resolve(lk.Index).(*ssa.Call); ok && p.calleeKey(d.Common()) == "(*Generator).Draw" && p.expr(d.Common().Args[0]) == "$sm.actionKeys" && p.expr(d.Common().Args[1]) == "$t" {
				good = true
			}
		}
		r.Check("executeAction#action-source", ras[0].Instr.Pos(), good && p.expr(ras[0].Arg(0)) == "$t", "the executed action is sm.actions[key] with key drawn from sm.actionKeys", "executeAction runs "+p.expr(ras[0].Arg(1))+" instead of an entry of the supplied map selected by a draw from actionKeys")
	}
	// Repeat: the state machine is built from the parameter map and its sorted non-empty keys
	got := map[string]ssa.Value{}
	var storePos token.Pos
	for _, b := range p.body(rep) {
		for _, in := range b.Instrs {
			if st, ok := in.(*ssa.Store); ok {
				if fa, ok := st.Addr.(*ssa.FieldAddr); ok && p.fieldAddrOwner(fa) == "stateMachine" {
					got[fieldAddrName(fa)] = st.Val
					storePos = st.Pos()
				}
			}
		}
	}
	r.Check("(*T).Repeat#sm.actions", storePos, got["actions"] != nil && p.expr(got["actions"]) == "$actions", "the state machine executes the supplied map", "stateMachine.actions is "+p.expr(got["actions"])+" instead of the actions parameter")
	// keys
	var keys ssa.Value
	if c, ok := p.resolve(got["actionKeys"]).(*ssa.Call); ok && p.calleeKey(c.Common()) == "SampledFrom" {
		keys = p.resolve(c.Common().Args[0])
		_, sorted := repeatKeysSorted(p, rep)
		r.Check("(*T).Repeat#keys-sorted", c.Pos(), sorted, "keys are sorted before sampling (map iteration order erased)", "the action keys collected from the map are sampled without sort.Strings first: the chosen action depends on map iteration order, not only on the bitstream")
	} else {
		r.Fail("(*T).Repeat#sm.actionKeys", storePos, "stateMachine.actionKeys is not SampledFrom(keys): "+p.expr(got["actionKeys"]))
	}
	if ph, ok := keys.(*ssa.Phi); ok {
		okKeys := true
		n := 0
		for _, e := range ph.Edges {
			er := p.resolve(e)
			if er == ssa.Value(ph) {
				continue
			}
			ap, isAp := er.(*ssa.Call)
			if !isAp || p.calleeKey(ap.Common()) != "builtin:append" {
				if _, isMk := er.(*ssa.MakeSlice); isMk {
					continue
				}
				okKeys = false
				continue
			}
			n++
			vs := p.variadicArgs(ap.Common().Args[1])
			if len(vs) != 1 || !strings.HasPrefix(p.expr(vs[0]), "next(range($actions))#1") || !holds(p.facts(ap), "next(range($actions))#1", "!=", `""`) {
				okKeys = false
			}
		}
		r.Check("(*T).Repeat#keys", ph.Pos(), okKeys && n >= 1, "keys are exactly the non-empty keys of the supplied map", "the sampled keys are not exactly the non-empty keys of the actions map")
	} else if keys != nil {
		r.Fail("(*T).Repeat#keys", storePos, "action keys are "+p.expr(keys))
	}
	// invariant: no-op literal or actions[""]
	if ph, ok := p.resolve(got["check"]).(*ssa.Phi); ok {
		okC := true
		for i, e := range ph.Edges {
			er := p.resolve(e)
			if er == ssa.Value(ph) {
				continue
			}
			if f, isF := er.(*ssa.Function); isF {
				empty := len(f.Blocks) == 1 && len(f.Blocks[0].Instrs) == 1
				if !empty {
					okC = false
				}
				continue
			}
			pred := ph.Block().Preds[i]
			pf := p.facts(pred.Instrs[len(pred.Instrs)-1])
			if iff, isIf := pred.Instrs[len(pred.Instrs)-1].(*ssa.If); isIf && pred.Succs[0] != pred.Succs[1] {
				pf = append(append([]rel{}, pf...), p.relOf(guard{Cond: iff.Cond, Pol: pred.Succs[0] == ph.Block()}))
			}
			// … or the map looked up directly: v, ok := actions[""] under ok
			if ex, isEx := er.(*ssa.Extract); isEx && ex.Index == 0 {
				if lk, isLk := ex.Tuple.(*ssa.Lookup); isLk && lk.CommaOk && p.expr(lk.X) == "$actions" {
					if k, isC := constString(p.resolve(lk.Index)); isC && k == "" && holds(pf, p.expr(lk)+"#1", "==", "true") {
						continue
					}
				}
			}
			if !(strings.HasPrefix(p.expr(er), "next(range($actions))#2") && holds(pf, "next(range($actions))#1", "==", `""`)) {
				okC = false
			}
		}
		r.Check("(*T).Repeat#invariant", ph.Pos(), okC, "the invariant is actions[\"\"] or a no-op", "the invariant function is neither actions[\"\"] nor the no-op literal")
	} else {
		r.Fail("(*T).Repeat#invariant", storePos, "stateMachine.check is "+p.expr(got["check"]))
	}
}

func ruleC08R3(r *Run) {
	p := r.P
	ex := r.MustFn("(*stateMachine).executeAction")
	ra := r.MustFn("runAction")
	if ex == nil || ra == nil {
		return
	}
	tries, _, okT := int64(0), token.NoPos, false
	if c, ok := p.Types.Scope().Lookup("validActionTries").(*types.Const); ok {
		if v, exact := constantInt(c); exact {
			tries, okT = v, true
		}
	}
	r.Check("validActionTries", token.NoPos, okT && tries > 0 && tries <= 10000, fmt.Sprintf("retry bound is the constant %d", tries), "validActionTries is not a small positive constant")
	rac := p.callsTo(ex, "runAction")
	if len(rac) == 1 {
		l := innermostLoop(rac[0].Instr)
		if l == nil {
			r.Fail("executeAction#loop", rac[0].Instr.Pos(), "runAction is not retried in a loop")
		} else {
			class, detail := p.classifyLoop(ex, l, p.mustDraw())
			// validActionTries iterations: counting up from 0 to the bound, or down from the bound to 0
			okBound := class == "counted" && (strings.Contains(detail, fmt.Sprintf("changes by 1 per cycle from 0 towards the loop-invariant bound %d", tries)) ||
				strings.Contains(detail, fmt.Sprintf("changes by -1 per cycle from %d towards the loop-invariant bound 0", tries)))
			r.Check("executeAction#bounded", l.Header.Instrs[0].Pos(), okBound, "the retry loop is counted up to validActionTries", "the retry loop of executeAction is not bounded by validActionTries ("+class+": "+detail+"): Repeat can loop forever when no action is able to run")
			skipped := extractOr(rac[0].Value(), 1)
			for i, pred := range l.Header.Preds {
				_ = i
				if !l.Header.Dominates(pred) {
					continue
				}
				r.Check("executeAction#retry-only-skipped", pred.Instrs[len(pred.Instrs)-1].Pos(), holds(p.facts(pred.Instrs[len(pred.Instrs)-1]), p.expr(skipped), "==", "true"), "another action is tried only after a skipped one", "executeAction retries although the action was not skipped")
			}
			// returns !invalid when not skipped
			for _, ret := range returnsOf(ex) {
				v := p.resolve(p.res(ret, 0))
				u, isNot := v.(*ssa.UnOp)
				ok := isNot && u.Op == token.NOT && p.same(u.X, extractOr(rac[0].Value(), 0)) && holds(p.facts(ret), p.expr(skipped), "==", "false")
				r.Check("executeAction#result", ret.Pos(), ok, "a non-skipped action reports completed = !invalid", "executeAction returns "+p.expr(v))
			}
			// after the loop: panic stopTest
			okPanic := false
			for _, b := range p.body(ex) {
				if l.Body[b] {
					continue
				}
				for _, in := range b.Instrs {
					if pn, ok := in.(*ssa.Panic); ok && p.typeStr(panicType(pn)) == "stopTest" {
						okPanic = true
					}
				}
			}
			exit := false
			for _, ret := range returnsOf(ex) {
				if !l.Body[ret.Block()] && !dominatesInLoop(l, ret.Block()) {
					exit = true
				}
			}
			r.Check("executeAction#exhausted-fails", ex.Pos(), okPanic && !exit, "when no action can run executeAction fails the test case (stopTest panic)", "after exhausting its retries executeAction does not panic with stopTest: 'no valid action' is reported as invalid data / a step, or loops")
		}
	}
	// runAction: skipped only from draws counter; failOnError after action
	cl := r.P.Fn("runAction$1")
	if cl == nil {
		r.Undecided("anchor:runAction$1", ra.Pos(), "anchor unresolved: the deferred closure of runAction")
		return
	}
	n := 0
	for _, b := range p.body(cl) {
		for _, in := range b.Instrs {
			st, ok := in.(*ssa.Store)
			if !ok {
				continue
			}
			switch p.resultCellIndex(st.Addr, cl.Parent()) {
			case 1: // the 'skipped' result of runAction
				n++
				// the value is a conjunction of "counter unchanged since the action started" comparisons
				nCmp, okLeaves := 0, true
				var befores []ssa.Value
				seen := map[ssa.Value]bool{}
				var walk func(v ssa.Value, d int)
				walk = func(v ssa.Value, d int) {
					if v == nil || seen[v] || d > 6 {
						return
					}
					seen[v] = true
					v = p.resolve(v)
					switch x := v.(type) {
					case *ssa.Phi:
						for _, e := range x.Edges {
							walk(e, d+1)
						}
					case *ssa.Const:
						if bv, isB := constBool(x); !isB || bv {
							okLeaves = false // a constant true edge would make skipped unconditional
						}
					case *ssa.BinOp:
						if _, bef, ok := runActionCmp(p, x, cl, ra); ok {
							nCmp++
							befores = append(befores, bef)
						} else {
							okLeaves = false
						}
					default:
						okLeaves = false
					}
				}
				walk(st.Val, 0)
				// what "before" means: every compared value was computed in runAction before the action was called
				for _, a := range p.calls(ra) {
					if !strings.HasPrefix(a.Key, "dyn:") {
						continue
					}
					okBefore := len(befores) > 0
					var descs []string
					for _, bv := range befores {
						descs = append(descs, p.expr(bv))
						if bi, isIn := bv.(ssa.Instruction); !isIn || !dominates(bi, a.Instr) {
							okBefore = false
						}
					}
					r.Check("runAction#captured-before", a.Instr.Pos(), okBefore, "draw counter / stream position are captured before the action runs ("+strings.Join(descs, ", ")+")", "the values compared later are not the draw counter / stream position captured before the action ("+strings.Join(descs, ", ")+")")
				}
				okV := nCmp >= 1 && okLeaves && holdsPrefix(p.facts(st), "assert<invalidData>(builtin:recover()),ok#1", "true")
				r.Check("runAction#skipped", st.Pos(), okV, "skipped = (nothing drawn since the action started), only on the invalidData edge", "skipped is set to "+p.expr(st.Val)+" under "+factsStr(p.facts(st))+": an action that drew values can be treated as never started (or vice versa)")
			case 0: // the 'invalid' result of runAction
				b2, isC := constBool(p.resolve(st.Val))
				r.Check("runAction#invalid", st.Pos(), isC && b2 && holdsPrefix(p.facts(st), "assert<invalidData>(builtin:recover()),ok#1", "true"), "invalid is set only for an invalidData panic", "invalid is set outside the invalidData edge")
			}
		}
	}
	r.Floor("stores to skipped in runAction's recover", n, 1)
	// normal path returns (false, false) after failOnError: an action that signalled a non-fatal failure and returned
	// normally must stop Repeat there, before the invariant is run once more on the falsified state
	for _, cs := range p.calls(ra) {
		if !strings.HasPrefix(cs.Key, "dyn:") || cs.isDefer() || cs.Instr.Parent() != ra {
			continue
		}
		tPar := ssa.Value(ra.Params[0])
		exit := escapesWithout(cs.Instr, func(in ssa.Instruction) bool {
			c, ok := in.(*ssa.Call)
			return ok && p.calleeKey(c.Common()) == "(*T).failOnError" && p.resolve(c.Common().Args[0]) == tPar
		}, false)
		r.Check("runAction#action-then-consult", cs.Instr.Pos(), exit == nil, "after the action returns the failure flag is consulted before runAction reports it as completed",
			"runAction can return after the action without consulting the failure flag: an action that signals a non-fatal failure (Errorf/Fail) and returns normally counts as completed, and Repeat runs the invariant once more on the falsified state before it stops")
	}
	for _, ret := range returnsOf(ra) {
		a, okA := constBool(p.resolve(p.res(ret, 0)))
		b, okB := constBool(p.resolve(p.res(ret, 1)))
		r.Check("runAction#normal-return", ret.Pos(), okA && okB && !a && !b, "a completed action returns (invalid=false, skipped=false)", "the normal return of runAction is ("+p.expr(p.res(ret, 0))+", "+p.expr(p.res(ret, 1))+")")
	}
}

func holdsPrefix(facts []rel, prefix, val string) bool {
	for _, f := range facts {
		if strings.HasPrefix(f.X, prefix) && f.Op == "==" && f.Y == val {
			return true
		}
	}
	return false
}

func dominatesInLoop(l *loopInfo, b *ssa.BasicBlock) bool {
	for x := range l.Body {
		for _, s := range x.Succs {
			if s == b && x != l.Header {
				return true
			}
		}
	}
	return false
}

func constantInt(c *types.Const) (int64, bool) {
	v := c.Val()
	if v == nil {
		return 0, false
	}
	var i int64
	_, err := fmt.Sscanf(v.ExactString(), "%d", &i)
	return i, err == nil
}

func ruleC08R4(r *Run) {
	p := r.P
	for _, name := range []string{"(*T).Repeat", "(*stateMachine).executeAction"} {
		fn := r.MustFn(name)
		if fn == nil {
			continue
		}
		n := 0
		for _, cs := range p.calls(fn) {
			if cs.isDefer() || cs.Key == "builtin:recover" {
				n++
			}
		}
		for _, an := range fn.AnonFuncs {
			n += len(p.callsTo(an, "builtin:recover"))
		}
		r.Check(name+"#no-defer-recover", fn.Pos(), n == 0, name+" contains no defer and no recover: the first failOnError / panic leaves it at once", fmt.Sprintf("%s contains %d defer/recover constructs: after a falsification further actions or invariant checks may still run", name, n))
	}
}

func ruleC08R5(r *Run) {
	p := r.P
	fn := r.MustFn("StateMachineActions")
	if fn == nil {
		return
	}
	// interface method
	iface, _ := p.Types.Scope().Lookup("StateMachine").(*types.TypeName)
	mname := ""
	if iface != nil {
		if it, ok := iface.Type().Underlying().(*types.Interface); ok && it.NumMethods() == 1 {
			mname = it.Method(0).Name()
		}
	}
	cname, _, okc := p.constStringNamed("checkMethodName")
	r.Check("checkMethodName", token.NoPos, okc && mname != "" && cname == mname, fmt.Sprintf("the excluded method name %q is the method of interface StateMachine", cname), fmt.Sprintf("checkMethodName is %q but interface StateMachine declares %q: the invariant is executed as an action (or an action is dropped)", cname, mname))
	// the skip: stores into the map happen only under Name != checkMethodName
	n := 0
	var theMap ssa.Value
	var invInstall *ssa.MapUpdate
	for _, b := range p.body(fn) {
		for _, in := range b.Instrs {
			mu, ok := in.(*ssa.MapUpdate)
			if !ok {
				continue
			}
			theMap = mu.Map
			if k, isC := constString(p.resolve(mu.Key)); isC {
				if k == "" {
					invInstall = mu
				}
				okInv := k == "" && strings.HasPrefix(p.expr(mu.Value), "bound:(StateMachine)."+mname+"($sm)")
				r.Check("StateMachineActions#invariant", mu.Pos(), okInv, "sm."+mname+" is installed under \"\"", "the entry stored under a constant key is "+p.expr(mu.Value)+" under "+fmt.Sprintf("%q", k))
				continue
			}
			n++
			okSkip := false
			for _, f := range p.facts(mu) {
				if strings.HasSuffix(f.X, ".Name") && f.Op == "!=" && f.Y == fmt.Sprintf("%q", cname) {
					okSkip = true
				}
			}
			okKey := strings.HasSuffix(p.expr(mu.Key), ".Name")
			r.Check("StateMachineActions#action", mu.Pos(), okSkip && okKey, "methods are installed under their own name, except "+cname, "an action is installed without excluding "+cname+" or under a key other than the method name")
		}
	}
	r.Floor("action installations in StateMachineActions", n, 2)
	okAssert := false
	for _, cs := range p.callsTo(fn, "assertf") {
		ex := p.expr(cs.Arg(0))
		if strings.HasPrefix(ex, "(builtin:len(") && strings.HasSuffix(ex, " > 0)") {
			okAssert = true
		}
	}
	r.Check("StateMachineActions#at-least-one", fn.Pos(), okAssert, "asserts that at least one action exists", "StateMachineActions no longer asserts len(actions) > 0")
	for _, ret := range returnsOf(fn) {
		r.Check("StateMachineActions#result", ret.Pos(), theMap != nil && p.resolve(p.res(ret, 0)) == p.resolve(theMap), "returns the map it filled", "returns another map")
		r.Check("StateMachineActions#invariant-installed", ret.Pos(), invInstall != nil && dominates(invInstall, ret), "the invariant is installed under \"\" on every path to the return", "StateMachineActions can return without having installed sm."+mname+" under \"\": Repeat then runs the actions without ever checking the invariant")
	}
	// an adapter closure installed inside the method loop captures what belongs to its own iteration: a captured
	// variable declared outside the loop and assigned inside it is shared by all adapters, which then all call the
	// method assigned last
	nCl := 0
	for _, b := range p.body(fn) {
		for _, in := range b.Instrs {
			mc, ok := in.(*ssa.MakeClosure)
			if !ok {
				continue
			}
			l := innermostLoop(mc)
			if l == nil {
				continue
			}
			nCl++
			for k, bnd := range mc.Bindings {
				al, isAlloc := bnd.(*ssa.Alloc)
				if !isAlloc || l.Body[al.Block()] {
					continue // a value, or a variable of this iteration
				}
				written := false
				for _, ref := range *al.Referrers() {
					if st, ok := ref.(*ssa.Store); ok && st.Addr == ssa.Value(al) && l.Body[st.Block()] {
						written = true
					}
				}
				name := "?"
				if f, ok := mc.Fn.(*ssa.Function); ok && k < len(f.FreeVars) {
					name = f.FreeVars[k].Name()
				}
				r.Check("StateMachineActions#adapter-captures-own-method."+name, mc.Fn.Pos(), !written, "captured variable "+name+" is not reassigned by later iterations", "the adapter closure captures "+name+", which is declared outside the method loop and assigned in every iteration: all adapters share it and run the method assigned last (or crash on the nil left by a method of another shape) — Repeat executes an action that is not the one drawn")
			}
		}
	}
	r.Floor("adapter closures built in the method loop of StateMachineActions", nCl, 1)
	// the TB adapter forwards its own T
	if ad := p.Fn("StateMachineActions$1"); ad != nil {
		ok := false
		for _, cs := range p.calls(ad) {
			if strings.HasPrefix(cs.Key, "dyn:") && len(cs.Common.Args) == 1 && p.resolve(cs.Common.Args[0]) == ssa.Value(ad.Params[0]) {
				ok = true
			}
		}
		r.Check("StateMachineActions$1#forwards", ad.Pos(), ok && countDyn(p, ad) == 1, "the func(TB) adapter calls the method once with its own *T", "the func(TB) adapter does not forward exactly its own *T")
	}
}

func ruleC08R6(r *Run) {
	p := r.P
	ra := r.MustFn("runAction")
	if ra == nil {
		return
	}
	tPar := ssa.Value(ra.Params[0])
	var filter *ssa.Defer
	var filterFn *ssa.Function
	var deferredConsult *ssa.Defer
	for _, cs := range p.calls(ra) {
		d, ok := cs.Instr.(*ssa.Defer)
		if !ok {
			continue
		}
		if mc, ok := d.Common().Value.(*ssa.MakeClosure); ok && len(p.callsTo(mc.Fn.(*ssa.Function), "builtin:recover")) > 0 {
			filter, filterFn = d, mc.Fn.(*ssa.Function)
		}
		if cs.Key == "(*T).failOnError" && p.resolve(cs.Recv()) == tPar {
			deferredConsult = d
		}
	}
	if filter == nil {
		r.Undecided("runAction#filter", ra.Pos(), "anchor unresolved: the recovering defer of runAction")
		return
	}
	// (a) a deferred failOnError registered before the filter runs after it on every exit
	if deferredConsult != nil && dominates(deferredConsult, filter) {
		r.OK("runAction#skip-consults-flag", deferredConsult.Pos(), "a deferred failOnError registered before the recover filter runs after it on every exit, including the skip path")
		return
	}
	// (b) inside the filter: every return reachable from the invalidData edge passes failOnError(t)
	ok := false
	why := "the invalidData edge of the recover filter returns without consulting the failure flag"
	for _, b := range p.body(filterFn) {
		iff, isIf := b.Instrs[len(b.Instrs)-1].(*ssa.If)
		if !isIf {
			continue
		}
		rl := p.relOf(guard{Cond: iff.Cond, Pol: true})
		if !strings.HasPrefix(rl.X, "assert<invalidData>(builtin:recover()),ok#1") {
			continue
		}
		first := b.Succs[0].Instrs[0]
		isConsult := func(in ssa.Instruction) bool {
			c, isCall := in.(*ssa.Call)
			return isCall && p.calleeKey(c.Common()) == "(*T).failOnError" && p.expr(c.Common().Args[0]) == "$t"
		}
		if isConsult(first) || escapesWithout(first, isConsult, false) == nil {
			if _, isRet := first.(*ssa.Return); !isRet {
				ok = true
			}
		}
	}
	r.Check("runAction#skip-consults-flag", filter.Pos(), ok, "on the skip (invalidData) path the failure flag is consulted before runAction returns",
		why+": an action that signals a non-fatal failure (Errorf/Fail) and then skips lets Repeat run further actions and invariant checks on the falsified state (the test case fails only at its end)")
}

// resolveParamArg: the value tPar as seen from inside helper h (parameters resolve to the call's
// arguments, so the caller's value itself is what comparisons after resolve() yield).
func resolveParamArg(p *Program, h *ssa.Function, tPar ssa.Value, c *ssa.CallCommon) ssa.Value {
	return tPar
}

// flowsToField: the value is also what is stored into the given struct field somewhere in its function (the invariant
// function kept in a local before the state machine is built).
func (p *Program) flowsToField(v ssa.Value, owner, field string) bool {
	rv := p.resolve(v)
	fn := valueParent(rv)
	if fn == nil {
		return false
	}
	for _, b := range fn.Blocks {
		for _, in := range b.Instrs {
			if st, ok := in.(*ssa.Store); ok {
				if fa, ok := st.Addr.(*ssa.FieldAddr); ok && p.fieldAddrOwner(fa) == owner && fieldAddrName(fa) == field && p.resolve(st.Val) == rv {
					return true
				}
			}
		}
	}
	return false
}

func valueParent(v ssa.Value) *ssa.Function {
	if in, ok := v.(ssa.Instruction); ok {
		return in.Parent()
	}
	if par, ok := v.(*ssa.Parameter); ok {
		return par.Parent()
	}
	return nil
}

// earlyReturnOnNoKeys: the return is taken only when the collected action keys are empty (len(<keys>) == 0 where
// <keys> is the slice the keys are appended to).
func earlyReturnOnNoKeys(p *Program, ret *ssa.Return) bool {
	for _, f := range p.facts(ret) {
		if f.Op == "==" && f.Y == "0" && strings.HasPrefix(f.X, "builtin:len(") {
			return true
		}
	}
	return false
}

// repeatKeysSorted: the slice handed to SampledFrom in Repeat (the action keys) is sorted by a dominating sort.Strings.
func repeatKeysSorted(p *Program, rep *ssa.Function) (token.Pos, bool) {
	pos := rep.Pos()
	for _, c := range p.callsTo(rep, "SampledFrom") {
		pos = c.Instr.Pos()
		keys := p.resolve(c.Arg(0))
		for _, s := range p.callsTo(rep, "sort.Strings", "slices.Sort", "sort.Sort", "sort.Stable") {
			a := p.resolve(s.Arg(0))
			// sort.Sort(sort.StringSlice(keys)): the natural total order of strings through the interface form
			if mi, ok := a.(*ssa.MakeInterface); ok {
				if p.typeStr(mi.X.Type()) != "sort.StringSlice" && p.typeStr(mi.X.Type()) != "StringSlice" {
					continue
				}
				a = p.resolve(mi.X)
				if ct, ok := a.(*ssa.ChangeType); ok {
					a = p.resolve(ct.X)
				}
			}
			if a == keys && dominates(s.Instr, c.Instr) {
				return pos, true
			}
		}
	}
	return pos, false
}

// runActionCmp: x compares a counter as it is now (read inside runAction's deferred closure cl) with the same
// counter as it was before the action: a parameter of cl bound at the defer statement, or a value computed in
// runAction itself (captured variable). kind is "draws" (t.draws) or "drawn" (t.s.drawn()); before is the value
// computed in runAction (the defer argument or the captured value).
func runActionCmp(p *Program, x *ssa.BinOp, cl, ra *ssa.Function) (kind string, before ssa.Value, ok bool) {
	if x.Op != token.EQL {
		return "", nil, false
	}
	kindOf := func(v ssa.Value) string {
		switch y := p.resolve(v).(type) {
		case *ssa.Call:
			if p.calleeKey(y.Common()) == "invoke:bitStream.drawn" && p.expr(y) == "invoke:bitStream.drawn($t.s)" {
				return "drawn"
			}
		case *ssa.UnOp:
			if fa, isFA := y.X.(*ssa.FieldAddr); isFA && y.Op == token.MUL && fieldAddrName(fa) == "draws" && p.expr(y) == "$t.draws" {
				return "draws"
			}
		}
		return ""
	}
	parentOf := func(v ssa.Value) *ssa.Function {
		if in, isIn := p.resolve(v).(ssa.Instruction); isIn {
			return in.Parent()
		}
		return nil
	}
	for _, ab := range [][2]ssa.Value{{x.X, x.Y}, {x.Y, x.X}} {
		now, bef := ab[0], ab[1]
		k := kindOf(now)
		if k == "" || parentOf(now) != cl {
			continue
		}
		rb := p.resolve(bef)
		if par, isPar := rb.(*ssa.Parameter); isPar && par.Parent() == cl {
			// bound at the defer statement
			for _, cs := range p.calls(ra) {
				d, isDefer := cs.Instr.(*ssa.Defer)
				if !isDefer {
					continue
				}
				if mc, isMC := d.Common().Value.(*ssa.MakeClosure); !isMC || mc.Fn != ssa.Value(cl) {
					continue
				}
				for i, q := range cl.Params {
					if q == par && i < len(d.Common().Args) && kindOf(d.Common().Args[i]) == k {
						return k, p.resolve(d.Common().Args[i]), true
					}
				}
			}
			continue
		}
		if kindOf(bef) == k && parentOf(bef) == ra {
			return k, rb, true
		}
	}
	return "", nil, false
}

// ruleExhaustedOnlyByBudget (C13-R11): the stopTest("can't find a valid action") panic of executeAction is
// reachable only by the retry counter running out. runAction classifies an overrun on an action's first draw as
// 'skipped' as well; the retry then overruns on the action-key draw, outside runAction's filter, and the test case ends
// as invalid data (MakeFuzz: skip). An exit to the panic decided by anything but the counter turns that exhausted
// input into a failure.
func ruleExhaustedOnlyByBudget(r *Run) {
	p := r.P
	ex := r.MustFn("(*stateMachine).executeAction")
	if ex == nil {
		return
	}
	rac := p.callsTo(ex, "runAction")
	if len(rac) != 1 || innermostLoop(rac[0].Instr) == nil {
		r.Undecided("executeAction#exit-to-failure", ex.Pos(), "expected one runAction call inside a retry loop")
		return
	}
	l := innermostLoop(rac[0].Instr)
	reachesPanic := map[*ssa.BasicBlock]bool{}
	var mark func(b *ssa.BasicBlock)
	for _, b := range p.body(ex) {
		for _, in := range b.Instrs {
			if pn, ok := in.(*ssa.Panic); ok && p.typeStr(panicType(pn)) == "stopTest" && !l.Body[b] {
				reachesPanic[b] = true
			}
		}
	}
	mark = func(b *ssa.BasicBlock) {
		for _, q := range b.Preds {
			if !reachesPanic[q] && !l.Body[q] {
				reachesPanic[q] = true
				mark(q)
			}
		}
	}
	for b := range reachesPanic {
		mark(b)
	}
	counterTerm := func(v ssa.Value) bool {
		v = p.resolve(v)
		if bo, ok := v.(*ssa.BinOp); ok && (bo.Op == token.ADD || bo.Op == token.SUB) {
			if _, isK := constInt(p.resolve(bo.Y)); isK {
				v = p.resolve(bo.X)
			}
		}
		phi, ok := v.(*ssa.Phi)
		return ok && phi.Block() == l.Header
	}
	n := 0
	for b := range l.Body {
		for _, s := range b.Succs {
			if l.Body[s] || !reachesPanic[s] {
				continue
			}
			n++
			ok := false
			if iff, isIf := b.Instrs[len(b.Instrs)-1].(*ssa.If); isIf {
				if bo, isB := p.resolve(iff.Cond).(*ssa.BinOp); isB {
					_, kx := constInt(p.resolve(bo.X))
					_, ky := constInt(p.resolve(bo.Y))
					ok = (counterTerm(bo.X) && ky) || (counterTerm(bo.Y) && kx)
				}
			}
			pos := b.Instrs[len(b.Instrs)-1].Pos()
			if iff, isIf := b.Instrs[len(b.Instrs)-1].(*ssa.If); isIf && pos == token.NoPos {
				pos = p.resolve(iff.Cond).Pos()
			}
			r.Check("executeAction#exit-to-failure", pos, ok, "the retry loop leaves for the 'no valid action' failure only on its counter test",
				"executeAction leaves the retry loop for the stopTest failure on a test other than its retry counter: an action skipped because the input ran out on its first draw (MakeFuzz) is then reported as a failure instead of being retried into the overrun that ends the test case as invalid")
		}
	}
	if n == 0 {
		r.Undecided("executeAction#exit-to-failure", ex.Pos(), "no exit of the retry loop reaches the stopTest panic")
	}
}
