package main

import (
	"fmt"
	"go/token"
	"strings"

	"golang.org/x/tools/go/ssa"
)

// Path-sensitive evaluation of boolean SSA values along one acyclic CFG path: phis are resolved by
// the predecessor actually taken, branch conditions taken on the path are recorded as known facts
// (keyed structurally, so that two BinOp instructions comparing the same operands agree), and a
// boolean value is evaluated to true / false / unknown. No arithmetic, no solver.

type cfgPath struct {
	p      *Program
	blocks []*ssa.BasicBlock
	pred   map[*ssa.BasicBlock]*ssa.BasicBlock
	known  map[string]bool
	// infeasible: two branch decisions on the path contradict each other (same condition, structurally)
	infeasible bool
}

func (p *Program) newPath(blocks []*ssa.BasicBlock) *cfgPath {
	cp := &cfgPath{p: p, blocks: blocks, pred: map[*ssa.BasicBlock]*ssa.BasicBlock{}, known: map[string]bool{}}
	for i := 1; i < len(blocks); i++ {
		if blocks[i] == blocks[0] {
			continue // trailing back edge: header phis keep their (unknown) value of this iteration
		}
		cp.pred[blocks[i]] = blocks[i-1]
	}
	for i := 0; i+1 < len(blocks); i++ {
		b := blocks[i]
		iff, ok := b.Instrs[len(b.Instrs)-1].(*ssa.If)
		if !ok || b.Succs[0] == b.Succs[1] {
			continue
		}
		cp.assert(iff.Cond, b.Succs[0] == blocks[i+1])
	}
	return cp
}

// onPath resolves a value along the path: phis in path blocks take the operand of the taken edge.
func (cp *cfgPath) onPath(v ssa.Value) ssa.Value {
	for i := 0; i < 16; i++ {
		v = cp.p.resolve(v)
		ph, ok := v.(*ssa.Phi)
		if !ok {
			return v
		}
		pr, ok := cp.pred[ph.Block()]
		if !ok {
			return v
		}
		found := false
		for k, b := range ph.Block().Preds {
			if b == pr {
				v = ph.Edges[k]
				found = true
				break
			}
		}
		if !found {
			return v
		}
	}
	return v
}

func (cp *cfgPath) key(v ssa.Value) string { return cp.keyD(v, 0) }

// keyD: on a path that starts at the source of a back edge a header phi resolves to a value of the previous
// iteration, which may be defined in terms of that same phi (u = u >> 1): the depth bound ends the unfolding.
func (cp *cfgPath) keyD(v ssa.Value, d int) string {
	if d > 24 {
		return fmt.Sprintf("%s@%p", v.Name(), v)
	}
	v = cp.onPath(v)
	switch x := v.(type) {
	case *ssa.Const:
		return cp.p.expr(x)
	case *ssa.BinOp:
		return "(" + cp.keyD(x.X, d+1) + " " + x.Op.String() + " " + cp.keyD(x.Y, d+1) + ")"
	case *ssa.UnOp:
		if x.Op == token.NOT {
			return "!" + cp.keyD(x.X, d+1)
		}
	case *ssa.Convert:
		return "conv(" + cp.keyD(x.X, d+1) + ")"
	case *ssa.Extract:
		return fmt.Sprintf("%s#%d", cp.keyD(x.Tuple, d+1), x.Index)
	}
	return fmt.Sprintf("%s@%p", v.Name(), v)
}

func (cp *cfgPath) assert(cond ssa.Value, pol bool) { cp.assertD(cond, pol, 0) }

func (cp *cfgPath) assertD(cond ssa.Value, pol bool, d int) {
	if d > 24 {
		return
	}
	cond = cp.onPath(cond)
	if u, ok := cond.(*ssa.UnOp); ok && u.Op == token.NOT {
		cp.assertD(u.X, !pol, d+1)
		return
	}
	if c, ok := cond.(*ssa.Const); ok {
		// a branch on a variable whose value on this path is a constant (`ok := false; for !ok {`)
		if b, isB := constBool(c); isB && b != pol {
			cp.infeasible = true
		}
		return
	}
	if old, ok := cp.known[cp.key(cond)]; ok && old != pol {
		cp.infeasible = true
	}
	cp.known[cp.key(cond)] = pol
	if b, ok := cond.(*ssa.BinOp); ok {
		// also record the flipped and negated forms
		if f, ok := flipOp[b.Op.String()]; ok {
			cp.known["("+cp.key(b.Y)+" "+f+" "+cp.key(b.X)+")"] = pol
		}
		if n, ok := negOp[b.Op.String()]; ok {
			cp.known["("+cp.key(b.X)+" "+n+" "+cp.key(b.Y)+")"] = !pol
			cp.known["("+cp.key(b.Y)+" "+flipOp[n]+" "+cp.key(b.X)+")"] = !pol
		}
	}
}

// eval returns (value, known).
func (cp *cfgPath) eval(v ssa.Value) (bool, bool) { return cp.evalD(v, 0) }

func (cp *cfgPath) evalD(v ssa.Value, d int) (bool, bool) {
	if d > 24 {
		return false, false
	}
	v = cp.onPath(v)
	switch x := v.(type) {
	case *ssa.Const:
		if b, ok := constBool(x); ok {
			return b, true
		}
	case *ssa.UnOp:
		if x.Op == token.NOT {
			b, ok := cp.evalD(x.X, d+1)
			return !b, ok
		}
	}
	if b, ok := cp.known[cp.key(v)]; ok {
		return b, true
	}
	if bo, ok := v.(*ssa.BinOp); ok {
		// x <= x, x == x
		if cp.key(bo.X) == cp.key(bo.Y) {
			switch bo.Op {
			case token.LEQ, token.GEQ, token.EQL:
				return true, true
			case token.LSS, token.GTR, token.NEQ:
				return false, true
			}
		}
		// weakenings: known x < y ⇒ x <= y ; known x == y ⇒ x <= y
		kx, ky := cp.key(bo.X), cp.key(bo.Y)
		switch bo.Op {
		case token.LEQ:
			if cp.known["("+kx+" < "+ky+")"] || cp.known["("+kx+" == "+ky+")"] {
				return true, true
			}
		case token.GEQ:
			if cp.known["("+kx+" > "+ky+")"] || cp.known["("+kx+" == "+ky+")"] {
				return true, true
			}
		}
	}
	return false, false
}

func (cp *cfgPath) String() string {
	var s []string
	for _, b := range cp.blocks {
		s = append(s, fmt.Sprint(b.Index))
	}
	return "b" + strings.Join(s, "→b")
}

func (cp *cfgPath) contains(in ssa.Instruction) bool {
	for _, b := range cp.blocks {
		if b == in.Block() {
			return true
		}
	}
	return false
}

// pathsFrom enumerates acyclic paths starting at block `from` and ending at blocks without
// successors (return/panic) or at an edge back to `from` (the path then ends with `from` again, and
// isBackEdge is true). At most limit paths are produced; ok=false if the limit was hit.
func (p *Program) pathsFrom(from *ssa.BasicBlock, limit int, visit func(cp *cfgPath, backEdge bool)) bool {
	count := 0
	onStack := map[*ssa.BasicBlock]bool{}
	var stack []*ssa.BasicBlock
	ok := true
	var dfs func(b *ssa.BasicBlock)
	dfs = func(b *ssa.BasicBlock) {
		if !ok {
			return
		}
		stack = append(stack, b)
		onStack[b] = true
		defer func() {
			stack = stack[:len(stack)-1]
			onStack[b] = false
		}()
		if len(b.Succs) == 0 {
			count++
			if count > limit {
				ok = false
				return
			}
			visit(p.newPath(append([]*ssa.BasicBlock(nil), stack...)), false)
			return
		}
		for _, s := range b.Succs {
			if s == from {
				count++
				if count > limit {
					ok = false
					return
				}
				visit(p.newPath(append(append([]*ssa.BasicBlock(nil), stack...), s)), true)
				continue
			}
			if onStack[s] {
				continue // inner cycle: ignore (inner loops are summarised by their exits)
			}
			dfs(s)
		}
	}
	dfs(from)
	return ok
}
