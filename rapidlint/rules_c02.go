package main

import (
	"fmt"
	"go/token"
	"go/types"
	"strings"

	"golang.org/x/tools/go/ssa"
)

func init() { register("C02", specC02) }

func specC02() *propertySpec {
	return &propertySpec{
		ID: "C02",
		Explanation: "Decides that the path from every failure signal to the failing TB call is unbroken on all control-flow paths: " +
			"the six failure methods set the flag / panic with stopTest; every bracket around user code reachable from Check consults the flag " +
			"after its cleanups on the normal, skip and panic exit; every user-callback site receiving a *T is bracketed or followed by failOnError; " +
			"the recover sites only convert (panicToError) or filter invalidData; classification (nil / invalidData / failure) is exhaustive and the " +
			"failure verdict always reaches tb.Errorf and FailNow; skip never sets the flag. Not decided: fatal calls from foreign goroutines.",
		Rules: []ruleSpec{
			{"C02-R1", "signal-sets-state: Error/Errorf/Fail → fail(false), Fatal/Fatalf/FailNow → fail(true) on every path; fail stores failed and panics with stopTest when now; skip never stores failed and panics with invalidData", ruleC02R1},
			{"C02-R2", "state-reaches-verdict: in every bracket reachable from Check, a deferred action registered before the cleanup defer reads X.failed and panics/transfers it, so it runs after cleanup on every exit", ruleC02R2},
			{"C02-R3", "callbacks-are-bracketed: every user-callback site that receives a *T lies in a bracket or is followed on every normal path by failOnError on the same T", ruleC02R3},
			{"C02-R4", "recover-census: every recover() is a converter (→ panicToError → error result), an invalidData filter that re-panics everything else, or a typed *testError assertion; 'no panic' is not inferred from recover() == nil alone", func(r *Run) { ruleC02R4(r); ruleC02R4nil(r) }},
			{"C02-R5", "classification: findBug counts nil as valid, invalidData as invalid and returns every other error (shared with C09-R2); checkFuzz maps nil/invalid/other to pass/Skip/Fatal (C13-R2)", func(r *Run) { ruleC09R2(r); ruleC13R2(r) }},
			{"C02-R6", "verdict-fails-TB: doCheck's failure returns carry findBug's error; checkTB fails the TB on every non-pass path and calls FailNow (shared with C09-R3/R4)", func(r *Run) { ruleC02R6(r); ruleC09R3(r); ruleC09R4(r) }},
			{"C02-R9", "replayed-falsification-is-kept: the fail-file phase of doCheck returns whenever one of checkFailFile's two errors is non-nil (a fail file that fails once and then passes is reported as flaky, not dropped) and moves on only when both are nil (shared with C06-R5)", ruleC06R5},
			{"C02-R10", "a-replayed-failure-is-not-ignored: checkFailFile's ignore returns (nil, nil, nil) are reachable from an execution of the replayed test case only on the edge where that execution passed or was invalid; an execution in a loop that contains an ignore return reaches it again after an iteration in which it failed", ruleC02R10},
			{"C02-R8", "panic-survives-cleanup: a falsifying panic of the property cannot be replaced by a skip raised from a cleanup callback before the verdict is formed", ruleC02R8},
			{"C02-R7", "cross-goroutine: T.failed is only accessed under T.mu (shared with C14-R1)", func(r *Run) { ruleC14R1(r, map[string]bool{"failed": true}) }},
		},
	}
}

// ---------------------------------------------------------------------------
// brackets

type bracket struct {
	fn       *ssa.Function
	name     string
	X        ssa.Value    // the T whose cleanup is deferred
	cleanup  *ssa.Defer   // defer X.cleanup()
	defers   []*ssa.Defer // all defers of fn in registration order
	callback []*callSite  // calls (non-defer) that hand X to other code after the cleanup defer
}

// brackets finds every function containing `defer X.cleanup()`.
func (r *Run) brackets() []*bracket {
	p := r.P
	var out []*bracket
	for _, fn := range p.FuncList {
		var b *bracket
		for _, cs := range p.calls(fn) {
			d, isDefer := cs.Instr.(*ssa.Defer)
			if !isDefer || cs.Fn != fn {
				continue // defers of inlined helpers run at the helper's exit, not at fn's
			}
			if b == nil {
				b = &bracket{fn: fn, name: p.fnName(fn)}
			}
			b.defers = append(b.defers, d)
			if cs.Key == "(*T).cleanup" && b.cleanup == nil {
				b.cleanup = d
				b.X = p.resolve(cs.Recv())
			}
			// closure form: defer func() { X.cleanup() }()
			if mc, ok := d.Common().Value.(*ssa.MakeClosure); ok && b.cleanup == nil {
				cf := mc.Fn.(*ssa.Function)
				inner := p.callsTo(cf, "(*T).cleanup")
				if len(inner) == 1 && !inner[0].isDefer() && len(p.calls(cf)) == 1 && len(cf.Blocks) == 1 {
					if x := p.resolve(inner[0].Recv()); x != nil {
						if _, isFV := x.(*ssa.FreeVar); !isFV {
							b.cleanup = d
							b.X = x
						}
					}
				}
			}
		}
		if b == nil || b.cleanup == nil {
			continue
		}
		for _, cs := range p.calls(fn) {
			if cs.isDefer() || strings.HasPrefix(cs.Key, "(*T).") {
				continue
			}
			for _, a := range cs.Common.Args {
				if p.resolve(a) == b.X {
					b.callback = append(b.callback, cs)
					break
				}
			}
		}
		out = append(out, b)
	}
	return out
}

// consultsFailed reports whether f, called with X bound to parameter index xi (or, for closures,
// through a free variable resolving to X), reads X.failed and acts on a non-empty value by
// panicking or by calling (*T).fail on another T.
func (p *Program) consultsFailed(f0 *ssa.Function, isX func(v ssa.Value) bool) (bool, string) {
	var loads []ssa.Value
	f := f0
	for _, b := range p.body(f) {
		for _, in := range b.Instrs {
			u, ok := in.(*ssa.UnOp)
			if !ok || u.Op != token.MUL {
				continue
			}
			fa, ok := u.X.(*ssa.FieldAddr)
			if !ok || p.fieldAddrOwner(fa) != "T" || fieldAddrName(fa) != "failed" {
				continue
			}
			if isX(p.resolve(fa.X)) {
				loads = append(loads, u)
			}
		}
	}
	if len(loads) == 0 {
		return false, "does not read the failed flag of the bracket's T"
	}
	for _, b := range p.body(f) {
		for _, in := range b.Instrs {
			act := ""
			switch x := in.(type) {
			case *ssa.Panic:
				act = "panic"
			case *ssa.Call:
				if p.calleeKey(x.Common()) == "(*T).fail" {
					act = "(*T).fail"
				}
			}
			if act == "" {
				continue
			}
			for _, g := range guardsOf(b) {
				bo, ok := p.resolve(g.Cond).(*ssa.BinOp)
				if !ok {
					continue
				}
				rl := p.relOf(g)
				if rl.Op != "!=" {
					continue
				}
				for _, l := range loads {
					lx := p.expr(l)
					_ = bo
					if (rl.X == lx && rl.Y == `""`) || (rl.Y == lx && rl.X == `""`) {
						return true, act + " under " + rl.String()
					}
				}
			}
		}
	}
	return false, "reads the flag but neither panics nor transfers it under failed != \"\""
}

// flagConsultAfterCleanup looks, among the defers registered before the cleanup defer (they run
// after it), for one that consults X.failed.
func (r *Run) flagConsultAfterCleanup(b *bracket) (bool, string) {
	p := r.P
	why := "no deferred call registered before `defer " + p.expr(b.X) + ".cleanup()` consults the failed flag"
	for _, d := range b.defers {
		if d == b.cleanup {
			break // only defers registered before the cleanup defer run after it
		}
		if !dominates(d, b.cleanup) {
			continue
		}
		c := d.Common()
		var f *ssa.Function
		if sc := c.StaticCallee(); sc != nil {
			f = sc
		} else if mc, ok := c.Value.(*ssa.MakeClosure); ok {
			f = mc.Fn.(*ssa.Function)
		}
		if f == nil || !p.inRapid(f) || f.Blocks == nil {
			continue
		}
		if o := f.Origin(); o != nil {
			f = o
		}
		isX := func(v ssa.Value) bool { return v == b.X }
		for i, a := range c.Args {
			if p.resolve(a) == b.X && i < len(f.Params) {
				pi := f.Params[i]
				isX = func(v ssa.Value) bool { return v == ssa.Value(pi) || v == b.X }
			}
		}
		ok, how := p.consultsFailed(f, isX)
		if ok {
			return true, "deferred " + p.fnName(f) + " (registered before the cleanup defer, hence running after it on every exit): " + how
		}
		// one level of helper extraction
		for _, cs := range p.calls(f) {
			if sc := cs.Common.StaticCallee(); sc != nil && p.inRapid(sc) && sc.Blocks != nil {
				for i, a := range cs.Common.Args {
					if isX(p.resolve(a)) && i < len(sc.Params) {
						pi := sc.Params[i]
						if ok2, how2 := p.consultsFailed(sc, func(v ssa.Value) bool { return v == ssa.Value(pi) }); ok2 {
							// the helper must be called on every path of the deferred function (not only e.g. when the attempt was accepted)
							if byp := escapesFromEntry(f, func(in ssa.Instruction) bool { return in == cs.Instr.(ssa.Instruction) }, false); byp != nil {
								why = "the deferred " + p.fnName(f) + " consults the flag (via " + p.fnName(sc) + ") only on some of its paths (it can return at " + p.pos(byp.Pos()) + " without doing so)"
								continue
							}
							return true, "deferred " + p.fnName(f) + " → " + p.fnName(sc) + ": " + how2
						}
					}
				}
			}
		}
	}
	return false, why
}

func ruleC02R1(r *Run) {
	p := r.P
	table := map[string]bool{"Error": false, "Errorf": false, "Fail": false, "Fatal": true, "Fatalf": true, "FailNow": true}
	for _, m := range []string{"Error", "Errorf", "Fail", "Fatal", "Fatalf", "FailNow"} {
		fn := r.MustFn("(*T)." + m)
		if fn == nil {
			continue
		}
		cs := p.callsTo(fn, "(*T).fail")
		if len(cs) != 1 {
			r.Fail("(*T)."+m+"#fail", fn.Pos(), fmt.Sprintf("(*T).%s calls (*T).fail %d times (expected exactly once)", m, len(cs)))
			continue
		}
		now, isConst := constBool(p.resolve(cs[0].Arg(0)))
		okRecv := p.resolve(cs[0].Recv()) == ssa.Value(fn.Params[0])
		exit := escapesFromEntry(fn, func(in ssa.Instruction) bool { return in == cs[0].Instr.(ssa.Instruction) }, false)
		r.Check("(*T)."+m+"#fail", cs[0].Instr.Pos(), isConst && now == table[m] && okRecv && exit == nil,
			fmt.Sprintf("calls t.fail(%v, …) on every path", table[m]),
			fmt.Sprintf("(*T).%s must call t.fail(%v, …) on its own receiver on every path (now=%v const=%v ownReceiver=%v bypass=%s)", m, table[m], now, isConst, okRecv, posOf(p, exit)))
	}
	if fn := r.MustFn("(*T).fail"); fn != nil {
		var st *ssa.Store
		for _, b := range p.body(fn) {
			for _, in := range b.Instrs {
				if s, ok := in.(*ssa.Store); ok {
					if fa, ok := s.Addr.(*ssa.FieldAddr); ok && fieldAddrName(fa) == "failed" && p.resolve(fa.X) == ssa.Value(fn.Params[0]) {
						st = s
					}
				}
			}
		}
		if st == nil {
			r.Fail("(*T).fail#store-failed", fn.Pos(), "(*T).fail does not store to t.failed")
		} else {
			exit := escapesFromEntry(fn, func(in ssa.Instruction) bool { return in == ssa.Instruction(st) }, true)
			notEmpty := true
			if c, ok := p.resolve(st.Val).(*ssa.Const); ok {
				if s, ok := constString(c); ok && s == "" {
					notEmpty = false
				}
			}
			r.Check("(*T).fail#store-failed", st.Pos(), exit == nil && notEmpty, "stores the message to t.failed on every path", "t.failed is not set on every path of (*T).fail (bypass at "+posOf(p, exit)+") or is set to the empty string")
			// the flag is tested as failed != "": the stored value must be provably non-empty for every message
			r.Check("(*T).fail#flag-non-empty", st.Pos(), p.nonEmptyString(st.Val, st, 0), "the value stored to the flag is non-empty for every message",
				"(*T).fail stores "+p.expr(st.Val)+" into the flag that failOnError/Failed/failFrom test with != \"\": a non-fatal failure with an empty message (t.Error(), t.Errorf(\"\")) leaves the flag empty and is lost")
		}
		// panic on now
		nowP := paramNamed(fn, "now")
		found := false
		for _, b := range p.body(fn) {
			for _, in := range b.Instrs {
				pn, ok := in.(*ssa.Panic)
				if !ok {
					continue
				}
				typ := p.typeStr(panicType(pn))
				okGuard := nowP != nil && holds(p.facts(pn), "$now", "==", "true")
				found = true
				r.Check("(*T).fail#panic", pn.Pos(), typ == "stopTest" && okGuard && (st == nil || dominates(st, pn)),
					"panics with a stopTest value exactly under now, after setting the flag", "the fatal path of (*T).fail must panic with a stopTest value under now==true after setting the flag (type "+typ+", facts "+factsStr(p.facts(pn))+")")
			}
		}
		if !found {
			r.Fail("(*T).fail#panic", fn.Pos(), "(*T).fail never panics: Fatal/Fatalf/FailNow no longer stop the test case")
		}
		// the now==true edge must reach the panic
		if nowP != nil {
			for _, b := range p.body(fn) {
				if iff, ok := b.Instrs[len(b.Instrs)-1].(*ssa.If); ok && p.resolve(iff.Cond) == ssa.Value(nowP) {
					hasPanic := false
					for _, in := range b.Succs[0].Instrs {
						if _, ok := in.(*ssa.Panic); ok {
							hasPanic = true
						}
					}
					r.Check("(*T).fail#now-edge", iff.Pos(), hasPanic, "the now edge ends in the panic", "the now==true edge of (*T).fail does not panic")
				}
			}
		}
	}
	if fn := r.MustFn("(*T).skip"); fn != nil {
		stores := 0
		for _, fa := range p.fieldAccesses("T") {
			if p.within(fa.Fn, fn) && fa.Kind == "write" {
				stores++
			}
		}
		pan := 0
		okType := true
		for _, b := range p.body(fn) {
			for _, in := range b.Instrs {
				if pn, ok := in.(*ssa.Panic); ok {
					pan++
					if p.typeStr(panicType(pn)) != "invalidData" {
						okType = false
					}
				}
			}
		}
		exit := escapesFromEntry(fn, func(in ssa.Instruction) bool { return false }, false)
		r.Check("(*T).skip", fn.Pos(), stores == 0 && pan >= 1 && okType && exit == nil && len(p.callsTo(fn, "(*T).fail")) == 0,
			"skip stores no T field and always panics with invalidData", fmt.Sprintf("skip must not touch the failure flag and must panic with invalidData (stores=%d panics=%d invalidDataType=%v returns=%v)", stores, pan, okType, exit != nil))
	}
	for _, m := range []string{"Skip", "Skipf", "SkipNow"} {
		fn := r.MustFn("(*T)." + m)
		if fn == nil {
			continue
		}
		r.Check("(*T)."+m, fn.Pos(), len(p.callsTo(fn, "(*T).fail")) == 0 && len(p.callsTo(fn, "(*T).skip")) == 1,
			"delegates to skip, never to fail", "(*T)."+m+" must call skip and never fail")
	}
}

func ruleC02R2(r *Run) {
	p := r.P
	bs := r.brackets()
	r.Floor("bracket functions (defer X.cleanup())", len(bs), 3)
	// brackets reachable from Check/MakeCheck/MakeFuzz
	var roots []*ssa.Function
	for _, n := range []string{"Check", "MakeCheck$1", "MakeFuzz$1"} {
		if f := r.MustFn(n); f != nil {
			roots = append(roots, f)
		}
	}
	roots = append(roots, generationRoots(r)...)
	cl := p.closureOf(roots)
	for _, b := range bs {
		if !cl[b.fn] {
			r.OK(b.name+"#exempt", b.fn.Pos(), "bracket not reachable from Check/MakeCheck/MakeFuzz (Example path): exempt from C02")
			continue
		}
		ok, how := r.flagConsultAfterCleanup(b)
		r.Check(b.name, b.cleanup.Pos(), ok, how,
			"the failure flag of "+p.expr(b.X)+" is not consulted after its cleanups on every exit path of "+b.name+": "+how+
				" — a non-fatal failure signalled before a skip or from a cleanup callback is lost")
		if !ok {
			continue
		}
		// if the consulting action panics, a converting recover must be registered before it, or the bracket must not recover at all
	}
	// the converting bracket: recover defer registered first
	if co := r.MustFn("checkOnce"); co != nil {
		var first *ssa.Defer
		for _, cs := range p.calls(co) {
			if d, ok := cs.Instr.(*ssa.Defer); ok {
				first = d
				break
			}
		}
		okFirst := false
		if first != nil {
			if f := deferredFn(p, first); f != nil {
				class, _ := r.classifyRecoverFn(f)
				okFirst = class == "A" && len(p.callsTo(f, "panicToError")) == 1
			}
		}
		r.Check("checkOnce#recover-first", co.Pos(), okFirst, "the converting recover is the first registered defer of checkOnce: it runs last and sees panics of the property, of cleanups and of the flag consult",
			"the first defer of checkOnce is not the recover→panicToError converter: panics raised by cleanups or by the deferred flag consult escape")
	}
}

func ruleC02R3(r *Run) {
	p := r.P
	bs := r.brackets()
	n := 0
	for _, fn := range p.FuncList {
		for _, cs := range p.calls(fn) {
			if !strings.HasPrefix(cs.Key, "dyn:") || cs.isDefer() {
				continue
			}
			// receives a *T ?
			var tArg ssa.Value
			for _, a := range cs.Common.Args {
				if isPtrToNamed(a.Type(), "T") {
					tArg = p.resolve(a)
				} else if n, ok := a.Type().(*types.Named); ok && n.Obj().Name() == "TB" {
					if mi, ok := a.(*ssa.MakeInterface); ok && isPtrToNamed(mi.X.Type(), "T") {
						tArg = p.resolve(mi.X)
					}
				}
			}
			if tArg == nil {
				continue
			}
			name := p.fnName(fn)
			construct := name + "#" + cs.Key
			// internal dispatch: callee is a parameter that every caller binds to a function of the analysed package
			if why, internal := r.internalDispatch(fn, cs); internal {
				r.OK(construct, cs.Instr.Pos(), "internal dispatch, not a user callback: "+why)
				continue
			}
			n++
			// forwarder: a function literal of type func(*T) that only forwards its own parameter to one callback
			if fn.Parent() != nil && len(fn.Params) == 1 && tArg == ssa.Value(fn.Params[0]) && countDyn(p, fn) == 1 {
				r.OK(construct, cs.Instr.Pos(), "forwarding adapter: the literal is itself installed as a callback value and judged at its call site")
				continue
			}
			// the same adapter as a method of a function type (`type tbAction func(TB)`; `tbAction(m).run` as method value):
			// it calls its receiver with its own parameter, is never called directly, only installed as a value
			if fn.Parent() == nil && len(fn.Params) == 2 && tArg == ssa.Value(fn.Params[1]) && countDyn(p, fn) == 1 &&
				p.resolve(cs.Common.Value) == ssa.Value(fn.Params[0]) {
				if info := p.callerIndex()[fn]; info != nil && info.valueUse && len(info.sites) == 0 {
					r.OK(construct, cs.Instr.Pos(), "forwarding adapter: a method of a function type that calls its receiver with its own parameter; it is only installed as a callback value and judged at its call site")
					continue
				}
			}
			// (a) in a bracket on the same T
			inBracket := false
			for _, b := range bs {
				if b.fn == fn && b.X == tArg && dominates(b.cleanup, cs.Instr) {
					inBracket = true
				}
			}
			if inBracket {
				r.OK(construct, cs.Instr.Pos(), "inside bracket "+name+" (flag consult: C02-R2)")
				continue
			}
			// (b) followed by failOnError on the same T on every normal path
			exit := escapesWithout(cs.Instr, func(in ssa.Instruction) bool {
				c, ok := in.(*ssa.Call)
				if !ok || p.calleeKey(c.Common()) != "(*T).failOnError" {
					return false
				}
				return p.resolve(c.Common().Args[0]) == tArg
			}, false)
			// and no other user callback in between
			r.Check(construct, cs.Instr.Pos(), exit == nil, "followed by failOnError on the same T on every normal path",
				"user callback receives a *T but the function can return (at "+posOf(p, exit)+") without calling failOnError on it: a non-fatal failure signalled in the callback is not noticed here")
		}
	}
	r.Floor("user-callback sites receiving a *T", n, 6)
}

func countDyn(p *Program, fn *ssa.Function) int {
	n := 0
	for _, cs := range p.calls(fn) {
		if strings.HasPrefix(cs.Key, "dyn:") {
			n++
		}
	}
	return n
}

func isPtrToNamed(t types.Type, name string) bool {
	pt, ok := t.(*types.Pointer)
	if !ok {
		return false
	}
	n, ok := pt.Elem().(*types.Named)
	return ok && n.Obj().Name() == name && n.Obj().Pkg() != nil && n.Obj().Pkg().Path() == rapidPath
}

// internalDispatch: the dynamic callee is a parameter of fn and every static caller of fn in the
// package passes a function of the package (bound method / closure) for it.
func (r *Run) internalDispatch(fn *ssa.Function, cs *callSite) (string, bool) {
	p := r.P
	if lc := p.localCallees(cs.Common); lc != nil {
		var names []string
		for _, f := range lc {
			names = append(names, p.fnName(f))
		}
		return "the function value is built in this function from " + strings.Join(names, " / "), true
	}
	par, ok := p.resolve(cs.Common.Value).(*ssa.Parameter)
	if !ok || par.Parent() != fn {
		return "", false
	}
	idx := -1
	for i, q := range fn.Params {
		if q == par {
			idx = i
		}
	}
	callers := 0
	for _, g := range p.FuncList {
		for _, c := range p.calls(g) {
			sc := c.Common.StaticCallee()
			if sc == nil {
				continue
			}
			if o := sc.Origin(); o != nil {
				sc = o
			}
			if sc != fn {
				continue
			}
			callers++
			a := p.resolve(c.Common.Args[idx])
			switch x := a.(type) {
			case *ssa.MakeClosure:
				if !p.inRapid(x.Fn.(*ssa.Function)) {
					return "", false
				}
			case *ssa.Function:
				if !p.inRapid(x) {
					return "", false
				}
			default:
				return "", false
			}
		}
	}
	if callers == 0 {
		return "", false
	}
	return fmt.Sprintf("all %d callers of %s bind parameter %s to functions of the package", callers, p.fnName(fn), par.Name()), true
}

func ruleC02R4(r *Run) {
	p := r.P
	counts := map[string]int{}
	for _, fn := range p.FuncList {
		for _, cs := range p.callsTo(fn, "builtin:recover") {
			name := p.fnName(fn)
			rv := cs.Value()
			class, detail := r.classifyRecover(fn, rv)
			if class == "" {
				r.Fail(name, cs.Instr.Pos(), "recover() site is none of the accepted classes (convert / invalidData filter / typed *testError): "+detail+" — it may swallow a falsification")
				continue
			}
			counts[class]++
			r.OK(name, cs.Instr.Pos(), "class "+class+": "+detail)
		}
	}
	total := counts["A"] + counts["B"] + counts["C"]
	r.Check("census", token.NoPos, counts["A"] == 2 && counts["B"] == 2 && counts["C"] == 1,
		fmt.Sprintf("recover sites: %d converters, %d invalidData filters, %d typed (total %d)", counts["A"], counts["B"], counts["C"], total),
		fmt.Sprintf("recover-site census changed: %d converters, %d filters, %d typed — the reviewed census is 2/2/1; a new or removed recover changes which panics reach the verdict", counts["A"], counts["B"], counts["C"]))
}

// classifyRecoverFn classifies the (single) recover() site of fn.
// ruleC02R4nil: "no panic" must not be inferred from recover() == nil alone.
func ruleC02R4nil(r *Run) {
	p := r.P
	// "no panic" is inferred from recover() == nil
	if pe := r.MustFn("panicToError"); pe != nil {
		nilMeansNone := false
		for _, ret := range returnsOf(pe) {
			if isNilConst(p.resolve(p.res(ret, 0))) && holds(p.facts(ret), "$p", "==", "nil") {
				nilMeansNone = true
			}
		}
		flagged := false
		if co := p.Fn("checkOnce$1"); co != nil {
			for _, fv := range co.FreeVars {
				if pt, ok := fv.Type().(*types.Pointer); ok {
					if bt, ok := pt.Elem().Underlying().(*types.Basic); ok && bt.Kind() == types.Bool {
						flagged = true // a completion flag is consulted next to recover()
					}
				}
			}
		}
		goVer := ""
		if p.Pkg != nil && p.Pkg.Module != nil {
			goVer = p.Pkg.Module.GoVersion
		}
		r.Check("panicToError#nil-means-no-panic", pe.Pos(), !nilMeansNone || flagged, "the verdict does not rely on recover() == nil alone",
			"the verdict converter treats recover() == nil as 'the property did not panic' (module go directive "+goVer+"): in programs whose main module declares go < 1.21 (GODEBUG panicnil=1, the case for this module's own tests) panic(nil) inside the property returns nil from recover() and the falsification is lost")
	}
}

func (r *Run) classifyRecoverFn(fn *ssa.Function) (string, string) {
	cs := r.P.callsTo(fn, "builtin:recover")
	if len(cs) != 1 {
		return "", fmt.Sprintf("%d recover() calls", len(cs))
	}
	return r.classifyRecover(fn, cs[0].Value())
}

func (r *Run) classifyRecover(fn *ssa.Function, rv ssa.Value) (string, string) {
	p := r.P
	if rv == nil || rv.Referrers() == nil {
		return "", "result unused"
	}
	var refs []ssa.Instruction
	for _, x := range *rv.Referrers() {
		if _, ok := x.(*ssa.DebugRef); ok {
			continue
		}
		refs = append(refs, x)
	}
	// class A
	if len(refs) == 1 {
		if c, ok := refs[0].(*ssa.Call); ok && p.calleeKey(c.Common()) == "panicToError" && c.Common().Args[0] == rv {
			okStore := false
			if c.Referrers() != nil {
				for _, x := range *c.Referrers() {
					if st, ok := x.(*ssa.Store); ok && st.Val == ssa.Value(c) {
						if par, isPar := st.Addr.(*ssa.Parameter); isPar && fn.Parent() == nil {
							// a named converter deferred as `defer f(&err)`: at every use it is deferred with the
							// address of the deferring function's error result
							if host := p.deferredWithResultCell(fn, par); host != nil {
								return "A", "recover() → panicToError → error result of " + p.fnName(host) + " (through the pointer handed to the deferred converter)"
							}
						}
						if ci := p.cellOf(st.Addr); ci != nil && fn.Parent() != nil {
							// the cell must be a result of the parent: parent's returns load it
							for _, ret := range returnsOf(fn.Parent()) {
								for _, rs := range ret.Results {
									if u, ok := rs.(*ssa.UnOp); ok && p.cellOf(u.X) == ci {
										okStore = true
									}
								}
							}
						}
					}
				}
			}
			if okStore {
				return "A", "recover() → panicToError → error result of " + p.fnName(fn.Parent())
			}
			return "", "panicToError result is not stored to the enclosing function's error result"
		}
	}
	// class B / C by paths
	isFilter := false
	for _, x := range refs {
		if ta, ok := x.(*ssa.TypeAssert); ok && ta.CommaOk && p.typeStr(ta.AssertedType) == "invalidData" {
			isFilter = true
		}
	}
	if isFilter {
		// every normal return: recover()==nil or assert ok; every other exit: panic(rv)
		for _, ret := range returnsOf(fn) {
			sets := p.pathConds(fn, ret.Block(), nil)
			for _, set := range sets {
				ok := false
				for _, lit := range set {
					if lit == "builtin:recover() == nil" || strings.HasPrefix(lit, "assert<invalidData>(builtin:recover()),ok#1 == true") {
						ok = true
					}
				}
				if !ok {
					return "", "a normal return of the filter is reachable with a non-nil, non-invalidData panic value (path {" + strings.Join(set, " ∧ ") + "})"
				}
			}
		}
		pan := 0
		for _, b := range p.body(fn) {
			for _, in := range b.Instrs {
				if pn, ok := in.(*ssa.Panic); ok {
					pan++
					if p.resolve(pn.X) != rv {
						return "", "the filter re-panics a value other than the recovered one"
					}
				}
			}
		}
		if pan == 0 {
			return "", "the filter never re-panics"
		}
		return "B", "swallows only invalidData, re-panics everything else"
	}
	for _, x := range refs {
		if ta, ok := x.(*ssa.TypeAssert); ok && !ta.CommaOk && p.typeStr(ta.AssertedType) == "*testError" {
			// all uses of rv other than nil comparison must be this assertion
			for _, y := range refs {
				if y == x {
					continue
				}
				if bo, ok := y.(*ssa.BinOp); ok && (bo.Op == token.NEQ || bo.Op == token.EQL) {
					continue
				}
				return "", "recovered value has other uses"
			}
			return "C", "plain assertion to *testError (anything else re-panics)"
		}
	}
	return "", "unrecognised use of the recovered value"
}

func ruleC02R6(r *Run) {
	p := r.P
	dc := r.MustFn("doCheck")
	if dc == nil {
		return
	}
	fbs := p.callsTo(dc, "findBug")
	if len(fbs) != 1 {
		r.Undecided("doCheck#findBug", dc.Pos(), "expected one findBug call")
		return
	}
	fb := fbs[0]
	errKey := p.expr(extractOr(fb.Value(), 4))
	n := 0
	for _, ret := range returnsOf(dc) {
		if !dominates(fb.Instr, ret) || holds(p.facts(ret), errKey, "==", "nil") {
			continue
		}
		n++
		e6 := p.resolve(p.res(ret, 6))
		ok := p.isResultOf(e6, fb.Value(), 4)
		if !ok {
			// guarded by sameError(err1, e6) == true
			for _, g := range guardsOf(ret.Block()) {
				cond, pol := g.Cond, g.Pol
				if u, isNot := p.resolve(cond).(*ssa.UnOp); isNot && u.Op == token.NOT {
					cond, pol = u.X, !pol
				}
				c, isCall := p.resolve(cond).(*ssa.Call)
				if isCall && pol && p.calleeKey(c.Common()) == "sameError" {
					a0, a1 := c.Common().Args[0], c.Common().Args[1]
					if (p.isResultOf(a0, fb.Value(), 4) && p.same(a1, e6)) || (p.isResultOf(a1, fb.Value(), 4) && p.same(a0, e6)) {
						ok = true
					}
				}
			}
		}
		if !ok {
			// sameError written out: message and traceback of the two errors compared directly
			isFB := func(v ssa.Value) bool { return p.isResultOf(v, fb.Value(), 4) }
			isE6 := func(v ssa.Value) bool { return p.same(v, e6) }
			part := func(v ssa.Value) (string, ssa.Value) {
				switch x := p.resolve(v).(type) {
				case *ssa.Call:
					switch p.calleeKey(x.Common()) {
					case "errorString", "(*testError).Error":
						return "msg", x.Common().Args[0]
					case "traceback":
						return "tb", x.Common().Args[0]
					}
				case *ssa.UnOp:
					if fa, isFA := x.X.(*ssa.FieldAddr); isFA && x.Op == token.MUL && fieldAddrName(fa) == "traceback" {
						return "tb", fa.X
					}
				}
				return "", nil
			}
			have := map[string]bool{}
			for _, g := range guardsOf(ret.Block()) {
				bo, isBo := p.resolve(g.Cond).(*ssa.BinOp)
				if !isBo || !((bo.Op == token.EQL && g.Pol) || (bo.Op == token.NEQ && !g.Pol)) {
					continue
				}
				kx, vx := part(bo.X)
				ky, vy := part(bo.Y)
				if kx == "" || kx != ky {
					continue
				}
				if (isFB(vx) && isE6(vy)) || (isFB(vy) && isE6(vx)) {
					have[kx] = true
				}
			}
			ok = have["msg"] && have["tb"]
		}
		r.Check("doCheck#return-failure.err1", ret.Pos(), ok, "failure return carries findBug's error (or one proven sameError to it) as the first error",
			"a failure return of doCheck carries "+p.expr(e6)+" as first error, which is neither findBug's error nor guarded by sameError with it: the falsification can be reported as nil")
	}
	r.Floor("failure returns of doCheck after findBug", n, 2)
	// fail-file loop returns on any error
	for _, cs := range p.callsTo(dc, "checkFailFile") {
		e1, e2 := extractOr(cs.Value(), 1), extractOr(cs.Value(), 2)
		found := false
		for _, ret := range returnsOf(dc) {
			if p.same(p.res(ret, 6), e1) && p.same(p.res(ret, 7), e2) {
				found = true
				// reachable when either error non-nil: the return block must not require both
				sets := p.pathConds(dc, ret.Block(), func(rl rel) bool { return strings.Contains(rl.X, "checkFailFile(") })
				okAny := false
				for _, s := range sets {
					if len(s) == 1 {
						okAny = true
					}
				}
				r.Check("doCheck#failfile-return", ret.Pos(), okAny, "a reproducing fail file returns when either error is non-nil", "the fail-file return requires both errors to be non-nil")
			}
		}
		if !found {
			r.Fail("doCheck#failfile-return", cs.Instr.Pos(), "no return of doCheck hands on the errors of checkFailFile")
		}
	}
}

// nonEmptyString: the string value v is provably non-empty at instruction at.
func (p *Program) nonEmptyString(v ssa.Value, at ssa.Instruction, d int) bool {
	if d > 6 {
		return false
	}
	v = p.resolve(v)
	switch x := v.(type) {
	case *ssa.Const:
		s, ok := constString(x)
		return ok && s != ""
	case *ssa.Convert:
		return p.nonEmptyString(x.X, at, d+1)
	case *ssa.ChangeType:
		return p.nonEmptyString(x.X, at, d+1)
	case *ssa.Call:
		// a helper with several returns: each returned value is non-empty where it is returned
		if sc := x.Common().StaticCallee(); sc != nil && p.transparent(sc) && sc.Signature.Results().Len() == 1 {
			if o := sc.Origin(); o != nil {
				sc = o
			}
			rets := returnsOf(sc)
			for _, ret := range rets {
				if !p.nonEmptyString(p.res(ret, 0), ret, d+1) {
					return false
				}
			}
			return len(rets) > 0
		}
	case *ssa.BinOp:
		if x.Op == token.ADD {
			return p.nonEmptyString(x.X, at, d+1) || p.nonEmptyString(x.Y, at, d+1)
		}
	case *ssa.Phi:
		for i, e := range x.Edges {
			pred := x.Block().Preds[i]
			last := pred.Instrs[len(pred.Instrs)-1]
			if p.nonEmptyString(e, last, d+1) {
				continue
			}
			// the edge's own branch decision
			ok := false
			if iff, isIf := last.(*ssa.If); isIf {
				rl := p.relOf(guard{Cond: iff.Cond, Pol: pred.Succs[0] == x.Block()})
				if rl.X == p.expr(e) && rl.Op == "!=" && rl.Y == `""` {
					ok = true
				}
			}
			if !ok {
				return false
			}
		}
		return len(x.Edges) > 0
	}
	return holds(p.facts(at), p.expr(v), "!=", `""`)
}

func ruleC02R8(r *Run) {
	p := r.P
	co := r.MustFn("checkOnce")
	cu := r.MustFn("(*T).cleanup")
	if co == nil || cu == nil {
		return
	}
	var b *bracket
	for _, x := range r.brackets() {
		if x.fn == co {
			b = x
		}
	}
	if b == nil {
		r.Fail("checkOnce#bracket", co.Pos(), "checkOnce has no deferred cleanup")
		return
	}
	// (a) something registered after the cleanup defer (hence running before the user cleanups) records/recovers the in-flight panic
	recorded := false
	after := false
	for _, d := range b.defers {
		if d == b.cleanup {
			after = true
			continue
		}
		if !after {
			continue
		}
		if f := deferredFn(p, d); f != nil && len(p.callsTo(f, "builtin:recover")) > 0 {
			recorded = true
		}
	}
	// (b) or cleanup itself shields callbacks: a recover around the callback call inside (*T).cleanup
	shielded := false
	for f := range p.closureOf([]*ssa.Function{cu}) {
		if f != cu && f.Parent() == cu && len(p.callsTo(f, "builtin:recover")) > 0 {
			shielded = true
		}
	}
	r.Check("checkOnce#panic-masked-by-cleanup-skip", b.cleanup.Pos(), recorded || shielded,
		"a falsifying panic is recorded before user cleanups run, or cleanup shields the verdict from skips raised by callbacks",
		"user cleanup callbacks run while a falsifying panic of the property may be in flight and nothing has recorded it: a callback that skips (t.Skip, an exhausted draw) replaces the panic by invalidData, the test case is counted as invalid and the falsification is lost (failures signalled through T survive thanks to the deferred failOnError; arbitrary panics do not)")
}

// deferredFn returns the package function a defer statement runs (closure or static callee).
func deferredFn(p *Program, d *ssa.Defer) *ssa.Function {
	if mc, ok := d.Common().Value.(*ssa.MakeClosure); ok {
		return mc.Fn.(*ssa.Function)
	}
	if sc := d.Common().StaticCallee(); sc != nil && p.inRapid(sc) {
		if o := sc.Origin(); o != nil {
			return o
		}
		return sc
	}
	return nil
}

// deferredWithResultCell: every use of fn is a defer statement that passes, for parameter par, the address of a result
// cell of the deferring function (a cell its returns load). Returns that function (the last one), nil otherwise.
func (p *Program) deferredWithResultCell(fn *ssa.Function, par *ssa.Parameter) *ssa.Function {
	ci := p.callerIndex()[fn]
	if ci == nil || ci.valueUse || len(ci.sites) == 0 {
		return nil
	}
	idx := -1
	for k, q := range fn.Params {
		if q == par {
			idx = k
		}
	}
	if idx < 0 {
		return nil
	}
	var host *ssa.Function
	for _, site := range ci.sites {
		d, ok := site.(*ssa.Defer)
		if !ok || idx >= len(d.Common().Args) {
			return nil
		}
		cell := p.cellOf(d.Common().Args[idx])
		if cell == nil {
			return nil
		}
		loaded := false
		for _, ret := range returnsOf(d.Parent()) {
			for _, rs := range ret.Results {
				if u, ok := rs.(*ssa.UnOp); ok && p.cellOf(u.X) == cell {
					loaded = true
				}
			}
		}
		if !loaded {
			return nil
		}
		host = d.Parent()
	}
	return host
}

func ruleC02R10(r *Run) {
	p := r.P
	fn := r.MustFn("checkFailFile")
	if fn == nil {
		return
	}
	// executions of the replayed test case: run calls, or (a local closure / helper wrapping the run) any call in
	// checkFailFile that yields a *testError
	var runs []*ssa.Call
	for _, rc := range p.runCalls(fn) {
		runs = append(runs, rc.Call)
	}
	if len(runs) == 0 {
		for _, cs := range p.calls(fn) {
			c, isCall := cs.Instr.(*ssa.Call)
			if !isCall || cs.Common.Signature().Results().Len() != 1 {
				continue
			}
			if p.typeStr(cs.Common.Signature().Results().At(0).Type()) == "*testError" {
				runs = append(runs, c)
			}
		}
	}
	r.Floor("executions of the replayed test case in checkFailFile", len(runs), 1)
	n := 0
	for _, ret := range returnsOf(fn) {
		if p.nres(ret) < 3 || !isNilConst(p.resolve(p.res(ret, 1))) || !isNilConst(p.resolve(p.res(ret, 2))) {
			continue
		}
		n++
		facts := p.facts(ret)
		for _, rc := range runs {
			if !reachable(rc, ret, nil) {
				continue
			}
			ek := p.expr(rc)
			// the two ignore exits may be merged under one disjunction (`if err == nil || err.isInvalidData()`): every
			// way of arriving at the return is then examined by itself
			passedUnder := func(gs []guard) bool {
				var fs []rel
				for _, g := range gs {
					fs = append(fs, p.relOf(g))
				}
				return holds(fs, ek, "==", "nil") || holds(fs, "(*testError).isInvalidData("+ek+")", "==", "true") || guardsHaveCall(p, gs, "(*testError).isInvalidData", rc, true)
			}
			passed := holds(facts, ek, "==", "nil") || holds(facts, "(*testError).isInvalidData("+ek+")", "==", "true") || holdsCallTrue(p, ret.Block(), "(*testError).isInvalidData", rc) || p.holdsViaMerges(ret.Block(), passedUnder, 0)
			if l := innermostLoop(rc); l != nil && l.Body[ret.Block()] {
				r.Fail("checkFailFile#ignore-after-run", ret.Pos(), "this ignore return lies in the loop that executes the replayed test case: it is reached again in a later iteration, after an execution that failed — a test case that failed when replayed is logged as ignored and, if the random cases pass, Check passes")
				continue
			}
			r.Check("checkFailFile#ignore-after-run", ret.Pos(), passed, "the replay is ignored only where its execution passed or was invalid", "checkFailFile can ignore the fail file (return nil errors) after an execution of the test case ("+ek+") that is not known to have passed or been invalid: a falsification found by the replay is dropped")
		}
	}
	r.Floor("ignore returns of checkFailFile", n, 2)
}
