package main
func ruleC03R4(r *Run) {}
func ruleC03R5(r *Run) {}
