package main
func ruleC04R3buf(r *Run) {}
func ruleC03R4(r *Run) {}
func ruleC03R5(r *Run) {}
