package main
func ruleC15R3(r *Run) {}
