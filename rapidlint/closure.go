package main

import (
	"fmt"
	"go/token"
	"go/types"
	"sort"
	"strings"

	"golang.org/x/tools/go/callgraph"
	"golang.org/x/tools/go/ssa"
)

// closureOf computes the functions of the analysed package reachable from roots: static callees,
// interface/dynamic callees as resolved by the call graph (CHA, refined by VTA in the thorough tier),
// and function values handed to external functions (sync.Once.Do, sort.Slice, …).
// User-supplied callbacks are opaque (they are not part of the analysed package).
func (p *Program) closureOf(roots []*ssa.Function) map[*ssa.Function]bool {
	return p.closureSkip(roots, nil)
}

// closureSkip is closureOf that does not descend into the named functions (opaque sinks).
func (p *Program) closureSkip(roots []*ssa.Function, skip map[string]string) map[*ssa.Function]bool {
	cg := p.CallGraph()
	seen := map[*ssa.Function]bool{}
	var work []*ssa.Function
	push := func(f *ssa.Function) {
		if f == nil {
			return
		}
		if o := f.Origin(); o != nil {
			f = o
		}
		if !p.inRapid(f) || f.Blocks == nil || seen[f] {
			return
		}
		if _, sk := skip[p.fnName(f)]; sk {
			return
		}
		seen[f] = true
		work = append(work, f)
	}
	for _, f := range roots {
		push(f)
	}
	for len(work) > 0 {
		fn := work[len(work)-1]
		work = work[:len(work)-1]
		var node *callgraph.Node
		if cg != nil {
			node = cg.Nodes[fn]
		}
		for _, b := range fn.Blocks {
			for _, in := range b.Instrs {
				switch x := in.(type) {
				case *ssa.MakeClosure:
					// a closure created here may be called later by whoever receives it; it is part of the closure
					// only if it is invoked, which the call edges below decide — except when handed to external code.
				case ssa.CallInstruction:
					c := x.Common()
					if sc := c.StaticCallee(); sc != nil {
						if p.inRapid(sc) {
							push(sc)
							// bound-method wrappers / instantiation wrappers
						} else {
							for _, a := range c.Args {
								switch fv := p.resolve(a).(type) {
								case *ssa.MakeClosure:
									push(fv.Fn.(*ssa.Function))
								case *ssa.Function:
									push(fv)
								}
							}
						}
						continue
					}
					for _, fv := range p.funcValuesOf(c.Value, 0, map[ssa.Value]bool{}) {
						push(fv)
					}
					if node != nil {
						for _, e := range node.Out {
							if e.Site == x {
								cal := e.Callee.Func
								if strings.HasSuffix(cal.Name(), "$bound") || cal.Synthetic != "" {
									// follow wrappers one step
									if cn := cg.Nodes[cal]; cn != nil {
										for _, e2 := range cn.Out {
											push(e2.Callee.Func)
										}
									}
								}
								push(cal)
							}
						}
					}
				}
			}
		}
		// anonymous functions that are invoked only via defer/go of a MakeClosure are static callees already
	}
	return seen
}

func sortedFuncs(p *Program, m map[*ssa.Function]bool) []*ssa.Function {
	var out []*ssa.Function
	for f := range m {
		out = append(out, f)
	}
	sort.Slice(out, func(i, j int) bool { return p.fnName(out[i]) < p.fnName(out[j]) })
	return out
}

// ---------------------------------------------------------------------------
// nondeterminism census (C04-R1, C07-R4, C13-R5, C15-R5)

// nondeterminism sources by package path prefix / function
var nondetPkgs = []string{"math/rand", "math/rand/v2", "crypto/rand", "hash/maphash", "time", "os", "runtime", "syscall", "net"}

// calls of these external functions are not sources (pure or output sinks)
var nondetAllowedFuncs = map[string]string{
	"time.Duration.String":    "pure",
	"(time.Duration).String":  "pure",
	"(time.Time).Before":      "pure comparison of two time values",
	"(time.Time).After":       "pure comparison of two time values",
	"(time.Time).Add":         "pure",
	"(time.Time).Format":      "pure",
	"(time.Duration).Seconds": "pure",
	"os.Create":               "output sink (debug visualisation file), result does not steer generation",
	"(*os.File).Close":        "output sink",
	"(*os.File).Write":        "output sink",
	"(*os.File).WriteString":  "output sink",
	"runtime.Callers":         "traceback capture: feeds error identity (same code path ⇒ same frames), never a draw",
	"runtime.CallersFrames":   "traceback capture",
	"(*runtime.Frames).Next":  "traceback capture",
	"runtime.KeepAlive":       "no effect on values",
}

// package-level variables of the analysed package that may be read while generating, with reasons
var globalReadAllowed = map[string]string{
	"flags":                "process-constant configuration written only by package flag during flag.Parse",
	"expandedTables":       "sync.Map memo: value is a deterministic function of the key",
	"compiledRegexps":      "sync.Map memo: value is a deterministic function of the key",
	"regexpNames":          "sync.Map memo: value is a deterministic function of the key",
	"charClassGens":        "sync.Map memo: value is a deterministic function of the key",
	"anyRuneGen":           "initialised once at package init, immutable generator",
	"anyRuneGenNoNL":       "initialised once at package init, immutable generator",
	"defaultRunes":         "init-only table",
	"defaultTables":        "init-only table",
	"integerKindToInfo":    "init-only table",
	"tracebackBlacklist":   "init-only table, read by traceback capture only",
	"windowsReservedNames": "init-only table",
}

type censusException struct{ fn, what, reason string }

// time-dependent constructs that are part of the documented behaviour (only accepted when allowTime is set)
var timeExceptions = []censusException{
	{"findBug", "time.Now", "per-test timing for the early-exit heuristic and verbose log"},
	{"findBug", "time.Since", "per-test timing for the early-exit heuristic and verbose log"},
	{"findBug", "time.Until", "early exit near the test deadline (explicitly time-dependent, reported as earlyExit)"},
	{"(*shrinker).shrink", "time.Now", "shrink deadline check (C05-R5)"},
	{"(*shrinker).removeGroups", "time.Now", "shrink deadline check (C05-R5)"},
	{"(*shrinker).minimizeBlocks", "time.Now", "shrink deadline check (C05-R5)"},
	{"(*shrinker).lowerFloatHack", "time.Now", "shrink deadline check (C05-R5)"},
	{"(*shrinker).removeGroupsAndLower", "time.Now", "shrink deadline check (C05-R5)"},
	{"(*shrinker).sortGroups", "time.Now", "shrink deadline check (C05-R5)"},
	{"(*shrinker).removeGroupSpans", "time.Now", "shrink deadline check (C05-R5)"},
	{"shrinkDeadline", "time.Now", "computes the shrink deadline"},
}

// map iterations whose order is erased before use
var mapRangeExceptions = []censusException{
	{"(*T).Repeat", "range-map", "collects keys; sort.Strings dominates their only use (checked by C08-R2)"},
	{"(*shrinker).shrink", "range-map", "sums s.tries for a debug message only (checked: flows into debugf only)"},
	{"StateMachineActions", "range-map", "n/a"},
}

func (p *Program) pkgOf(fn *ssa.Function) string {
	if fn == nil {
		return ""
	}
	if o := fn.Origin(); o != nil {
		fn = o
	}
	if fn.Pkg != nil {
		return fn.Pkg.Pkg.Path()
	}
	if fn.Object() != nil && fn.Object().Pkg() != nil {
		return fn.Object().Pkg().Path()
	}
	return ""
}

// nondetCensus checks that the closure of roots contains no nondeterminism source.
// functions that are not descended into by the run-determinism census, with reasons
var runCensusSinks = map[string]string{
	"visWriteHTML": "debug visualisation output (-rapid.debugvis); its result flows only into a log line",
	"loadFailFile": "fail-file input: part of the run's input, judged by C06/C17",
	"saveFailFile": "fail-file output, judged by C06/C16",
}

func nondetCensus(r *Run, label string, rootNames []string, allowTime bool) {
	p := r.P
	var roots []*ssa.Function
	for _, n := range rootNames {
		if n == "<generation>" {
			roots = append(roots, generationRoots(r)...)
			continue
		}
		if f := r.MustFn(n); f != nil {
			roots = append(roots, f)
		}
	}
	var skip map[string]string
	if allowTime {
		skip = runCensusSinks
	}
	cl := p.closureSkip(roots, skip)
	fns := sortedFuncs(p, cl)
	r.Floor("functions in the "+label+" closure", len(fns), 20)
	excepted := func(list []censusException, fn, what string) (string, bool) {
		for _, e := range list {
			if e.fn == fn && e.what == what {
				return e.reason, true
			}
		}
		return "", false
	}
	for _, fn := range fns {
		name := p.hostName(fn)
		for _, b := range fn.Blocks {
			for _, in := range b.Instrs {
				switch x := in.(type) {
				case *ssa.Go:
					r.Fail(label+"#"+name+".go", x.Pos(), "go statement inside the "+label+" closure: scheduling can influence the run")
				case *ssa.Select:
					r.Fail(label+"#"+name+".select", x.Pos(), "select statement inside the "+label+" closure")
				case *ssa.Range:
					if _, isMap := x.X.Type().Underlying().(*types.Map); isMap {
						if reason, ok := excepted(mapRangeExceptions, name, "range-map"); ok {
							if name == "(*T).Repeat" {
								// the exception rests on the total order of sort.Strings erasing the iteration order
								host := fn
								if h := p.Fn(name); h != nil {
									host = h
								}
								if pos, sorted := repeatKeysSorted(p, host); !sorted {
									r.Fail(label+"#"+name+".range-map", pos, "the action keys collected by iterating over the map are sampled without a dominating sort.Strings (a total order): which action a drawn index selects depends on map iteration order, not only on the bits")
									continue
								}
							}
							r.OK(label+"#"+name+".range-map", x.Pos(), "map iteration, order erased before use: "+reason)
						} else {
							r.Fail(label+"#"+name+".range-map", x.Pos(), "iteration over a map inside the "+label+" closure: iteration order is random and can steer draws")
						}
					}
				case *ssa.Convert:
					if bt, ok := x.Type().Underlying().(*types.Basic); ok && bt.Kind() == types.Uintptr {
						if xb, ok := x.X.Type().Underlying().(*types.Basic); ok && xb.Kind() == types.UnsafePointer {
							r.Fail(label+"#"+name+".ptr2int", x.Pos(), "pointer to integer conversion: addresses differ from run to run")
						}
					}
				case *ssa.UnOp:
					if x.Op != token.MUL {
						continue
					}
					g := rootGlobal(x.X)
					if g == nil || g.Pkg != p.SPkg {
						continue
					}
					if _, ok := globalReadAllowed[g.Name()]; !ok && !p.constantTableGlobal(g) {
						r.Fail(label+"#"+name+".global:"+g.Name(), x.Pos(), "read of package-level variable "+g.Name()+" inside the "+label+" closure: draws may depend on shared mutable state (not in the reviewed allow-list)")
					}
				case ssa.CallInstruction:
					c := x.Common()
					sc := c.StaticCallee()
					if sc == nil {
						if c.IsInvoke() && c.Method.Pkg() != nil {
							mp := c.Method.Pkg().Path()
							if mp == "reflect" && (c.Method.Name() == "MapKeys" || c.Method.Name() == "MapRange") {
								r.Fail(label+"#"+name+".reflect-map-iter", x.Pos(), "reflect map iteration")
							}
						}
						continue
					}
					if p.inRapid(sc) {
						continue
					}
					key := p.fnName(sc)
					if key == "(reflect.Value).MapKeys" || key == "(reflect.Value).MapRange" {
						r.Fail(label+"#"+name+"."+key, x.Pos(), "reflect map iteration inside the "+label+" closure: order is random")
						continue
					}
					pk := p.pkgOf(sc)
					src := false
					for _, np := range nondetPkgs {
						if pk == np {
							src = true
						}
					}
					if !src {
						continue
					}
					if _, ok := nondetAllowedFuncs[key]; ok {
						continue
					}
					if allowTime {
						if reason, ok := excepted(timeExceptions, name, key); ok {
							r.OK(label+"#"+name+"."+key, x.Pos(), "listed time-dependent construct: "+reason)
							continue
						}
					}
					r.Fail(label+"#"+name+"."+key, x.Pos(), "call of nondeterminism source "+key+" inside the "+label+" closure: the run is no longer a function of the seed / bitstream")
				}
			}
		}
	}
	r.OK(label+"#census", token.NoPos, fmt.Sprintf("%d functions of the %s closure scanned for go/select, map iteration, pointer→integer conversion, global reads outside the allow-list and calls into %v", len(fns), label, nondetPkgs))
}

// rootGlobal returns the package-level variable an address expression is rooted in.
func rootGlobal(v ssa.Value) *ssa.Global {
	for i := 0; i < 8; i++ {
		switch x := v.(type) {
		case *ssa.Global:
			return x
		case *ssa.FieldAddr:
			v = x.X
		case *ssa.IndexAddr:
			v = x.X
		default:
			return nil
		}
	}
	return nil
}

// generationRoots: every value method of a generator implementation, Generator.value/Draw, T.Repeat,
// find, repeat methods and both drawBits.
func generationRoots(r *Run) []*ssa.Function {
	p := r.P
	var roots []*ssa.Function
	for _, fn := range p.FuncList {
		n := p.fnName(fn)
		if strings.HasSuffix(n, ").value") || strings.HasSuffix(n, ").drawBits") || strings.HasSuffix(n, ").beginGroup") || strings.HasSuffix(n, ").endGroup") {
			roots = append(roots, fn)
		}
	}
	for _, n := range []string{"(*Generator).Draw", "(*Generator).value", "(*T).Repeat", "find", "(*repeat).more", "(*repeat).reject", "(*repeat).avg", "newRepeat"} {
		if f := r.MustFn(n); f != nil {
			roots = append(roots, f)
		}
	}
	return roots
}

// debugClosure prints the closure of the named roots (debugging aid).
func debugClosure(p *Program, r *Run, names []string) {
	var roots []*ssa.Function
	for _, n := range names {
		if n == "<generation>" {
			roots = append(roots, generationRoots(r)...)
		} else if f := p.Fn(n); f != nil {
			roots = append(roots, f)
		}
	}
	for _, f := range sortedFuncs(p, p.closureOf(roots)) {
		fmt.Println("  ", p.fnName(f))
	}
}

// funcValuesOf returns the functions of the analysed package that may flow into the function-typed
// value v: closures, parameters (through every static caller), struct fields (through every store
// to that field), phis and closure bindings. go/callgraph's CHA/VTA do not resolve dynamic calls
// inside un-instantiated generic bodies, which is where most of them are here.
func (p *Program) funcValuesOf(v ssa.Value, depth int, seen map[ssa.Value]bool) []*ssa.Function {
	if v == nil || depth > 6 || seen[v] {
		return nil
	}
	seen[v] = true
	var out []*ssa.Function
	switch x := v.(type) {
	case *ssa.MakeClosure:
		f := x.Fn.(*ssa.Function)
		out = append(out, f)
	case *ssa.Function:
		out = append(out, x)
	case *ssa.Parameter:
		fn := x.Parent()
		idx := -1
		for i, q := range fn.Params {
			if q == x {
				idx = i
			}
		}
		// an inlined helper is not listed among its host's calls (its own calls are): take the argument at its one site
		if site := p.helperSite(fn); site != nil && idx >= 0 && idx < len(site.Common().Args) {
			out = append(out, p.funcValuesOf(site.Common().Args[idx], depth+1, seen)...)
			break
		}
		for _, g := range p.FuncList {
			for _, c := range p.calls(g) {
				sc := c.Common.StaticCallee()
				if sc == nil {
					continue
				}
				if o := sc.Origin(); o != nil {
					sc = o
				}
				if sc == fn && idx < len(c.Common.Args) {
					out = append(out, p.funcValuesOf(c.Common.Args[idx], depth+1, seen)...)
				}
			}
		}
	case *ssa.FreeVar:
		if b := p.bindOf(x); b != nil {
			out = append(out, p.funcValuesOf(b, depth+1, seen)...)
		}
	case *ssa.Phi:
		for _, e := range x.Edges {
			out = append(out, p.funcValuesOf(e, depth+1, seen)...)
		}
	case *ssa.ChangeType:
		out = append(out, p.funcValuesOf(x.X, depth+1, seen)...)
	case *ssa.UnOp:
		if x.Op != token.MUL {
			break
		}
		if r := p.resolve(x); r != ssa.Value(x) {
			out = append(out, p.funcValuesOf(r, depth+1, seen)...)
			break
		}
		if fa, ok := x.X.(*ssa.FieldAddr); ok {
			owner, field := p.fieldAddrOwner(fa), fieldAddrName(fa)
			if owner == "" {
				break
			}
			for _, acc := range p.fieldAccesses(owner) {
				if acc.Field == field && acc.Kind == "write" {
					out = append(out, p.funcValuesOf(acc.Instr.(*ssa.Store).Val, depth+1, seen)...)
				}
			}
		}
		if ci := p.cellOf(x.X); ci != nil {
			for _, st := range ci.stores {
				out = append(out, p.funcValuesOf(st.Val, depth+1, seen)...)
			}
		}
	}
	return out
}

// generatorConstructors: the package-level functions that build generators (result type *Generator[…]), by name.
func generatorConstructors(r *Run) []string {
	p := r.P
	var out []string
	for _, fn := range p.FuncList {
		if fn.Signature.Recv() != nil || fn.Parent() != nil || fn.Signature.Results().Len() != 1 {
			continue
		}
		pt, ok := fn.Signature.Results().At(0).Type().(*types.Pointer)
		if !ok {
			continue
		}
		if nt, ok := pt.Elem().(*types.Named); ok && nt.Obj().Name() == "Generator" {
			out = append(out, p.fnName(fn))
		}
	}
	sortStrings(out)
	return out
}

// constantTableGlobal: a package-level variable that is a constant table — assigned only during package
// initialisation, from literals, function literals and fresh composites (no call whose result could differ from run
// to run), and afterwards only read: loaded and looked up / indexed / ranged over / measured, never stored through and
// never handed to a callee. Reading such a variable is as deterministic as reading a constant.
func (p *Program) constantTableGlobal(g *ssa.Global) bool {
	isInit := func(fn *ssa.Function) bool {
		for fn.Parent() != nil {
			fn = fn.Parent()
		}
		return isPackageInit(fn)
	}
	readOnlyUse := func(v ssa.Value) bool {
		if v.Referrers() == nil {
			return true
		}
		for _, ref := range *v.Referrers() {
			switch x := ref.(type) {
			case *ssa.Lookup, *ssa.Index, *ssa.Range, *ssa.DebugRef:
			case *ssa.IndexAddr:
				if x.Referrers() != nil {
					for _, r2 := range *x.Referrers() {
						if u, ok := r2.(*ssa.UnOp); !ok || u.Op != token.MUL {
							return false
						}
					}
				}
			case *ssa.Call:
				if k := p.calleeKey(x.Common()); k != "builtin:len" && k != "builtin:cap" {
					return false
				}
			default:
				return false
			}
		}
		return true
	}
	okInit := false
	for _, fn := range p.allFuncs() {
		inInit := isInit(fn)
		for _, b := range fn.Blocks {
			for _, in := range b.Instrs {
				uses := false
				for _, op := range in.Operands(nil) {
					if *op == ssa.Value(g) {
						uses = true
					}
				}
				if !uses {
					continue
				}
				switch x := in.(type) {
				case *ssa.UnOp:
					if x.Op != token.MUL || (!inInit && !readOnlyUse(x)) {
						return false
					}
				case *ssa.Store:
					if x.Addr != ssa.Value(g) || !inInit {
						return false
					}
					// the initial value: built without calls
					seen := map[ssa.Value]bool{}
					var pure func(v ssa.Value, d int) bool
					pure = func(v ssa.Value, d int) bool {
						if v == nil || seen[v] {
							return true
						}
						seen[v] = true
						if d > 12 {
							return false
						}
						switch y := v.(type) {
						case *ssa.Const, *ssa.Function, *ssa.Global:
							return true
						case *ssa.MakeClosure:
							for _, b := range y.Bindings {
								if !pure(b, d+1) {
									return false
								}
							}
							return true
						case *ssa.Parameter:
							return true // of an adapter whose call is judged below: the arguments are checked there
						case *ssa.Call:
							// an adapter of the package that only wraps its arguments (func literal around a constructor, a
							// conversion): no call in its body, arguments built without calls
							sc := y.Common().StaticCallee()
							if sc != nil && sc.Origin() != nil {
								sc = sc.Origin() // the generic body behind an instantiation wrapper
							}
							if sc == nil || !p.inRapid(sc) || sc.Blocks == nil || len(sc.Blocks) != 1 {
								return false
							}
							for _, in3 := range sc.Blocks[0].Instrs {
								switch z := in3.(type) {
								case *ssa.MakeClosure, *ssa.Convert, *ssa.ChangeType, *ssa.MakeInterface, *ssa.DebugRef, *ssa.Alloc:
								case *ssa.Store: // a captured parameter is spilled into its cell
									if _, isCell := z.Addr.(*ssa.Alloc); !isCell || !pure(z.Val, d+1) {
										return false
									}
								case *ssa.Call: // an instantiation wrapper calls the generic body
									if !pure(z, d+1) {
										return false
									}
								case *ssa.Return:
									for _, rv := range z.Results {
										if !pure(rv, d+1) {
											return false
										}
									}
								default:
									return false
								}
							}
							for _, a := range y.Common().Args {
								if !pure(a, d+1) {
									return false
								}
							}
							return true
						case *ssa.MakeMap, *ssa.MakeSlice, *ssa.Alloc, *ssa.Slice, *ssa.Convert, *ssa.ChangeType, *ssa.MakeInterface, *ssa.IndexAddr, *ssa.FieldAddr, *ssa.UnOp, *ssa.BinOp:
							in2 := v.(ssa.Instruction)
							for _, op := range in2.Operands(nil) {
								if *op != nil && !pure(*op, d+1) {
									return false
								}
							}
							// what is put into a container built here
							if v.Referrers() != nil {
								for _, ref := range *v.Referrers() {
									switch z := ref.(type) {
									case *ssa.MapUpdate:
										if !pure(z.Key, d+1) || !pure(z.Value, d+1) {
											return false
										}
									case *ssa.Store:
										if z.Addr == v && !pure(z.Val, d+1) {
											return false
										}
									case *ssa.IndexAddr, *ssa.FieldAddr:
										if !pure(ref.(ssa.Value), d+1) {
											return false
										}
									}
								}
							}
							return true
						}
						return false
					}
					if !pure(x.Val, 0) {
						return false
					}
					okInit = true
				case *ssa.IndexAddr, *ssa.FieldAddr:
					// an array / struct variable is initialised and read element by element through derived addresses
					var addrOK func(a ssa.Value, d int) bool
					addrOK = func(a ssa.Value, d int) bool {
						if d > 6 || a.Referrers() == nil {
							return d <= 6
						}
						for _, ref := range *a.Referrers() {
							switch y := ref.(type) {
							case *ssa.IndexAddr, *ssa.FieldAddr:
								if !addrOK(y.(ssa.Value), d+1) {
									return false
								}
							case *ssa.UnOp:
								if y.Op != token.MUL || (!inInit && !plainData(y.Type()) && !readOnlyUse(y)) {
									return false
								}
							case *ssa.Store:
								if !inInit || y.Addr != a {
									return false
								}
								switch y.Val.(type) {
								case *ssa.Const, *ssa.Function:
									okInit = true
								default:
									return false
								}
							case *ssa.DebugRef:
							default:
								return false
							}
						}
						return true
					}
					if !addrOK(x.(ssa.Value), 0) {
						return false
					}
				case *ssa.DebugRef:
				default:
					return false
				}
			}
		}
	}
	return okInit
}

// plainData: values of the type hold no reference to storage shared with other holders (no pointer, slice, map,
// channel, function or interface inside): a loaded copy cannot be used to change the original.
func plainData(t types.Type) bool {
	switch u := t.Underlying().(type) {
	case *types.Basic:
		return u.Kind() != types.UnsafePointer
	case *types.Array:
		return plainData(u.Elem())
	case *types.Struct:
		for i := 0; i < u.NumFields(); i++ {
			if !plainData(u.Field(i).Type()) {
				return false
			}
		}
		return true
	}
	return false
}

// localCallees: the functions a dynamic call can reach when its function value is built locally from functions of the
// analysed package only — a function, a literal, a method value, or a phi of such (a method value selected before a
// loop). nil if any source is not of that kind (a parameter, a field, a foreign function): the call then stays opaque.
func (p *Program) localCallees(c *ssa.CallCommon) []*ssa.Function {
	if c.IsInvoke() || c.StaticCallee() != nil {
		return nil
	}
	var out []*ssa.Function
	seen := map[ssa.Value]bool{}
	var walk func(v ssa.Value, d int) bool
	walk = func(v ssa.Value, d int) bool {
		if v == nil || d > 6 {
			return false
		}
		if seen[v] {
			return true
		}
		seen[v] = true
		switch x := v.(type) {
		case *ssa.Function:
			if !p.inRapid(x) {
				return false
			}
			out = append(out, x)
			return true
		case *ssa.MakeClosure:
			f, _ := x.Fn.(*ssa.Function)
			if f == nil || !p.inRapid(f) {
				return false
			}
			if strings.HasSuffix(f.Name(), "$bound") {
				// the method behind a bound-method wrapper
				for _, b := range f.Blocks {
					for _, in := range b.Instrs {
						if ci, ok := in.(ssa.CallInstruction); ok {
							if sc := ci.Common().StaticCallee(); sc != nil && p.inRapid(sc) {
								if o := sc.Origin(); o != nil {
									sc = o
								}
								out = append(out, sc)
								return true
							}
						}
					}
				}
				return false
			}
			out = append(out, f)
			return true
		case *ssa.Phi:
			for _, e := range x.Edges {
				if !walk(e, d+1) {
					return false
				}
			}
			return true
		case *ssa.ChangeType:
			return walk(x.X, d+1)
		}
		if rv := p.resolve(v); rv != v {
			return walk(rv, d+1)
		}
		return false
	}
	if !walk(c.Value, 0) || len(out) == 0 {
		return nil
	}
	return out
}
