package main

import (
	"fmt"
	"go/ast"
	"go/token"
	"go/types"
	"os"
	"sort"
	"strings"

	"golang.org/x/tools/go/packages"
	"golang.org/x/tools/go/types/typeutil"
)

// Procedure cloning.
//
// Transparent helpers (transparent.go) give the rules an inlined view of an extracted function — but only
// if it has a single call site, because its parameters then resolve to one argument list and its returns
// continue at one place. A helper that a refactoring shares between SEVERAL call sites is brought back to
// that case by cloning: before the analysis proper, every new (not in known_funcs.txt), unexported,
// non-recursive function or method that is only ever called (never used as a value) and has 2..8 call
// sites is duplicated once per call site (h, h__2, h__3, …) and every call site is pointed at its own
// copy. The clones are added through a go/packages overlay — nothing is written to the repository — and
// the transformation is plainly semantics-preserving: a copy of a function under another name, called
// instead of it. On a tree without such helpers (the pinned tree) nothing is cloned and the load is
// the ordinary one.

type cloneEdit struct {
	off, n int
	text   string
}

const maxCloneSites = 8
const maxCloneLines = 120

func methodKey(f *types.Func) string {
	sig, _ := f.Type().(*types.Signature)
	if sig == nil || sig.Recv() == nil {
		return f.Name()
	}
	t := sig.Recv().Type()
	ptr := false
	if pt, ok := t.(*types.Pointer); ok {
		ptr = true
		t = pt.Elem()
	}
	name := "?"
	if nt, ok := t.(*types.Named); ok {
		name = nt.Obj().Name()
	}
	if ptr {
		return "(*" + name + ")." + f.Name()
	}
	return "(" + name + ")." + f.Name()
}

// cloneOverlay computes the overlay that gives every multi-site helper of the root package one copy per call site.
// It returns nil if there is nothing to clone.
func cloneOverlay(root *packages.Package, prev map[string][]byte) (map[string][]byte, []string) {
	info := root.TypesInfo
	fset := root.Fset
	type site struct {
		id *ast.Ident
	}
	decls := map[*types.Func]*ast.FuncDecl{}
	declFile := map[*types.Func]*ast.File{}
	for _, f := range root.Syntax {
		for _, d := range f.Decls {
			if fd, ok := d.(*ast.FuncDecl); ok && fd.Body != nil {
				if obj, ok := info.Defs[fd.Name].(*types.Func); ok {
					decls[obj] = fd
					declFile[obj] = f
				}
			}
		}
	}
	origin := func(f *types.Func) *types.Func {
		if f == nil {
			return nil
		}
		return f.Origin()
	}
	sites := map[*types.Func][]*ast.Ident{}
	callIdents := map[*ast.Ident]bool{}
	recursive := map[*types.Func]bool{}
	for _, f := range root.Syntax {
		var cur *types.Func
		ast.Inspect(f, func(n ast.Node) bool {
			switch x := n.(type) {
			case *ast.FuncDecl:
				cur, _ = info.Defs[x.Name].(*types.Func)
			case *ast.CallExpr:
				callee, _ := typeutil.Callee(info, x).(*types.Func)
				callee = origin(callee)
				if callee == nil || callee.Pkg() != root.Types {
					return true
				}
				// the identifier naming the callee inside x.Fun
				var id *ast.Ident
				ast.Inspect(x.Fun, func(m ast.Node) bool {
					if i, ok := m.(*ast.Ident); ok && id == nil {
						if u, ok := info.Uses[i].(*types.Func); ok && origin(u) == callee {
							id = i
						}
					}
					return true
				})
				if id == nil {
					return true
				}
				callIdents[id] = true
				sites[callee] = append(sites[callee], id)
				if cur != nil && origin(cur) == callee {
					recursive[callee] = true
				}
			}
			return true
		})
	}
	valueUse := map[*types.Func]bool{}
	for id, obj := range info.Uses {
		if f, ok := obj.(*types.Func); ok && f.Pkg() == root.Types && !callIdents[id] {
			valueUse[origin(f)] = true
		}
	}
	// interface method sets: a method that implements an interface method may be called dynamically
	ifaceNames := map[string]bool{}
	for _, name := range root.Types.Scope().Names() {
		if tn, ok := root.Types.Scope().Lookup(name).(*types.TypeName); ok {
			if it, ok := tn.Type().Underlying().(*types.Interface); ok {
				for i := 0; i < it.NumMethods(); i++ {
					ifaceNames[it.Method(i).Name()] = true
				}
			}
		}
	}
	var cands []*types.Func
	for f, ss := range sites {
		fd := decls[f]
		if fd == nil || len(ss) < 2 || len(ss) > maxCloneSites || valueUse[f] || recursive[f] || ast.IsExported(f.Name()) || (f.Name() == "init" && f.Type().(*types.Signature).Recv() == nil) {
			continue
		}
		if knownFuncs[methodKey(f)] || strings.Contains(f.Name(), "__") {
			continue
		}
		if fd.Recv != nil && (ifaceNames[f.Name()] || f.Name() == "String" || f.Name() == "Error") {
			continue
		}
		if fset.Position(fd.End()).Line-fset.Position(fd.Pos()).Line > maxCloneLines {
			continue
		}
		cands = append(cands, f)
	}
	if len(cands) == 0 {
		return nil, nil
	}
	sort.Slice(cands, func(i, j int) bool { return cands[i].Pos() < cands[j].Pos() })
	src := map[string][]byte{}
	read := func(name string) []byte {
		if b, ok := src[name]; ok {
			return b
		}
		if b, ok := prev[name]; ok {
			src[name] = b
			return b
		}
		b, err := os.ReadFile(name)
		if err != nil {
			return nil
		}
		src[name] = b
		return b
	}
	edits := map[string][]cloneEdit{}
	appends := map[string][]string{}
	declared := map[string]bool{}
	for _, fd := range decls {
		declared[fd.Name.Name] = true
	}
	var names []string
	for _, f := range cands {
		fd := decls[f]
		file := fset.Position(fd.Pos()).Filename
		b := read(file)
		if b == nil {
			continue
		}
		start, end := fset.Position(fd.Pos()).Offset, fset.Position(fd.End()).Offset
		nameOff := fset.Position(fd.Name.Pos()).Offset - start
		body := string(b[start:end])
		ss := sites[f]
		sort.Slice(ss, func(i, j int) bool { return ss[i].Pos() < ss[j].Pos() })
		next := 2
		for k, id := range ss {
			if k == 0 {
				continue // the first call site keeps the original
			}
			// clones of an earlier round (made for a caller that has been cloned since) keep their names
			for declared[fd.Name.Name+fmt.Sprintf("__%d", next)] {
				next++
			}
			suffix := fmt.Sprintf("__%d", next)
			next++
			ps := fset.Position(id.Pos())
			if read(ps.Filename) == nil {
				continue
			}
			edits[ps.Filename] = append(edits[ps.Filename], cloneEdit{off: ps.Offset + len(id.Name), n: 0, text: suffix})
			clone := body[:nameOff+len(fd.Name.Name)] + suffix + body[nameOff+len(fd.Name.Name):]
			appends[file] = append(appends[file], clone)
		}
		names = append(names, fmt.Sprintf("%s×%d", methodKey(f), len(ss)))
	}
	out := map[string][]byte{}
	for k, v := range prev {
		out[k] = v
	}
	touched := map[string]bool{}
	for n := range edits {
		touched[n] = true
	}
	for n := range appends {
		touched[n] = true
	}
	for name := range touched {
		b := append([]byte(nil), read(name)...)
		es := edits[name]
		sort.Slice(es, func(i, j int) bool { return es[i].off > es[j].off })
		for _, e := range es {
			b = append(b[:e.off], append([]byte(e.text), b[e.off+e.n:]...)...)
		}
		for _, c := range appends[name] {
			b = append(b, []byte("\n\n"+c+"\n")...)
		}
		out[name] = b
	}
	return out, names
}

var _ = token.NoPos
