package main

import (
	"go/types"
	"strings"

	"golang.org/x/tools/go/ssa"
)

// must-hold lock-set analysis: for every instruction, the set of mutex access paths that are
// held on every path reaching it. 'W' = write/exclusive lock, 'R' = read lock.

type lockState map[string]byte

func (s lockState) clone() lockState {
	n := lockState{}
	for k, v := range s {
		n[k] = v
	}
	return n
}

func meet(a, b lockState) lockState {
	n := lockState{}
	for k, va := range a {
		if vb, ok := b[k]; ok {
			if va == vb {
				n[k] = va
			} else {
				n[k] = 'R' // held in both, weaker mode
			}
		}
	}
	return n
}

func equalLS(a, b lockState) bool {
	if len(a) != len(b) {
		return false
	}
	for k, v := range a {
		if b[k] != v {
			return false
		}
	}
	return true
}

type lockOp struct {
	path string
	kind string // Lock, RLock, Unlock, RUnlock
}

func (p *Program) lockOpOf(in ssa.Instruction) *lockOp {
	c, ok := in.(*ssa.Call) // deferred unlocks keep the lock until the function returns
	if !ok {
		return nil
	}
	key := p.calleeKey(c.Common())
	for _, pre := range []string{"(*sync.RWMutex).", "(*sync.Mutex)."} {
		if strings.HasPrefix(key, pre) {
			kind := strings.TrimPrefix(key, pre)
			switch kind {
			case "Lock", "RLock", "Unlock", "RUnlock":
				if len(c.Common().Args) == 0 {
					return nil
				}
				return &lockOp{path: p.expr(c.Common().Args[0]), kind: kind}
			}
		}
	}
	return nil
}

func (p *Program) applyLock(s lockState, in ssa.Instruction) {
	op := p.lockOpOf(in)
	if op == nil {
		return
	}
	switch op.kind {
	case "Lock":
		s[op.path] = 'W'
	case "RLock":
		s[op.path] = 'R'
	case "Unlock", "RUnlock":
		delete(s, op.path)
	}
}

// lockSets returns the lock state before every instruction of fn and of the transparent helpers it calls.
func (p *Program) lockSets(fn *ssa.Function) map[ssa.Instruction]lockState {
	res := map[ssa.Instruction]lockState{}
	entry := lockState{}
	if site := p.helperSite(fn); site != nil {
		// a helper analysed on its own starts with the state at its call site
		if _, isCall := site.(*ssa.Call); isCall {
			if st, ok := p.lockSets(site.Parent())[site]; ok {
				entry = st
			}
		}
	}
	p.lockSetsInto(fn, entry, res, 0)
	return res
}

// lockSetsInto analyses fn starting from entry, records per-instruction states into res and returns the
// state on exit (meet over the returns).
func (p *Program) lockSetsInto(fn *ssa.Function, entry lockState, res map[ssa.Instruction]lockState, depth int) lockState {
	apply := func(cur lockState, i ssa.Instruction, record bool) {
		if h := transparentCallee(i); h != nil && depth < 5 {
			var sink map[ssa.Instruction]lockState
			if record {
				sink = res
			} else {
				sink = map[ssa.Instruction]lockState{}
			}
			out := p.lockSetsInto(h, cur, sink, depth+1)
			for k := range cur {
				delete(cur, k)
			}
			for k, v := range out {
				cur[k] = v
			}
			return
		}
		p.applyLock(cur, i)
	}
	in := map[*ssa.BasicBlock]lockState{}
	out := map[*ssa.BasicBlock]lockState{}
	if len(fn.Blocks) == 0 {
		return entry
	}
	in[fn.Blocks[0]] = entry.clone()
	changed := true
	for iter := 0; changed && iter < 50; iter++ {
		changed = false
		for _, b := range fn.Blocks {
			var st lockState
			if b == fn.Blocks[0] {
				st = entry.clone()
			} else {
				first := true
				for _, pr := range b.Preds {
					o, ok := out[pr]
					if !ok {
						continue // not yet computed: ⊤
					}
					if first {
						st = o.clone()
						first = false
					} else {
						st = meet(st, o)
					}
				}
				if first {
					continue
				}
			}
			if old, ok := in[b]; !ok || !equalLS(old, st) {
				in[b] = st.clone()
				changed = true
			}
			cur := st.clone()
			for _, i := range b.Instrs {
				apply(cur, i, false)
			}
			if old, ok := out[b]; !ok || !equalLS(old, cur) {
				out[b] = cur
				changed = true
			}
		}
	}
	var exit lockState
	first := true
	for _, b := range fn.Blocks {
		st, ok := in[b]
		if !ok {
			st = lockState{}
		}
		cur := st.clone()
		for _, i := range b.Instrs {
			res[i] = cur.clone()
			apply(cur, i, true)
		}
		if len(b.Instrs) > 0 {
			if _, isRet := b.Instrs[len(b.Instrs)-1].(*ssa.Return); isRet && b != fn.Recover {
				if first {
					exit, first = cur.clone(), false
				} else {
					exit = meet(exit, cur)
				}
			}
		}
	}
	if first {
		exit = lockState{}
	}
	// deferred unlocks run when the function returns: the caller continues without those locks
	for _, b := range fn.Blocks {
		for _, i := range b.Instrs {
			d, ok := i.(*ssa.Defer)
			if !ok {
				continue
			}
			for _, op := range p.deferredUnlocks(d) {
				delete(exit, op)
			}
		}
	}
	return exit
}

// deferredUnlocks lists the mutex paths released by a defer statement: `defer mu.Unlock()` or a deferred function
// literal whose body unlocks.
func (p *Program) deferredUnlocks(d *ssa.Defer) []string {
	var out []string
	key := p.calleeKey(d.Common())
	for _, pre := range []string{"(*sync.RWMutex).", "(*sync.Mutex)."} {
		if strings.HasPrefix(key, pre) {
			k := strings.TrimPrefix(key, pre)
			if (k == "Unlock" || k == "RUnlock") && len(d.Common().Args) > 0 {
				out = append(out, p.expr(d.Common().Args[0]))
			}
		}
	}
	if mc, ok := d.Common().Value.(*ssa.MakeClosure); ok {
		if lit, ok := mc.Fn.(*ssa.Function); ok {
			for _, b := range lit.Blocks {
				for _, i := range b.Instrs {
					if op := p.lockOpOf(i); op != nil && (op.kind == "Unlock" || op.kind == "RUnlock") {
						out = append(out, op.path)
					}
				}
			}
		}
	}
	return out
}

// ---------------------------------------------------------------------------
// field access index

type fieldAccess struct {
	Fn    *ssa.Function
	Instr ssa.Instruction
	FA    *ssa.FieldAddr // nil for value-field reads (ssa.Field)
	Owner string         // struct type name
	Field string
	Kind  string // "read", "write", "addr" (address used otherwise), "call:<callee>" (address passed as receiver/arg)
	Base  ssa.Value
}

// fieldAccesses lists every access to a field of the named struct types in the analysed package.
func (p *Program) fieldAccesses(owners ...string) []fieldAccess {
	want := map[string]bool{}
	for _, o := range owners {
		want[o] = true
	}
	var out []fieldAccess
	for _, fn := range p.allFuncs() {
		for _, b := range fn.Blocks {
			for _, in := range b.Instrs {
				switch x := in.(type) {
				case *ssa.FieldAddr:
					owner := p.fieldAddrOwner(x)
					if !want[owner] {
						continue
					}
					name := fieldAddrName(x)
					refs := x.Referrers()
					if refs == nil || len(*refs) == 0 {
						continue
					}
					for _, r := range *refs {
						fa := fieldAccess{Fn: fn, Instr: r, FA: x, Owner: owner, Field: name, Base: x.X}
						switch rr := r.(type) {
						case *ssa.Store:
							if rr.Addr == ssa.Value(x) {
								fa.Kind = "write"
							} else {
								fa.Kind = "addr"
							}
						case *ssa.UnOp:
							fa.Kind = "read"
						case *ssa.DebugRef:
							continue
						case ssa.CallInstruction:
							fa.Kind = "call:" + p.calleeKey(rr.Common())
						case *ssa.FieldAddr:
							// nested struct field: treat as access to the outer field through the inner one
							fa.Kind = "nested"
						case *ssa.IndexAddr:
							fa.Kind = "nested"
						default:
							fa.Kind = "addr"
						}
						out = append(out, fa)
					}
				case *ssa.Field:
					t := x.X.Type()
					if n, ok := t.(*types.Named); ok && want[n.Obj().Name()] {
						st := t.Underlying().(*types.Struct)
						out = append(out, fieldAccess{Fn: fn, Instr: x, Owner: n.Obj().Name(), Field: st.Field(x.Field).Name(), Kind: "read", Base: x.X})
					}
				}
			}
		}
	}
	return out
}
