package main

import (
	"fmt"
	"go/token"
	"go/types"
	"strings"

	"golang.org/x/tools/go/ssa"
)

func init() { register("C12", specC12) }

func specC12() *propertySpec {
	return &propertySpec{
		ID: "C12",
		Explanation: "Taken whole, C12 is a statement about the outcome of a heuristic search over runtime values and is NOT decided. This check decides only three structural necessary " +
			"conditions, each of which, when broken, makes exact boundaries unreachable for some threshold: (R1) the boundary's magnitude band is generable at all — for every bit length the " +
			"biased integer core can draw the full width (a boundary in a band that cannot be generated cannot be reported); (R2) the search is complete in shape — minimizeBlocks offers every " +
			"word of the current best to minimize; minimize, for words above the small-value cutoff, always reaches the binary search and returns the minimiser's best; the binary search moves " +
			"its upper end only to accepted values and its lower end only past rejected ones; minimizer.accept lowers best only to smaller values for which the condition held; removeGroups " +
			"offers every completed standalone group for removal; (R3) accepted candidates keep the failure (C05-R1). Not decided: correctness of the bit heuristics and of the interval arithmetic, " +
			"interaction of passes, 'given enough time', the collection clauses (exactly k elements, all zero).",
		Rules: []ruleSpec{
			{"C12-R1", "boundary-is-generable: for every bit length the full-width draw of the biased integer core is satisfiable (shared with C18-R3)", ruleC18R3},
			{"C12-R2", "search-is-complete-in-shape: every word is offered to minimize; minimize reaches binSearch and returns best; binSearch narrows only on evidence; accept lowers best only under u < best and cond(u); every standalone group is offered for removal", ruleC12R2},
			{"C12-R3", "accepted candidates keep the failure and are strictly smaller (shared with C05-R1)", ruleC05R1},
			{"C12-R4", "saturated-draw-replays-as-maximum: the word recorded for a saturating draw (n > 64) has all 64 bits set, so that the shrinker's replay under the mask of any full-width draw reads the range maximum; drawn = recorded = returned (shared with C04-R3)", ruleC04R3},
			{"C12-R5", "minimisation-has-its-own-budget: the deadline handed to shrink is shrinkDeadline(deadline) evaluated after the failure was found, so that the time the search took is not deducted from -rapid.shrinktime", ruleShrinkBudget},
		},
	}
}

func ruleC12R2(r *Run) {
	p := r.P
	// (a) minimizeBlocks
	if fn := r.MustFn("(*shrinker).minimizeBlocks"); fn != nil {
		ms := p.callsTo(fn, "minimize")
		if len(ms) != 1 {
			r.Fail("(*shrinker).minimizeBlocks#minimize", fn.Pos(), fmt.Sprintf("minimizeBlocks calls minimize %d times per step (expected once)", len(ms)))
		} else {
			word := p.expr(ms[0].Arg(0))
			l := innermostLoop(ms[0].Instr)
			okWord := strings.HasPrefix(word, "$s.rec.data[") && l != nil
			idx := strings.TrimSuffix(strings.TrimPrefix(word, "$s.rec.data["), "]")
			r.Check("(*shrinker).minimizeBlocks#word", ms[0].Instr.Pos(), okWord, "each step minimises word "+idx+" of the current best", "minimizeBlocks does not hand s.rec.data[i] to minimize: "+word)
			// the index starts at 0, advances by one, bounded by len(s.rec.data)
			if l != nil {
				start, step, bound := false, false, false
				for _, b := range p.body(fn) {
					for _, in := range b.Instrs {
						if st, ok := in.(*ssa.Store); ok && "&"+idx == p.expr(st.Addr) || ok && p.expr(st.Addr) == "&"+idx {
							if c, isC := constInt(p.resolve(st.Val)); isC && c == 0 && !l.Body[b] {
								start = true
							}
							if p.expr(st.Val) == "("+idx+" + 1)" && l.Body[b] {
								step = true
							}
						}
					}
				}
				// phi form
				if ph, ok := p.resolve(idxValue(p, ms[0].Arg(0))).(*ssa.Phi); ok {
					c, okc := p.evalAtEntry(ph, 0)
					start = okc && c == 0
					step = true
					for i, e := range ph.Edges {
						if l.Header.Dominates(ph.Block().Preds[i]) && p.expr(e) != "("+p.expr(ph)+" + 1)" && p.resolve(e) != ssa.Value(ph) {
							step = false
						}
					}
				}
				for _, f := range p.facts(ms[0].Instr) {
					if f.is(idx, "<", "builtin:len($s.rec.data)") {
						bound = true
					}
				}
				r.Check("(*shrinker).minimizeBlocks#all-words", l.Header.Instrs[0].Pos(), start && step && bound, "the pass walks i = 0, 1, … < len(s.rec.data): every word is offered", fmt.Sprintf("minimizeBlocks does not visit every word (starts at 0: %v, step +1: %v, bounded by len(data): %v)", start, step, bound))
				extra := 0
				for _, f := range p.facts(ms[0].Instr) {
					if !(f.is(idx, f.Op, "builtin:len($s.rec.data)") || f.is("builtin:len($s.rec.data)", f.Op, idx)) && !strings.Contains(f.X, "time.") {
						extra++
					}
				}
				r.Check("(*shrinker).minimizeBlocks#no-skip", ms[0].Instr.Pos(), extra == 0, "no word is skipped", "minimizeBlocks skips words under an extra condition: "+factsStr(p.facts(ms[0].Instr)))
			}
			// the closure writes the candidate value into that same word of a copy
			if cl := p.Fn("(*shrinker).minimizeBlocks$1"); cl != nil {
				ok := false
				for _, b := range p.body(cl) {
					for _, in := range b.Instrs {
						if st, isSt := in.(*ssa.Store); isSt {
							if ia, isIA := st.Addr.(*ssa.IndexAddr); isIA && p.expr(st.Val) == "$u" {
								ex := p.expr(ia.X)
								if strings.HasPrefix(ex, "builtin:append(nil, $s.rec.data") || ex == "slices.Clone($s.rec.data)" || ex == "bytes.Clone($s.rec.data)" {
									ok = true
								}
							}
						}
					}
				}
				r.Check("(*shrinker).minimizeBlocks$1#candidate", cl.Pos(), ok, "the candidate is a copy of the current best with that word replaced by the proposed value", "the minimise callback does not build copy-with-word-replaced candidates")
			}
		}
	}
	// (b) minimize
	if fn := r.MustFn("minimize"); fn != nil {
		bs := p.callsTo(fn, "(*minimizer).binSearch")
		if len(bs) != 1 {
			r.Fail("minimize#binSearch", fn.Pos(), "minimize does not call the binary search exactly once: thresholds that the bit heuristics cannot hit exactly are never reached")
		} else {
			// on u > small: binSearch on every returning path
			var bigEntry *ssa.BasicBlock
			smallStr := "5"
			if c, ok := p.Types.Scope().Lookup("small").(*types.Const); ok {
				smallStr = c.Val().ExactString()
			}
			for _, b := range p.body(fn) {
				if iff, ok := b.Instrs[len(b.Instrs)-1].(*ssa.If); ok {
					rl := p.relOf(guard{Cond: iff.Cond, Pol: true})
					if bigEntry != nil {
						continue
					}
					// the cutoff is the test whose small side returns u itself (not, say, a clamp of the small-value
					// loop's bound, which compares the same two things)
					returnsU := func(sb *ssa.BasicBlock) bool {
						ret, ok := sb.Instrs[len(sb.Instrs)-1].(*ssa.Return)
						return ok && len(ret.Results) == 1 && p.expr(p.res(ret, 0)) == "$u"
					}
					if rl.X == "$u" && rl.Op == "<=" && rl.Y == smallStr && returnsU(b.Succs[0]) {
						bigEntry = b.Succs[1]
					} else if rl.X == "$u" && rl.Op == ">" && rl.Y == smallStr && returnsU(b.Succs[1]) {
						bigEntry = b.Succs[0]
					}
				}
			}
			if bigEntry == nil {
				r.Undecided("minimize#cutoff", fn.Pos(), "cannot find the small-value cutoff of minimize")
			} else {
				first := bigEntry.Instrs[0]
				exit := ssa.Instruction(nil)
				if first != bs[0].Instr.(ssa.Instruction) {
					exit = escapesWithout(first, func(in ssa.Instruction) bool { return in == bs[0].Instr.(ssa.Instruction) }, false)
				}
				r.Check("minimize#reaches-binSearch", bs[0].Instr.Pos(), exit == nil, "for words above the cutoff every path runs the binary search", "minimize can return (at "+posOf(p, exit)+") for a large word without running the binary search")
				for _, ret := range returnsOf(fn) {
					if dominates(bs[0].Instr, ret) {
						r.Check("minimize#returns-best", ret.Pos(), strings.HasSuffix(p.expr(p.res(ret, 0)), ".best"), "returns the minimiser's best", "minimize returns "+p.expr(p.res(ret, 0))+" after the search")
					}
				}
				// the minimiser starts from u with the caller's condition
				okInit := 0
				for _, b := range p.body(fn) {
					for _, in := range b.Instrs {
						if st, ok := in.(*ssa.Store); ok {
							if fa, ok := st.Addr.(*ssa.FieldAddr); ok && p.fieldAddrOwner(fa) == "minimizer" {
								if (fieldAddrName(fa) == "best" && p.expr(st.Val) == "$u") || (fieldAddrName(fa) == "cond" && p.expr(st.Val) == "$cond") {
									okInit++
								}
							}
						}
					}
				}
				r.Check("minimize#init", fn.Pos(), okInit == 2, "the minimiser starts at u with the caller's condition", "the minimiser is not initialised with (best=u, cond=cond)")
			}
		}
		// small values: i returned only if cond(i)
		for _, ret := range returnsOf(fn) {
			if ph, ok := p.resolve(p.res(ret, 0)).(*ssa.Phi); ok {
				okC := false
				for _, g := range guardsOf(ret.Block()) {
					if c, ok := p.resolve(g.Cond).(*ssa.Call); ok && g.Pol && strings.HasPrefix(p.calleeKey(c.Common()), "dyn:$cond") && p.resolve(c.Common().Args[0]) == ssa.Value(ph) {
						okC = true
					}
				}
				r.Check("minimize#small", ret.Pos(), okC, "a small value is returned only if the condition held for it", "minimize returns a small candidate without the condition having held for it")
			}
		}
	}
	// (c) minimizer.accept
	if fn := r.MustFn("(*minimizer).accept"); fn != nil {
		n := 0
		for _, b := range p.body(fn) {
			for _, in := range b.Instrs {
				st, ok := in.(*ssa.Store)
				if !ok {
					continue
				}
				fa, ok := st.Addr.(*ssa.FieldAddr)
				if !ok || fieldAddrName(fa) != "best" {
					continue
				}
				n++
				facts := p.facts(st)
				okG := holds(facts, "$u", "<", "$m.best") && p.expr(st.Val) == "$u"
				okC := false
				for _, g := range guardsOf(st.Block()) {
					if c, ok := p.resolve(g.Cond).(*ssa.Call); ok && g.Pol && p.calleeKey(c.Common()) == "dyn:$m.cond" && p.expr(c.Common().Args[0]) == "$u" {
						okC = true
					}
				}
				r.Check("(*minimizer).accept#lower-best", st.Pos(), okG && okC, "best is lowered to u only under u < best and cond(u)", "minimizer.accept updates best to "+p.expr(st.Val)+" under "+factsStr(facts)+" — not guarded by u < best ∧ cond(u)")
				for _, ret := range returnsOf(fn) {
					if ret.Block() == st.Block() {
						v, isC := constBool(p.resolve(p.res(ret, 0)))
						r.Check("(*minimizer).accept#true", ret.Pos(), isC && v, "reports true exactly when best was lowered", "accept does not report the update")
					}
				}
			}
		}
		r.Floor("stores to minimizer.best in accept", n, 1)
		for _, ret := range returnsOf(fn) {
			if v, isC := constBool(p.resolve(p.res(ret, 0))); isC && v {
				hasStore := false
				for _, in := range ret.Block().Instrs {
					if _, ok := in.(*ssa.Store); ok {
						hasStore = true
					}
				}
				r.Check("(*minimizer).accept#true-means-stored", ret.Pos(), hasStore, "true is returned only together with the update", "minimizer.accept returns true without lowering best")
			}
		}
	}
	// (d) binSearch
	if fn := r.MustFn("(*minimizer).binSearch"); fn != nil {
		var loop *loopInfo
		for _, l := range loopsOf(fn) {
			loop = l
		}
		if loop == nil {
			r.Fail("(*minimizer).binSearch#loop", fn.Pos(), "binSearch has no search loop")
		} else {
			var acc *callSite
			for _, cs := range p.callsTo(fn, "(*minimizer).accept") {
				if loop.Body[cs.Instr.Block()] {
					acc = cs
				}
			}
			if acc == nil {
				r.Fail("(*minimizer).binSearch#probe", fn.Pos(), "the search loop does not probe candidates with accept")
			} else {
				h := p.resolve(acc.Arg(0))
				var lo, hi *ssa.Phi
				for _, in := range loop.Header.Instrs {
					ph, ok := in.(*ssa.Phi)
					if !ok {
						break
					}
					for i, e := range ph.Edges {
						if !loop.Header.Dominates(loop.Header.Preds[i]) {
							continue
						}
						er := p.resolve(e)
						if er == h {
							hi = ph
						}
						if bo, ok := er.(*ssa.BinOp); ok && bo.Op == token.ADD && p.resolve(bo.X) == h {
							lo = ph
						}
					}
				}
				okHi, okLo := hi != nil, lo != nil
				if hi != nil {
					for i, e := range hi.Edges {
						pred := loop.Header.Preds[i]
						if !loop.Header.Dominates(pred) {
							continue
						}
						er := p.resolve(e)
						facts := p.facts(pred.Instrs[len(pred.Instrs)-1])
						if er == h {
							if !holds(facts, p.expr(acc.Value()), "==", "true") {
								okHi = false
							}
						} else if er != ssa.Value(hi) {
							okHi = false
						}
					}
				}
				if lo != nil {
					for i, e := range lo.Edges {
						pred := loop.Header.Preds[i]
						if !loop.Header.Dominates(pred) {
							continue
						}
						er := p.resolve(e)
						facts := p.facts(pred.Instrs[len(pred.Instrs)-1])
						if er == ssa.Value(lo) {
							continue
						}
						bo, ok := er.(*ssa.BinOp)
						c := int64(0)
						if ok {
							c, _ = constInt(p.resolve(bo.Y))
						}
						if !(ok && bo.Op == token.ADD && p.resolve(bo.X) == h && c == 1 && holds(facts, p.expr(acc.Value()), "==", "false")) {
							okLo = false
						}
					}
				}
				r.Check("(*minimizer).binSearch#upper", acc.Instr.Pos(), okHi, "the upper end moves only to a probe that was accepted", "the upper end of the binary search is not moved exactly to accepted probes: the exact boundary can be skipped")
				r.Check("(*minimizer).binSearch#lower", acc.Instr.Pos(), okLo, "the lower end moves only just past a probe that was rejected", "the lower end of the binary search is not moved to probe+1 after a rejection: the search does not converge on the boundary")
				if lo != nil && hi != nil {
					okCond := false
					for _, g := range guardsOf(acc.Instr.Block()) {
						rl := p.relOf(g)
						if rl.is(p.expr(lo), "<", p.expr(hi)) {
							okCond = true
						}
					}
					r.Check("(*minimizer).binSearch#until-empty", loop.Header.Instrs[0].Pos(), okCond, "the search continues while lower < upper", "the search loop does not run until the interval is empty")
				}
			}
		}
	}
	// (e) removeGroups
	if fn := r.MustFn("(*shrinker).removeGroups"); fn != nil {
		acs := p.callsTo(fn, "(*shrinker).accept")
		if len(acs) != 1 {
			r.Fail("(*shrinker).removeGroups#accept", fn.Pos(), "removeGroups does not propose exactly one removal per group")
		} else {
			var extra []string
			okSt, okEnd := false, false
			for _, f := range p.facts(acs[0].Instr) {
				switch {
				case strings.HasPrefix(f.X, "copy($s.rec.groups[") && strings.HasSuffix(f.X, "]).standalone") && f.Op == "==" && f.Y == "true":
					okSt = true
				case strings.HasPrefix(f.X, "copy($s.rec.groups[") && strings.HasSuffix(f.X, "]).end") && f.Op == ">=" && f.Y == "0":
					okEnd = true
				case strings.Contains(f.X, "time.") || (f.Op == "<" && f.Y == "builtin:len($s.rec.groups)"):
				default:
					extra = append(extra, f.String())
				}
			}
			r.Check("(*shrinker).removeGroups#every-group", acs[0].Instr.Pos(), okSt && okEnd && len(extra) == 0, "every completed standalone group is offered for removal", "removeGroups skips groups under extra conditions: "+strings.Join(extra, "; "))
			cand := p.expr(acs[0].Arg(0))
			r.Check("(*shrinker).removeGroups#candidate", acs[0].Instr.Pos(), strings.HasPrefix(cand, "without($s.rec.data, "), "the candidate is the current best without that group", "the removal candidate is "+cand)
			if l := innermostLoop(acs[0].Instr); l != nil {
				class, detail := p.classifyLoop(fn, l, map[*ssa.Function]bool{})
				_ = class
				okStart := false
				for _, in := range l.Header.Instrs {
					if ph, ok := in.(*ssa.Phi); ok {
						// the index of the group offered for removal
						if strings.Contains(p.expr(acs[0].Arg(0)), p.expr(ph)) || strings.Contains(factsStr(p.facts(acs[0].Instr)), "["+p.expr(ph)+"]") {
							c, okc := p.evalAtEntry(ph, 0)
							okStart = okStart || (okc && c == 0)
						}
					}
				}
				r.Check("(*shrinker).removeGroups#from-zero", l.Header.Instrs[0].Pos(), okStart, "the pass starts at group 0 ("+detail+")", "removeGroups does not start at the first group")
			}
		}
	}
}

// idxValue returns the index operand of an element load expression value.
func idxValue(p *Program, v ssa.Value) ssa.Value {
	if u, ok := p.resolve(v).(*ssa.UnOp); ok {
		if ia, ok := u.X.(*ssa.IndexAddr); ok {
			return ia.Index
		}
	}
	return nil
}

// ruleShrinkBudget: "given enough time" presupposes that the minimisation allowance starts when minimisation starts.
func ruleShrinkBudget(r *Run) {
	p := r.P
	dc := r.MustFn("doCheck")
	if dc == nil {
		return
	}
	fbs := p.callsTo(dc, "findBug")
	n := 0
	for _, cs := range p.callsTo(dc, "shrink") {
		n++
		sd, ok := p.resolve(cs.Arg(1)).(*ssa.Call)
		okFresh := ok && p.calleeKey(sd.Common()) == "shrinkDeadline" && p.expr(sd.Common().Args[0]) == "$deadline" && len(fbs) == 1 && dominates(fbs[0].Instr, sd)
		r.Check("doCheck#shrink-deadline-fresh", cs.Instr.Pos(), okFresh, "shrink gets shrinkDeadline(deadline), computed after the search", "the deadline of shrink is "+p.expr(cs.Arg(1))+", not shrinkDeadline(deadline) evaluated after findBug: a long search uses up the minimisation allowance and the unminimised counterexample is reported")
	}
	r.Floor("shrink calls in doCheck", n, 1)
	if fn := r.MustFn("shrinkDeadline"); fn != nil {
		// now + shrinktime, capped by the test deadline
		okNow := len(p.callsTo(fn, "time.Now")) >= 1
		r.Check("shrinkDeadline#from-now", fn.Pos(), okNow, "the allowance counts from the moment shrinkDeadline is called", "shrinkDeadline no longer starts from time.Now()")
	}
}
