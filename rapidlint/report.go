package main

import (
	"encoding/json"
	"fmt"
	"go/token"
	"os"
	"path/filepath"
	"runtime/debug"
	"sort"
	"strings"
	"time"

	"golang.org/x/tools/go/ssa"
)

type Status string

const (
	Discharged Status = "discharged"
	Violated   Status = "violated"
	Undecided  Status = "undecided"
)

// Obligation is one instance of a rule on one construct.
type Obligation struct {
	Key    string `json:"key"`    // rule-id:construct (stable; never a line number)
	Rule   string `json:"rule"`   // rule id
	Pos    string `json:"pos"`    // file:line of the construct on this tree
	Status Status `json:"status"` // discharged | violated | undecided
	Detail string `json:"detail"` // what was established / what is wrong
	Config string `json:"config,omitempty"`
}

// Run is the evaluation of the rules of one property on one program.
type Run struct {
	P        *Program
	Property string
	Tier     string
	Obs      []*Obligation
	keys     map[string]int
	rule     string // current rule id
	ruleText map[string]string
	ruleN    map[string]int
}

func newRun(p *Program, property, tier string) *Run {
	return &Run{P: p, Property: property, Tier: tier, keys: map[string]int{}, ruleText: map[string]string{}, ruleN: map[string]int{}}
}

// Rule starts a rule; subsequent obligations are keyed under it.
func (r *Run) Rule(id, text string) {
	r.rule = id
	r.ruleText[id] = text
}

func (r *Run) add(construct string, pos token.Pos, st Status, detail string) {
	key := r.rule + ":" + construct
	if n := r.keys[key]; n > 0 {
		r.keys[key] = n + 1
		key = fmt.Sprintf("%s[%d]", key, n)
	} else {
		r.keys[key] = 1
	}
	cfg := ""
	if r.P != nil {
		cfg = r.P.GOOS + "/" + r.P.GOARCH
	}
	ps := "-"
	if r.P != nil {
		ps = r.P.pos(pos)
	}
	r.Obs = append(r.Obs, &Obligation{Key: key, Rule: r.rule, Pos: ps, Status: st, Detail: detail, Config: cfg})
	r.ruleN[r.rule]++
}

// Check records an obligation that is discharged iff ok.
func (r *Run) Check(construct string, pos token.Pos, ok bool, good, bad string) bool {
	if ok {
		r.add(construct, pos, Discharged, good)
	} else {
		r.add(construct, pos, Violated, bad)
	}
	return ok
}

func (r *Run) OK(construct string, pos token.Pos, detail string) {
	r.add(construct, pos, Discharged, detail)
}
func (r *Run) Fail(construct string, pos token.Pos, detail string) {
	r.add(construct, pos, Violated, detail)
}
func (r *Run) Undecided(construct string, pos token.Pos, detail string) {
	r.add(construct, pos, Undecided, detail)
}

// Floor fails the rule if fewer than min instances of the construct were found.
func (r *Run) Floor(what string, n, min int) {
	if n < min {
		r.add("floor:"+what, token.NoPos, Violated, fmt.Sprintf("instance disappeared: found %d %s, confirmed floor is %d", n, what, min))
	} else {
		r.add("floor:"+what, token.NoPos, Discharged, fmt.Sprintf("found %d %s (floor %d)", n, what, min))
	}
}

// MustFn resolves an anchor function; a missing anchor is a violation naming it.
func (r *Run) MustFn(name string) *ssa.Function {
	fn := r.P.Fn(name)
	if fn == nil {
		r.add("anchor:"+name, token.NoPos, Undecided, "anchor unresolved: function "+name+" not found in "+rapidPath)
	}
	return fn
}

// guarded runs a rule body, converting a panic of the rule into an undecided obligation.
func (r *Run) guarded(id string, body func()) {
	defer func() {
		if e := recover(); e != nil {
			r.rule = id
			r.add("panic", token.NoPos, Undecided, fmt.Sprintf("rule panicked: %v\n%s", e, firstLines(string(debug.Stack()), 14)))
		}
	}()
	body()
}

func firstLines(s string, n int) string {
	l := strings.Split(s, "\n")
	if len(l) > n {
		l = l[:n]
	}
	return strings.Join(l, "\n")
}

// ---------------------------------------------------------------------------
// known findings

type KnownFinding struct {
	Status   string `json:"status"` // "known" (suppresses, prints KNOWN-FINDING) | "fixed" (suppresses nothing)
	Property string `json:"property"`
	Key      string `json:"key"`    // obligation key
	Commit   string `json:"commit"` // for fixed
	What     string `json:"what"`
	Record   string `json:"record,omitempty"` // the "fixed: property=<id> <commit> <what failed>" line
}

type KnownFile struct {
	Comment  string         `json:"comment"`
	Findings []KnownFinding `json:"findings"`
}

func loadKnown(path string) (*KnownFile, error) {
	if path == "" {
		return &KnownFile{}, nil
	}
	b, err := os.ReadFile(path)
	if err != nil {
		return nil, err
	}
	var k KnownFile
	if err := json.Unmarshal(b, &k); err != nil {
		return nil, err
	}
	return &k, nil
}

// ---------------------------------------------------------------------------
// evidence

type evidence struct {
	PropertyID  string         `json:"property_id"`
	Tier        string         `json:"tier"`
	Seed        int64          `json:"seed"`
	Level       string         `json:"level"`
	Coverage    map[string]any `json:"coverage"`
	Assumptions []string       `json:"assumptions"`
	WallS       float64        `json:"wall_s"`
	Violations  int            `json:"violations"`
}

type propertySpec struct {
	ID          string
	Explanation string   // which clause is decided
	Assumptions []string // trusted base specific to the property
	Rules       []ruleSpec
}

type ruleSpec struct {
	ID   string
	Text string
	Run  func(r *Run)
}

var commonTrusted = []string{
	"Go type checker (go/types) and go/packages loading of /repo's working tree",
	"go/ssa construction (x/tools v0.29.0), incl. its lowering of defer/recover/range",
	"language semantics of defer (LIFO, runs on panic), recover, sync.Mutex/RWMutex/Once, os.Rename",
	"anchor and idiom tables of /verif/DESIGN.md (function/field names of the analysed package)",
}

func finish(spec *propertySpec, runs []*Run, tier string, seed int64, known *KnownFile, evidencePath string, started time.Time, extra map[string]any, cmdline string) int {
	var all []*Obligation
	ruleCount := map[string]int{}
	ruleText := map[string]string{}
	funcs, instrs := 0, 0
	var configs []string
	for _, r := range runs {
		all = append(all, r.Obs...)
		for k, v := range r.ruleN {
			ruleCount[k] += v
		}
		for k, v := range r.ruleText {
			ruleText[k] = v
		}
		if r.P != nil {
			funcs = len(r.P.FuncList)
			instrs = r.P.NumInstrs
			configs = append(configs, r.P.GOOS+"/"+r.P.GOARCH)
		}
	}
	knownKeys := map[string]KnownFinding{}
	for _, k := range known.Findings {
		if k.Status == "known" && k.Property == spec.ID {
			knownKeys[k.Key] = k
		}
	}
	var violated []*Obligation
	discharged := 0
	knownHit := map[string]bool{}
	for _, o := range all {
		switch o.Status {
		case Discharged:
			discharged++
		default:
			if kf, ok := knownKeys[o.Key]; ok && o.Status == Violated {
				if !knownHit[o.Key] {
					fmt.Printf("KNOWN-FINDING: property=%s %s — %s\n", spec.ID, o.Key, kf.What)
					knownHit[o.Key] = true
				}
				continue
			}
			violated = append(violated, o)
		}
	}

	// samples: all obligations in thorough, a bounded prefix per rule in quick
	var samples []any
	perRule := map[string]int{}
	for _, o := range all {
		if tier == "quick" && o.Status == Discharged && perRule[o.Rule] >= 4 {
			continue
		}
		perRule[o.Rule]++
		samples = append(samples, o)
	}
	var rules []map[string]any
	var ids []string
	for id := range ruleText {
		ids = append(ids, id)
	}
	sort.Strings(ids)
	for _, id := range ids {
		rules = append(rules, map[string]any{"rule": id, "text": ruleText[id], "obligations": ruleCount[id]})
	}
	distinct := map[string]bool{}
	for _, o := range all {
		distinct[o.Key] = true
	}
	cov := map[string]any{
		"explanation":         spec.Explanation,
		"obligations":         len(all),
		"discharged":          discharged,
		"known_findings":      len(knownHit),
		"evaluations":         len(all),
		"distinct_nontrivial": len(distinct),
		"rule":                "one obligation per (rule, construct) instance found in the SSA/type-checked program of /repo's working tree; distinct = distinct obligation keys; an obligation is non-trivial because each names a concrete construct (function, call site, field, loop, path) and a rule evaluated on it",
		"checker_cmd":         cmdline,
		"trusted_base":        commonTrusted,
		"rules":               rules,
		"samples":             samples,
		"functions_analysed":  funcs,
		"ssa_instructions":    instrs,
		"build_configs":       configs,
		"exhaustive":          true,
	}
	for k, v := range extra {
		cov[k] = v
	}
	ev := evidence{
		PropertyID:  spec.ID,
		Tier:        tier,
		Seed:        seed,
		Level:       "other",
		Coverage:    cov,
		Assumptions: append(append([]string{}, spec.Assumptions...), "static analysis: decides only the structural clause named in coverage.explanation; nothing is executed"),
		WallS:       time.Since(started).Seconds(),
		Violations:  len(violated),
	}
	if evidencePath != "" {
		_ = os.MkdirAll(filepath.Dir(evidencePath), 0o775)
		b, _ := json.MarshalIndent(ev, "", " ")
		if err := os.WriteFile(evidencePath, b, 0o664); err != nil {
			fmt.Printf("cannot write evidence: %v\n", err)
			return 2
		}
	}
	fmt.Printf("%s tier=%s configs=%v functions=%d obligations=%d discharged=%d known=%d violated/undecided=%d wall=%.1fs\n",
		spec.ID, tier, configs, funcs, len(all), discharged, len(knownHit), len(violated), time.Since(started).Seconds())
	if len(violated) == 0 {
		// remove a stale violations file
		if evidencePath != "" {
			_ = os.Remove(strings.TrimSuffix(evidencePath, ".json") + ".violations.json")
		}
		return 0
	}
	for _, o := range violated {
		fmt.Printf("  %s %s [%s] %s: %s\n", strings.ToUpper(string(o.Status)), o.Key, o.Config, o.Pos, o.Detail)
	}
	replay := strings.TrimSuffix(evidencePath, ".json") + ".violations.json"
	if evidencePath == "" {
		replay = "-"
	} else {
		b, _ := json.MarshalIndent(map[string]any{"property": spec.ID, "violations": violated, "rules": rules}, "", " ")
		_ = os.WriteFile(replay, b, 0o664)
	}
	fmt.Printf("VIOLATION property=%s replay=%s\n", spec.ID, replay)
	return 1
}
