package main

import (
	"go/token"
	"strings"

	"golang.org/x/tools/go/ssa"
)

// String shapes: a string-valued SSA expression is unfolded into a sequence of literal parts and
// opaque parts (values rendered canonically), looking through +, fmt.Sprintf with a constant format,
// strconv.FormatUint/FormatInt/Itoa, filepath.Join and small package helpers (with their parameters
// bound to the call's arguments). Used to compare what a writer produces with what a reader / glob expects.

type strPart struct {
	Lit  string // literal text (Kind == "lit")
	Kind string // "lit", "int" (integer rendered in Base), "str" (opaque string value)
	Expr string // canonical rendering of the value
	Base int
}

func (p *Program) strShape(v ssa.Value) []strPart {
	parts := p.strShapeEnv(v, nil, 0)
	// merge adjacent literals
	var out []strPart
	for _, q := range parts {
		if q.Kind == "lit" && q.Lit == "" {
			continue
		}
		if q.Kind == "lit" && len(out) > 0 && out[len(out)-1].Kind == "lit" {
			out[len(out)-1].Lit += q.Lit
			continue
		}
		out = append(out, q)
	}
	return out
}

func (p *Program) strShapeEnv(v ssa.Value, env map[*ssa.Parameter]ssa.Value, d int) []strPart {
	opaque := func(v ssa.Value) []strPart {
		return []strPart{{Kind: "str", Expr: p.exprEnv(v, env)}}
	}
	if v == nil || d > 8 {
		return opaque(v)
	}
	v = p.resolve(v)
	if par, ok := v.(*ssa.Parameter); ok && env != nil {
		if a, ok := env[par]; ok {
			return p.strShapeEnv(a, nil, d+1)
		}
	}
	switch x := v.(type) {
	case *ssa.Const:
		if s, ok := constString(x); ok {
			return []strPart{{Kind: "lit", Lit: s}}
		}
	case *ssa.BinOp:
		if x.Op == token.ADD {
			return append(p.strShapeEnv(x.X, env, d+1), p.strShapeEnv(x.Y, env, d+1)...)
		}
	case *ssa.Extract:
		if c, ok := x.Tuple.(*ssa.Call); ok {
			if parts, ok := p.shapeOfCall(c, x.Index, env, d); ok {
				return parts
			}
		}
	case *ssa.Call:
		key := p.calleeKey(x.Common())
		args := x.Common().Args
		switch key {
		case "fmt.Sprintf":
			fs := p.strShapeEnv(args[0], env, d+1)
			format := ""
			for _, q := range fs {
				if q.Kind != "lit" {
					return opaque(v)
				}
				format += q.Lit
			}
			vals := p.variadicArgs(args[1])
			var out []strPart
			ai := 0
			for i := 0; i < len(format); i++ {
				if format[i] != '%' {
					out = append(out, strPart{Kind: "lit", Lit: string(format[i])})
					continue
				}
				if i+1 < len(format) && format[i+1] == '%' {
					out = append(out, strPart{Kind: "lit", Lit: "%"})
					i++
					continue
				}
				i++
				if i >= len(format) || ai >= len(vals) || vals[ai] == nil {
					return opaque(v)
				}
				arg := vals[ai]
				ai++
				switch format[i] {
				case 's':
					out = append(out, p.strShapeEnv(arg, env, d+1)...)
				case 'v':
					if isStringTyped(p.resolve(arg)) {
						out = append(out, p.strShapeEnv(arg, env, d+1)...)
					} else {
						out = append(out, strPart{Kind: "int", Base: 10, Expr: p.exprEnv(arg, env)})
					}
				case 'd':
					out = append(out, strPart{Kind: "int", Base: 10, Expr: p.exprEnv(arg, env)})
				case 'x':
					out = append(out, strPart{Kind: "int", Base: 16, Expr: p.exprEnv(arg, env)})
				default:
					out = append(out, strPart{Kind: "str", Expr: "%" + string(format[i]) + ":" + p.exprEnv(arg, env)})
				}
			}
			return out
		case "strconv.FormatUint", "strconv.FormatInt":
			if b, ok := constInt(p.resolve(args[1])); ok {
				return []strPart{{Kind: "int", Base: int(b), Expr: p.exprEnv(args[0], env)}}
			}
		case "strconv.Itoa":
			return []strPart{{Kind: "int", Base: 10, Expr: p.exprEnv(args[0], env)}}
		case "path/filepath.Join":
			vals := p.variadicArgs(args[0])
			var out []strPart
			for i, a := range vals {
				if i > 0 {
					out = append(out, strPart{Kind: "lit", Lit: "/"})
				}
				out = append(out, p.strShapeEnv(a, env, d+1)...)
			}
			if len(vals) > 0 {
				return out
			}
		default:
			if parts, ok := p.shapeOfCall(x, 0, env, d); ok {
				return parts
			}
		}
	}
	return opaque(v)
}

// shapeOfCall unfolds result #idx of a call to a small package helper (not one of the known anchors)
// with a single return, binding its parameters to the arguments.
func (p *Program) shapeOfCall(c *ssa.Call, idx int, env map[*ssa.Parameter]ssa.Value, d int) ([]strPart, bool) {
	sc := c.Common().StaticCallee()
	if sc == nil || !p.inRapid(sc) || sc.Blocks == nil {
		return nil, false
	}
	if o := sc.Origin(); o != nil {
		sc = o
	}
	if knownFuncs[p.fnName(sc)] {
		return nil, false
	}
	rets := returnsOf(sc)
	if len(rets) != 1 || idx >= len(rets[0].Results) || len(loopsOf(sc)) > 0 {
		return nil, false
	}
	nenv := map[*ssa.Parameter]ssa.Value{}
	for k, q := range sc.Params {
		if k < len(c.Common().Args) {
			a := c.Common().Args[k]
			if par, ok := p.resolve(a).(*ssa.Parameter); ok && env != nil {
				if b, ok := env[par]; ok {
					a = b
				}
			}
			nenv[q] = a
		}
	}
	return p.strShapeEnv(p.res(rets[0], idx), nenv, d+1), true
}

// exprEnv renders v with helper parameters replaced by their bound arguments (one level).
func (p *Program) exprEnv(v ssa.Value, env map[*ssa.Parameter]ssa.Value) string {
	s := p.expr(v)
	for par, a := range env {
		s = strings.ReplaceAll(s, "$"+par.Name(), p.expr(a))
	}
	return s
}

func isStringTyped(v ssa.Value) bool {
	if v == nil {
		return false
	}
	t := v.Type().Underlying().String()
	return t == "string"
}

// flatShape renders a shape with opaque parts replaced by placeholders.
func flatShape(parts []strPart, special map[string]string) string {
	var b strings.Builder
	for _, q := range parts {
		switch q.Kind {
		case "lit":
			b.WriteString(q.Lit)
		default:
			if s, ok := special[q.Expr]; ok {
				b.WriteString(s)
			} else {
				b.WriteString("\x02")
			}
		}
	}
	return b.String()
}
