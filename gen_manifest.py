#!/usr/bin/env python3
"""Regenerates MANIFEST.json from the table below (single source for the per-property texts)."""
import json, subprocess, sys

ENV = "GOFLAGS=-mod=mod GOPROXY=off GOSUMDB=off GOTOOLCHAIN=local GOWORK=off"
BASELINE = json.load(open('/root/.vp/BASELINE.json'))['cmd']

# id -> (claimed?, level text, technique, design_ref)
P = {
 "C01": ("one reported buffer: the words returned by doCheck are the words captured, persisted and replayed; every returned (buffer, error) pair was established by executing the property on that buffer (or is a pruning of such a recording, whose replay-equivalence is the structural discard-noninterference rule); the logged draw is the returned value; 'flaky' is reachable only on a traceback mismatch; a rejected attempt is discarded only after the failure flag has been consulted wherever user code ran in it; no sync.Once.Do runs user code (a panic there would be remembered as done and the reproduction would fail differently). Decided on all paths by SSA value identity/provenance; not decided: equality of error values on replay.",
         "SSA value-identity and provenance rules over checkTB/doCheck/shrink/accept; discard-taint dataflow over repeat", "DESIGN.md §3 C01"),
 "C02": ("the path from every failure signal (panic, Fatal*, FailNow, Error*, Fail on any T handed to user code) to TB.Errorf is unbroken on every control-flow path: signal sets flag/panics, every bracket consults the flag after cleanups on every exit (normal, skip, panic), recover sites only convert or filter invalidData, classification and verdict reach a failing TB call. Not decided: fatal calls from foreign goroutines.",
         "typestate/must-pass-through over SSA CFG with defer exit sequences; recover-site census; callback bracket census", "DESIGN.md §3 C02"),
 "C03": ("only the structural part of the generator contracts: every enforcement guard dominates its return (u<=max, filter predicate, regexp re-check), reject and accumulate are exclusive, indices are drawn against the length of what they index, inputs are never stored through, kind tables agree with Go types, every per-draw loop makes bitstream progress or is bounded, every built-in value method reads the stream on every path to a return (the regexp generators excepted: recursion over the syntax tree, not decided), the string byte budget is tested against maxLen itself, Make's kind generator is converted where a named type needs it and is built for (or looked up by) the requested reflect.Type. The arithmetic (integer extremes, floats, UTF-8) is NOT decided.",
         "guard-dominance rules, table agreement via go/types + constant folding, loop census over natural loops", "DESIGN.md §3 C03"),
 "C04": ("noninterference: inside the generation closure nothing but the bitstream, immutable parameters and process-constant configuration can influence a draw; nothing derived from discarded (rejected) bits influences later draws except through the replay-neutral zero-width stop; both stream implementations return exactly what they record, identically masked; the PRNG state is fully re-initialised per test case; prune removes exactly the discarded groups; the recording only grows outside prune (drawn() agrees between recording and replaying streams); a non-fatal failure signalled inside an attempt is consulted before the attempt is discarded, so the verdict does not rest on pruned bits; the length-control state of repeat is written by its own methods only; endGroup's assertion is made in both recording modes.",
         "nondeterminism census over the VTA call-graph closure; discard-taint dataflow; sibling agreement of drawBits; field-access index", "DESIGN.md §3 C04"),
 "C05": ("the shrinker's current best (rec, err) is written only by accept, only after the candidate compared strictly shortlex-smaller and its execution produced the same traceback, and shrink returns that state; compareData is a shortlex comparator; every pass re-checks the deadline per step; candidates never alias the current best. Strict decrease in a well-founded order gives termination.",
         "guard-dominance and who-may-write rules over SSA; comparator return/guard table; loop-header census", "DESIGN.md §3 C05"),
 "C06": ("name/glob agreement for every test name (same sanitiser expression, safe alphabet), writer/reader format agreement incl. no line-length limit in the reader, saved buffer = reported buffer, discovery and replay precede every random test case. Not decided: that the second run draws the same values (C04) and file-system behaviour of Glob.",
         "constant/format-string agreement, guarded-value rule, dominance ordering in doCheck, scanner-limit rule", "DESIGN.md §3 C06"),
 "C07": ("the seed identity chain flag → base seed → per-case seed → PRNG initialisation → reported seed → printed hint holds as SSA value identity on every path, the first test case uses the base seed itself, and the run's closure contains no nondeterminism source other than listed time-dependent constructs. Not decided: deadline-interrupted minimisation.",
         "SSA value identity along the seed chain; first-iteration constant folding of the seed recurrence; nondeterminism census", "DESIGN.md §3 C07"),
 "C08": ("the interleaving of invariant, actions, rejects and the continue-coin on every path of Repeat/executeAction/runAction: invariant+failOnError before the first step and after every completed action, none after a skipped one, only supplied actions (sorted keys), bounded retry ending in a failure, no recover/defer that could swallow the first falsification.",
         "CFG protocol (event-order) check over Repeat; counted-loop and panic-type rules; reflection-table agreement", "DESIGN.md §3 C08"),
 "C09": ("loop predicate (valid < N && invalid < 10N), counters (exactly one +1 per iteration by classification), verdict predicate (pass only under no error and valid==N or early exit with valid>0), FailNow after any failing TB call, no property invocation after a passing random phase — for all N and skip patterns. Not decided: wall-clock behaviour of the early exit.",
         "guard facts and path-condition DNF over SSA; phi recurrence analysis; post-dominance", "DESIGN.md §3 C09"),
 "C10": ("every T created anywhere is bracketed: a deferred cleanup dominates the user callback; cleanup cancels the context (under the lock) before the first callback, pops LIFO before calling outside the critical section, re-enters after a panicking callback, and the Context protocol stores once under the write lock; no go statement exists in non-test code, so everything completes before the next invocation.",
         "newT flow census, defer-dominance, ordered-event rules in (*T).cleanup, lock-set dataflow", "DESIGN.md §3 C10"),
 "C11": ("no per-test-case state of a T survives into another bracket invocation: every checkOnce receives a fresh T (created in the same iteration) or every per-case field is provably reset; the failure flag is consulted after cleanup and on the skip path of the same invocation; the shared random stream is re-initialised per case and keeps no recording.",
         "field-access index to derive per-case fields; fresh-or-reset classification of bracket call sites", "DESIGN.md §3 C11"),
 "C12": ("NOT the property as a whole (the outcome of a heuristic search over runtime values is not decidable by shape) — only three structural necessary conditions, each of which breaks exact boundaries for some threshold when violated: the boundary's bit band is generable for every bit length (folded guards of the biased integer core); the search is complete in shape (every word offered to minimize, minimize always reaches the binary search for large words and returns the minimiser's best, the binary search moves its ends only on evidence, minimizer.accept lowers best only under u < best and cond(u), every standalone group offered for removal); accepted candidates keep the failure. Correctness of the interval arithmetic and bit heuristics, pass interaction, 'given enough time' and the collection clauses are NOT decided.",
         "interval solving of folded guards for L=1..64; must-pass-through and guard-fact rules over the minimiser's SSA", "DESIGN.md §3 C12"),
 "C13": ("byte→word decoding shape (little-endian, fresh zeroed 8-byte array per word, advance by bytes copied, loop while input remains), the exhaustive three-way verdict mapping nil/invalid/other → pass/Skip/Fatal, totality (every panic converted, loops progress), independence from unread words, exhaustion stays a skip (no deferred endGroup; Repeat's 'no valid action' failure is reached only through the retry counter). Not decided: termination of the user's property.",
         "SSA shape rules on checkFuzz; exhaustive branch classification; shared overrun/recover/loop rules", "DESIGN.md §3 C13"),
 "C14": ("data-race freedom and atomic read-modify-write of the listed methods by a lock discipline valid for all schedules: every access to failed/cleanups/ctx/cancelCtx happens with T.mu held in the right mode on the same receiver, other fields are immutable after construction or atomic, no callback or re-locking call happens under the lock, Context re-checks under the write lock.",
         "must-hold lock-set dataflow over SSA CFG + field access index + call closure of the safe method set", "DESIGN.md §3 C14"),
 "C15": ("deep immutability after construction of every generator object and of shared package-level data: no store to a generator field outside its allocating function except inside a sync.Once of the same object, reads of Once-published fields are dominated by Do, nothing reachable from value/String stores through generator fields or globals, package-level variables are init-only or sync.Map.",
         "who-may-write field census, Once-publication dominance, store-through-field escape rule, package variable census", "DESIGN.md §3 C15"),
 "C16": ("for every crash point, by ordering: all writes go to the CreateTemp file in the target's directory, their errors are checked before publication, Close precedes Rename, Rename is last and is the only use of the final name, the temporary name pattern can never match the discovery glob for any test name, and Check publishes the file once per failure with the captured output already in it (no second save under the same name).",
         "CFG ordering / must-pass-through in saveFailFile, error-check dataflow, constant-pattern disjointness", "DESIGN.md §3 C16"),
 "C17": ("every malformed shape becomes an error value, never a panic: all error results tested, all index expressions length-guarded, no assert reachable in the loader; every ignore path logs and returns nil errors; the fail-file phase calls only Helper/Logf/Log/Name on the TB and leaves seed/checks/deadline for the random phase untouched.",
         "error-discipline and index-guard rules over SSA, must-log-before-return, TB method census", "DESIGN.md §3 C17"),
 "C18": ("entropy provenance of the base seed, pairwise-distinct per-case seeds, and — by folding the guards of genUintNBiased for every bit length 1..64 — satisfiability of the full-width, forced-max and narrow draws for every range width; float min/max pins, lexicographic use of the bounds' parts (a part of min/max restricts a significand draw only where all higher-order parts are pinned to that bound), the trailing-bit loop can run zero times. Frequencies ('within a few thousand draws') are NOT decided.",
         "provenance rule on baseSeed; one-unknown interval solving of folded path conditions for L=1..64", "DESIGN.md §3 C18"),
}

NA_REASONS = {
 "C12": "Exactness of the minimum is the outcome of a heuristic search over runtime values (binary search + bit heuristics + pass interaction): no sound static shape argument bounds it. Its only structural necessary condition — the boundary band being generable at all — is decided under C18 (bit-band rule); claiming C12 through it would be a proxy, so C12 is declined.",
}

def built(pid):
    out = subprocess.run(["bin/rapidlint", "-list"], capture_output=True, text=True).stdout
    return any(l.startswith(pid + ":") for l in out.splitlines())

checks, na = [], []
for pid in sorted(P):
    if P[pid] is None or not built(pid):
        na.append({"property_id": pid, "reason": NA_REASONS.get(pid, "static rule set for this property is not built yet in this revision (design in DESIGN.md §3); no verdict is claimed")})
        continue
    text, tech, ref = P[pid]
    base = f"bin/rapidlint -repo /repo -property {pid} -evidence evidence/{pid}.json -known known_findings.json"
    checks.append({
        "property_id": pid,
        "quick_cmd": base + " -tier quick",
        "thorough_cmd": base + " -tier thorough -selftest selftest",
        "evidence_file": f"evidence/{pid}.json",
        "replay_cmd_template": "bin/rapidlint -explain {path}",
        "engine": "rapidlint",
        "level_claimed": {"category": "other", "text": "Static shape argument over the type-checked SSA program of /repo's working tree, valid for all inputs/paths/schedules for the clause it covers, silent about the rest: " + text, "design_ref": ref},
        "level_note": "Trusted: go/types + go/ssa (x/tools v0.29.0) construction, Go semantics of defer/recover/sync/os.Rename, the anchor and idiom tables in DESIGN.md; user callbacks are opaque; nothing is executed. Undecided obligations, unresolved anchors, load errors and instance counts below the confirmed floor fail the check.",
        "technique": "static analysis: " + tech,
    })

m = {
 "version": 1,
 "setup_cmd": f"cd /verif/rapidlint && env {ENV} go build -o /verif/bin/rapidlint .",
 "hooks": {"guard": "verif", "enable": "none needed: the analysis reads /repo's working tree as is; no hooks or instrumentation exist", "baseline_off_cmd": BASELINE, "source_commits": [], "add_only": True},
 "engines": [{"name": "rapidlint", "path": "rapidlint/", "serves_properties": [c["property_id"] for c in checks], "kind_free_text": "custom static analyser (go/packages + go/types + go/ssa + VTA call graph): per-property rule sets over SSA with obligations, floors and a mutation self-test"}],
 "checks": checks,
 "not_applicable": na,
 "notes": "Every check re-loads and re-analyses /repo's current working tree (nothing cached). Thorough tier = same rules under 7 GOOS/GOARCH configurations + the checker self-test (catalogued mutations of the current tree must be reported, behaviour-preserving variants must stay silent). known_findings.json records the genuine defects found on the pinned tree, all repaired by fix: commits.",
}
json.dump(m, open("MANIFEST.json", "w"), indent=1)
print("claimed:", [c["property_id"] for c in checks], "n/a:", [n["property_id"] for n in na])
